//! Native replay of solver counterexamples against the real rzmq build (cfg rzmq_verif facade).
//! Input: a line-oriented script on stdin; output: one line per observable event.
//!   engine <server|client> key=value...      create an engine (keys: type, plain_user, plain_pass, allow_zmtp2, security, hb_ivl_ms, hb_timeout_ms, maxmsg, routing_id(hex))
//!   start                                    call start()
//!   feed <hex>                               on_network_bytes(hex)
//!   tick <ms since engine creation>          on_tick(base + ms)
//!   phase                                    print phase
use rzmq::protocol::zmtp::actions::{AppAction, NetAction};
use rzmq::protocol::zmtp::engine::ZmtpEngine;
use rzmq::verif_facade::{new_engine, EngineCfg};
use std::io::BufRead;
use std::time::{Duration, Instant};

fn unhex(s: &str) -> Vec<u8> {
  let s: Vec<u8> = s.bytes().filter(|c| !c.is_ascii_whitespace()).collect();
  s.chunks(2).map(|p| u8::from_str_radix(std::str::from_utf8(p).unwrap(), 16).unwrap()).collect()
}

fn hex(b: &[u8]) -> String {
  b.iter().map(|x| format!("{:02x}", x)).collect()
}

fn report(out: rzmq::protocol::zmtp::actions::EngineOutput) {
  for n in out.net_actions {
    match n {
      NetAction::Send { data, .. } => println!("send {}", hex(&data)),
      _ => println!("net other"),
    }
  }
  for a in out.app_actions {
    match a {
      AppAction::HandshakeComplete { peer_identity, peer_socket_type } => println!(
        "handshake_complete identity={} type={}",
        peer_identity.map(|b| hex(b.as_ref())).unwrap_or_else(|| "none".into()),
        peer_socket_type.unwrap_or_else(|| "none".into())
      ),
      AppAction::DeliverMessage(b) => {
        let parts: Vec<String> =
          b.iter().map(|m| format!("{}{}:{}", if m.is_more() { "M" } else { "-" }, if m.is_command() { "C" } else { "-" }, hex(m.data().unwrap_or(&[])))).collect();
        println!("deliver {}", parts.join(","));
      }
      AppAction::PeerError(e) => println!("peer_error {:?}", e),
      #[allow(unreachable_patterns)]
      _ => println!("app other"),
    }
  }
}

fn parse_cfg<'a>(it: &mut dyn Iterator<Item = &'a str>) -> EngineCfg {
  let mut cfg = EngineCfg::default();
  for kv in it {
    if kv == "--" {
      break;
    }
    let (k, v) = kv.split_once('=').unwrap();
    match k {
      "type" => cfg.socket_type_name = v.to_string(),
      "plain_user" => {
        cfg.use_plain = true;
        cfg.plain_username = Some(String::from_utf8_lossy(&unhex(v)).into_owned())
      }
      "plain_pass" => cfg.plain_password = Some(String::from_utf8_lossy(&unhex(v)).into_owned()),
      "use_plain" => cfg.use_plain = v == "1",
      "allow_zmtp2" => cfg.allow_zmtp2 = v == "1",
      "security" => cfg.security_enabled = v == "1",
      "hb_ivl_ms" => cfg.heartbeat_ivl = Some(Duration::from_millis(v.parse().unwrap())),
      "hb_timeout_ms" => cfg.heartbeat_timeout = Some(Duration::from_millis(v.parse().unwrap())),
      "maxmsg" => cfg.max_msg_size = v.parse().unwrap(),
      "routing_id" => cfg.routing_id = Some(unhex(v)),
      "curve_sk" => {
        // CURVE with the given 32-byte secret key (server role needs nothing else)
        let b = unhex(v);
        let mut k32 = [0u8; 32];
        k32.copy_from_slice(&b[..32]);
        cfg.use_curve = true;
        cfg.security_enabled = true;
        cfg.curve_local_secret_key = Some(k32);
      }
      _ => panic!("unknown key {}", k),
    }
  }
  cfg
}

/// Two engines wired back to back (client = connector, server = listener) with explicit delivery steps.
struct Pair {
  c: ZmtpEngine,
  s: ZmtpEngine,
  to_s: Vec<u8>,
  to_c: Vec<u8>,
  hc_c: Vec<String>,
  hc_s: Vec<String>,
  err_c: usize,
  err_s: usize,
}

impl Pair {
  fn absorb(&mut self, out: rzmq::protocol::zmtp::actions::EngineOutput, from_server: bool) {
    for n in out.net_actions {
      if let NetAction::Send { data, .. } = n {
        if from_server {
          self.to_c.extend_from_slice(&data);
        } else {
          self.to_s.extend_from_slice(&data);
        }
      }
    }
    for a in out.app_actions {
      match a {
        AppAction::HandshakeComplete { peer_identity, peer_socket_type } => {
          let l = format!(
            "identity={} type={}",
            peer_identity.map(|b| hex(b.as_ref())).unwrap_or_else(|| "none".into()),
            peer_socket_type.unwrap_or_else(|| "none".into())
          );
          if from_server {
            self.hc_s.push(l)
          } else {
            self.hc_c.push(l)
          }
        }
        AppAction::PeerError(_) => {
          if from_server {
            self.err_s += 1
          } else {
            self.err_c += 1
          }
        }
        _ => {}
      }
    }
  }
  fn deliver(&mut self, to_server: bool, n: usize) {
    if to_server {
      let n = n.min(self.to_s.len());
      let chunk: Vec<u8> = self.to_s.drain(..n).collect();
      let out = self.s.on_network_bytes(bytes::Bytes::from(chunk));
      self.absorb(out, true);
    } else {
      let n = n.min(self.to_c.len());
      let chunk: Vec<u8> = self.to_c.drain(..n).collect();
      let out = self.c.on_network_bytes(bytes::Bytes::from(chunk));
      self.absorb(out, false);
    }
  }
}

fn main() {
  let mut pair: Option<Pair> = None;
  let stdin = std::io::stdin();
  let mut eng: Option<ZmtpEngine> = None;
  let mut trie: Option<rzmq::verif_facade::VSubscriptionTrie> = None;
  let mut lb: Option<rzmq::verif_facade::VLoadBalancer> = None;
  let mut eb: Option<rzmq::verif_facade::VEgressBuffer> = None;
  let mut ing: Option<(rzmq::verif_facade::VAnonymousIngress, Vec<rzmq::verif_facade::VPipeSender>)> = None;
  let ing_rt = tokio::runtime::Builder::new_current_thread().enable_all().build().unwrap();
  let base = Instant::now();
  for line in stdin.lock().lines() {
    let line = line.unwrap();
    let mut it = line.split_whitespace();
    let cmd = match it.next() {
      Some(c) => c,
      None => continue,
    };
    match cmd {
      "pair" => {
        // pair <client key=value...> -- <server key=value...>
        let ccfg = parse_cfg(&mut it);
        let scfg = parse_cfg(&mut it);
        let mut p = Pair { c: new_engine(false, ccfg), s: new_engine(true, scfg), to_s: vec![], to_c: vec![], hc_c: vec![], hc_s: vec![], err_c: 0, err_s: 0 };
        let o = p.c.start();
        p.absorb(o, false);
        let o = p.s.start();
        p.absorb(o, true);
        pair = Some(p);
        println!("pair ok");
      }
      "pdeliver" => {
        // pdeliver <s|c> <n|all>: deliver pending bytes to the server / client engine
        let p = pair.as_mut().unwrap();
        let to_server = it.next().unwrap() == "s";
        let n = match it.next().unwrap() {
          "all" => usize::MAX,
          v => v.parse().unwrap(),
        };
        p.deliver(to_server, n);
      }
      "pstep" => {
        // pstep <dir 0|1> <one 0|1>: one free delivery decision, normalised exactly as the symbolic driver does
        let p = pair.as_mut().unwrap();
        let dir: u32 = it.next().unwrap().parse().unwrap();
        let one: u32 = it.next().unwrap().parse().unwrap();
        if !(p.to_s.is_empty() && p.to_c.is_empty()) {
          let mut d = dir == 1;
          if (d && p.to_s.is_empty()) || (!d && p.to_c.is_empty()) {
            d = !p.to_s.is_empty();
          }
          let n = if one == 1 { 1 } else { usize::MAX };
          p.deliver(d, n);
        }
      }
      "pflush" => {
        let p = pair.as_mut().unwrap();
        for _ in 0..40 {
          if p.to_s.is_empty() && p.to_c.is_empty() {
            break;
          }
          if !p.to_s.is_empty() {
            p.deliver(true, usize::MAX);
          }
          if !p.to_c.is_empty() {
            p.deliver(false, usize::MAX);
          }
        }
        println!(
          "pair client_phase={:?} server_phase={:?} pending={}/{} hc_client=[{}] hc_server=[{}] errors={}/{}",
          p.c.phase,
          p.s.phase,
          p.to_s.len(),
          p.to_c.len(),
          p.hc_c.join(";"),
          p.hc_s.join(";"),
          p.err_c,
          p.err_s
        );
      }
      "engine" => {
        let role = it.next().unwrap();
        let cfg = parse_cfg(&mut it);
        eng = Some(new_engine(role == "server", cfg));
        println!("engine ok");
      }
      "start" => report(eng.as_mut().unwrap().start()),
      "feed" => {
        let data = unhex(it.next().unwrap_or(""));
        let r = std::panic::catch_unwind(std::panic::AssertUnwindSafe(|| eng.as_mut().unwrap().on_network_bytes(bytes::Bytes::from(data))));
        match r {
          Ok(out) => report(out),
          Err(_) => println!("PANIC in on_network_bytes"),
        }
      }
      "tick" => {
        let ms: u64 = it.next().unwrap().parse().unwrap();
        report(eng.as_mut().unwrap().on_tick(base + Duration::from_millis(ms)));
      }
      "waitgroup_race" => {
        // schedule from the solver: waiter checks the count (1), worker calls done() (0 + notify_waiters),
        // only then the waiter creates its Notified future.
        use rzmq::verif_facade::{set_sched_hook, VWaitGroup};
        let rt = tokio::runtime::Builder::new_current_thread().enable_all().build().unwrap();
        let wg = VWaitGroup::new();
        wg.add(1);
        let wg2 = wg.clone();
        let fired = std::sync::Arc::new(std::sync::atomic::AtomicBool::new(false));
        let fired2 = fired.clone();
        set_sched_hook(Some(Box::new(move |point: &str| {
          if point == "WaitGroup::wait:after-check" && !fired2.swap(true, std::sync::atomic::Ordering::SeqCst) {
            wg2.done();
          }
        })));
        let r = rt.block_on(async { tokio::time::timeout(Duration::from_millis(500), wg.wait()).await });
        set_sched_hook(None);
        match r {
          Ok(()) => println!("waitgroup wait returned count={}", wg.get_count()),
          Err(_) => println!("waitgroup wait BLOCKED count={} hook_fired={}", wg.get_count(), fired.load(std::sync::atomic::Ordering::SeqCst)),
        }
      }
      "waitgroup_waiters" => {
        // waitgroup_waiters <n>: n tasks park in wait(), then the last worker calls done(): every one must return
        use rzmq::verif_facade::VWaitGroup;
        let n: usize = it.next().unwrap().parse().unwrap();
        let rt = tokio::runtime::Builder::new_current_thread().enable_all().build().unwrap();
        let released = rt.block_on(async move {
          let wg = VWaitGroup::new();
          wg.add(1);
          let mut hs = Vec::new();
          for _ in 0..n {
            let w = wg.clone();
            hs.push(tokio::spawn(async move { w.wait().await }));
          }
          tokio::time::sleep(Duration::from_millis(50)).await; // all waiters are parked now
          wg.done();
          let mut released = 0;
          for h in hs {
            if tokio::time::timeout(Duration::from_millis(500), h).await.is_ok() {
              released += 1;
            }
          }
          released
        });
        println!("waitgroup_waiters released={} of {}{}", released, n, if released < n { " BLOCKED with count=0" } else { "" });
        std::process::exit(0);
      }
      "lb_wait_race" => {
        // schedule from the solver: the sender sees no peer, a peer is added (+notify_waiters), only then
        // the sender creates its Notified future.
        use rzmq::verif_facade::{set_sched_hook, VLoadBalancer};
        let rt = tokio::runtime::Builder::new_current_thread().enable_all().build().unwrap();
        let lb = std::sync::Arc::new(VLoadBalancer::new());
        let lb2 = lb.clone();
        let fired = std::sync::Arc::new(std::sync::atomic::AtomicBool::new(false));
        let fired2 = fired.clone();
        set_sched_hook(Some(Box::new(move |point: &str| {
          if point == "LoadBalancer::wait_for_connection:after-check" && !fired2.swap(true, std::sync::atomic::Ordering::SeqCst) {
            lb2.add_connection("tcp://peer");
          }
        })));
        let r = rt.block_on(async { tokio::time::timeout(Duration::from_millis(500), lb.wait_for_connection()).await });
        set_sched_hook(None);
        match r {
          Ok(res) => println!("lb wait returned ok={} peers={}", res.is_ok(), lb.connection_count()),
          Err(_) => println!("lb wait BLOCKED peers={} hook_fired={}", lb.connection_count(), fired.load(std::sync::atomic::Ordering::SeqCst)),
        }
      }
      "route_sweep" => {
        // route_sweep <mode> <n> <cursor> <rooms epoch1> <rooms epoch2>: OutgoingMessageOrchestrator over n scripted peers
        use rzmq::verif_facade::VOrchestrator;
        let mode: usize = it.next().unwrap().parse().unwrap();
        let n: usize = it.next().unwrap().parse().unwrap();
        let j0: usize = it.next().unwrap().parse().unwrap();
        let r1: Vec<bool> = it.next().unwrap().chars().map(|c| c == '1').collect();
        let r2: Vec<bool> = it.next().unwrap().chars().map(|c| c == '1').collect();
        let rt = tokio::runtime::Builder::new_current_thread().enable_all().build().unwrap();
        rt.block_on(async move {
          let o = std::sync::Arc::new(VOrchestrator::new());
          let names = ["a", "b", "c", "d"];
          let connect = |o: &VOrchestrator| {
            for i in 0..n {
              o.add_peer(names[i], false);
            }
          };
          if mode != 2 {
            connect(&o);
            // advance the rotation cursor through the real code: every peer is full, each sweep of a 1-peer... use try_route_sync on full peers
            for _ in 0..j0 {
              // one failed single-step: temporarily give the current peer room so that exactly one rotation step is consumed
              // (a delivery advances the cursor by one)
              let before: Vec<usize> = (0..n).map(|i| o.delivered(i)).collect();
              for i in 0..n {
                o.set_room(i, true);
              }
              let _ = o.try_route_sync();
              for i in 0..n {
                o.set_room(i, false);
              }
              let _ = before;
            }
          }
          let base: Vec<usize> = (0..if mode != 2 { n } else { 0 }).map(|i| o.delivered(i)).collect();
          if mode != 2 {
            for i in 0..n {
              o.set_room(i, r1[i]);
            }
          }
          if mode == 0 {
            let r = o.try_route_sync();
            let d: Vec<usize> = (0..n).map(|i| o.delivered(i) - base[i]).collect();
            println!("route_sweep sync result ok={} delivered={:?}", r.is_ok(), d);
            if r.is_err() && r1.iter().any(|x| *x) {
              println!("route_sweep ERROR while a peer has room");
            }
            return;
          }
          let o2 = o.clone();
          let task = tokio::spawn(async move { o2.route_message(mode == 2).await });
          tokio::time::sleep(Duration::from_millis(50)).await;
          if mode == 2 {
            // all peers connect before the sender resumes (single-threaded runtime: no await between the adds)
            for i in 0..n {
              o.add_peer(names[i], r1[i]);
            }
            tokio::time::sleep(Duration::from_millis(50)).await;
          }
          let base: Vec<usize> = if mode == 2 { vec![0; n] } else { base };
          if task.is_finished() {
            let r = task.await.unwrap();
            let d: Vec<usize> = (0..n).map(|i| o.delivered(i) - base[i]).collect();
            println!("route_sweep epoch1 finished ok={} delivered={:?}", r.is_ok(), d);
            if r.is_err() && r1.iter().any(|x| *x) {
              println!("route_sweep ERROR while a peer has room");
            }
            return;
          }
          println!("route_sweep parked after epoch 1 rooms={:?}", r1);
          if r1.iter().any(|x| *x) {
            println!("route_sweep PARKED while another peer has room (epoch 1)");
          }
          for i in 0..n {
            o.set_room(i, r2[i]);
          }
          tokio::time::sleep(Duration::from_millis(200)).await;
          if task.is_finished() {
            let r = task.await.unwrap();
            let d: Vec<usize> = (0..n).map(|i| o.delivered(i) - base[i]).collect();
            println!("route_sweep epoch2 finished ok={} delivered={:?}", r.is_ok(), d);
          } else {
            println!("route_sweep still parked after epoch 2 rooms={:?}", r2);
            if r2.iter().any(|x| *x) {
              println!("route_sweep PARKED while another peer has room (epoch 2)");
            }
            task.abort();
          }
        });
      }
      "req_timeout_then_send" => {
        // public API: REQ (RCVTIMEO 100 ms) <-> REP over inproc; the REP never answers: send, recv (times out), send again
        let rt = tokio::runtime::Builder::new_multi_thread().worker_threads(2).enable_all().build().unwrap();
        let (r1, r2, r3) = rt.block_on(async move {
          let ctx = rzmq::Context::new().unwrap();
          let rep = ctx.socket(rzmq::SocketType::Rep).unwrap();
          let req = ctx.socket(rzmq::SocketType::Req).unwrap();
          req.set_option(rzmq::socket::options::RCVTIMEO, 100i32).await.unwrap();
          rep.bind("inproc://verif-req-timeout").await.unwrap();
          req.connect("inproc://verif-req-timeout").await.unwrap();
          tokio::time::sleep(Duration::from_millis(150)).await;
          let r1 = req.send(rzmq::Msg::from_vec(b"one".to_vec())).await;
          let r2 = req.recv().await.map(|_| ());
          let r3 = req.send(rzmq::Msg::from_vec(b"two".to_vec())).await;
          (format!("{:?}", r1), format!("{:?}", r2), format!("{:?}", r3))
        });
        println!("req_timeout_then_send send1={} recv={} send2={}{}", r1, r2, r3, if r3.starts_with("Ok") { " SECOND SEND ACCEPTED without a reply in between" } else { "" });
        std::process::exit(0);
      }
      "rep_recv_race" => {
        // schedule from the solver: both callers read ReadyToReceive before either stores ReceivedRequest.
        // Public API: a REP socket with two REQ clients that each sent a request; two tasks call recv(); the schedule
        // point parks each caller after its state check until the other has arrived too (or 400 ms passed). Then ONE
        // reply is sent and the clients are asked for theirs.
        use rzmq::verif_facade::set_sched_hook;
        use std::sync::atomic::{AtomicUsize, Ordering};
        let rt = tokio::runtime::Builder::new_multi_thread().worker_threads(4).enable_all().build().unwrap();
        let arrived = std::sync::Arc::new(AtomicUsize::new(0));
        let a2 = arrived.clone();
        let (oks, errs, at_point, replies) = rt.block_on(async move {
          let ctx = rzmq::Context::new().unwrap();
          let rep = ctx.socket(rzmq::SocketType::Rep).unwrap();
          rep.set_option(rzmq::socket::options::RCVTIMEO, 1500i32).await.unwrap();
          rep.bind("inproc://verif-rep-race").await.unwrap();
          let mut reqs = Vec::new();
          for i in 0..2u8 {
            let r = ctx.socket(rzmq::SocketType::Req).unwrap();
            r.set_option(rzmq::socket::options::RCVTIMEO, 700i32).await.unwrap();
            r.connect("inproc://verif-rep-race").await.unwrap();
            tokio::time::sleep(Duration::from_millis(100)).await;
            r.send(rzmq::Msg::from_vec(vec![b'q', b'0' + i])).await.unwrap();
            reqs.push(r);
          }
          tokio::time::sleep(Duration::from_millis(150)).await;
          set_sched_hook(Some(Box::new(move |point: &str| {
            if point == "RepSocket::recv:after-check" {
              a2.fetch_add(1, Ordering::SeqCst);
              let t0 = std::time::Instant::now();
              while a2.load(Ordering::SeqCst) < 2 && t0.elapsed() < Duration::from_millis(400) {
                std::thread::yield_now();
              }
            }
          })));
          let mut hs = Vec::new();
          for _ in 0..2 {
            let r = rep.clone();
            hs.push(tokio::spawn(async move { r.recv().await }));
          }
          let (mut oks, mut errs) = (0, 0);
          for h in hs {
            match h.await.unwrap() {
              Ok(_) => oks += 1,
              Err(_) => errs += 1,
            }
          }
          set_sched_hook(None);
          // one reply per successful recv is what the application would now send
          let mut sent = 0;
          for _ in 0..oks {
            if rep.send(rzmq::Msg::from_vec(b"reply".to_vec())).await.is_ok() {
              sent += 1;
            }
          }
          let mut replies = 0;
          for r in &reqs {
            if r.recv().await.is_ok() {
              replies += 1;
            }
          }
          let _ = sent;
          (oks, errs, arrived.load(Ordering::SeqCst), replies)
        });
        println!("rep_recv_race ok={} err={} reached_point={} clients_answered={}", oks, errs, at_point, replies);
        std::process::exit(0);
      }
      "req_send_race" => {
        // schedule from the solver: both callers read ReadyToSend before either writes ExpectingReply.
        // Public API only (REQ connected to a REP over inproc); the schedule point parks each caller after its
        // state check until the other has arrived too (or 400 ms passed).
        use rzmq::verif_facade::set_sched_hook;
        use std::sync::atomic::{AtomicUsize, Ordering};
        let rt = tokio::runtime::Builder::new_multi_thread().worker_threads(4).enable_all().build().unwrap();
        let arrived = std::sync::Arc::new(AtomicUsize::new(0));
        let a2 = arrived.clone();
        let (oks, errs, at_point) = rt.block_on(async move {
          let ctx = rzmq::Context::new().unwrap();
          let rep = ctx.socket(rzmq::SocketType::Rep).unwrap();
          let req = ctx.socket(rzmq::SocketType::Req).unwrap();
          rep.bind("inproc://verif-req-race").await.unwrap();
          req.connect("inproc://verif-req-race").await.unwrap();
          tokio::time::sleep(Duration::from_millis(150)).await;
          set_sched_hook(Some(Box::new(move |point: &str| {
            if point == "ReqSocket::send:after-check" {
              a2.fetch_add(1, Ordering::SeqCst);
              let t0 = std::time::Instant::now();
              while a2.load(Ordering::SeqCst) < 2 && t0.elapsed() < Duration::from_millis(400) {
                std::thread::yield_now();
              }
            }
          })));
          let mut hs = Vec::new();
          for i in 0..2u8 {
            let r = req.clone();
            hs.push(tokio::spawn(async move { tokio::time::timeout(Duration::from_millis(1500), r.send(rzmq::Msg::from_vec(vec![i]))).await }));
          }
          let (mut oks, mut errs) = (0, 0);
          for h in hs {
            match h.await.unwrap() {
              Ok(Ok(())) => oks += 1,
              _ => errs += 1,
            }
          }
          set_sched_hook(None);
          (oks, errs, arrived.load(Ordering::SeqCst))
        });
        println!("req_send_race ok={} err={} reached_point={}", oks, errs, at_point);
        std::mem::forget(rt);
      }
      "send_multipart_frames" => {
        // public API only: PUSH socket, send_multipart with N empty frames (no peer needed to reach the conversion)
        let n: usize = it.next().unwrap().parse().unwrap();
        let rt = tokio::runtime::Builder::new_multi_thread().worker_threads(2).enable_all().build().unwrap();
        let r = std::panic::catch_unwind(std::panic::AssertUnwindSafe(|| {
          rt.block_on(async {
            let ctx = rzmq::Context::new().unwrap();
            let s = ctx.socket(rzmq::SocketType::Push).unwrap();
            let _ = s.set_option(rzmq::socket::options::SNDTIMEO, 0i32).await;
            let mut frames = Vec::new();
            for i in 0..n {
              let mut m = rzmq::Msg::new();
              if i + 1 < n {
                m.set_flags(rzmq::MsgFlags::MORE);
              }
              frames.push(m);
            }
            let res = tokio::time::timeout(Duration::from_millis(500), s.send_multipart(frames)).await;
            format!("{:?}", res)
          })
        }));
        match r {
          Ok(res) => println!("send_multipart returned {}", &res[..res.len().min(120)]),
          Err(_) => println!("PANIC in send_multipart with {} frames", n),
        }
        std::process::exit(0);
      }
      "trie_new" => trie = Some(rzmq::verif_facade::VSubscriptionTrie::new()),
      "trie_sub" => trie.as_ref().unwrap().subscribe(&unhex(it.next().unwrap_or(""))),
      "trie_unsub" => println!("unsub {}", trie.as_ref().unwrap().unsubscribe(&unhex(it.next().unwrap_or("")))),
      "trie_match" => println!("match {}", trie.as_ref().unwrap().matches(&unhex(it.next().unwrap_or("")))),
      "lb_new" => lb = Some(rzmq::verif_facade::VLoadBalancer::new()),
      "lb_add" => lb.as_ref().unwrap().add_connection(it.next().unwrap()),
      "lb_remove" => lb.as_ref().unwrap().remove_connection(it.next().unwrap()),
      "lb_next" => println!("next {} count={}", lb.as_ref().unwrap().next_uri().unwrap_or_else(|| "none".into()), lb.as_ref().unwrap().connection_count()),
      "eb_new" => eb = Some(rzmq::verif_facade::VEgressBuffer::new()),
      "eb_push" => {
        let d = unhex(it.next().unwrap());
        let c: usize = it.next().unwrap().parse().unwrap();
        eb.as_mut().unwrap().push(bytes::Bytes::from(d), c);
      }
      "eb_prio" => eb.as_mut().unwrap().push_priority(bytes::Bytes::from(unhex(it.next().unwrap()))),
      "eb_write" => {
        let n: usize = it.next().unwrap().parse().unwrap();
        let b = eb.as_mut().unwrap();
        println!("slice {}", b.current_slice().map(hex).unwrap_or_else(|| "none".into()));
        let popped = b.advance(n);
        println!("advanced popped={} pending={} bytes={}", popped, b.pending_messages(), b.total_pending_bytes());
      }
      "ingress_detach" => {
        // recv() of the first frame of A (pipe 0), then pipe 1 (message B) is deregistered, then two more recv()
        use rzmq::verif_facade::VAnonymousIngress;
        let rt = tokio::runtime::Builder::new_current_thread().enable_all().build().unwrap();
        let eng = VAnonymousIngress::new(4);
        let s0 = eng.register_pipe(0, 4);
        let s1 = eng.register_pipe(1, 4);
        let mk = |tags: &[u8]| {
          let mut fb = rzmq::FrameBatch::new();
          for (i, t) in tags.iter().enumerate() {
            let mut m = rzmq::Msg::from_vec(vec![*t]);
            if i + 1 < tags.len() {
              m.set_flags(rzmq::MsgFlags::MORE);
            }
            fb.push(m);
          }
          fb
        };
        assert!(s0.try_send(mk(&[0xA1, 0xA2, 0xA3])));
        assert!(s1.try_send(mk(&[0xB1, 0xB2])));
        let zero = Some(Duration::ZERO);
        rt.block_on(async {
          let mut out = Vec::new();
          if let Ok(m) = eng.recv(zero).await {
            out.push(hex(m.data().unwrap_or(&[])));
          }
          eng.deregister_pipe(1);
          for _ in 0..2 {
            match eng.recv(zero).await {
              Ok(m) => out.push(hex(m.data().unwrap_or(&[]))),
              Err(_) => out.push("none".into()),
            }
          }
          println!("ingress delivered {}", out.join(","));
        });
      }
      "ing_new" => {
        let e = rzmq::verif_facade::VAnonymousIngress::new(4);
        let s = vec![e.register_pipe(0, 4), e.register_pipe(1, 4)];
        ing = Some((e, s));
      }
      "ing_send" => {
        let p: usize = it.next().unwrap().parse().unwrap();
        let tags = unhex(it.next().unwrap());
        let mut fb = rzmq::FrameBatch::new();
        for (i, t) in tags.iter().enumerate() {
          let mut m = rzmq::Msg::from_vec(vec![*t]);
          if i + 1 < tags.len() {
            m.set_flags(rzmq::MsgFlags::MORE);
          }
          fb.push(m);
        }
        println!("ing_send {}", ing.as_ref().unwrap().1[p].try_send(fb));
      }
      "ing_recv" => {
        let e = &ing.as_ref().unwrap().0;
        match ing_rt.block_on(e.recv(Some(Duration::ZERO))) {
          Ok(m) => println!("frame {}{}", hex(m.data().unwrap_or(&[])), if m.is_more() { "+" } else { "" }),
          Err(_) => println!("frame none"),
        }
      }
      "ing_recvmp" => {
        let e = &ing.as_ref().unwrap().0;
        match ing_rt.block_on(e.recv_multipart(Some(Duration::ZERO))) {
          Ok(b) => {
            for m in b.iter() {
              println!("frame {}{}", hex(m.data().unwrap_or(&[])), if m.is_more() { "+" } else { "" });
            }
          }
          Err(_) => println!("frame none"),
        }
      }
      "ing_dereg" => {
        let p: usize = it.next().unwrap().parse().unwrap();
        ing.as_ref().unwrap().0.deregister_pipe(p);
        println!("detach {}", p);
      }
      "noise_heartbeat" => {
        // two real engines complete a NOISE_XX handshake; the server (heartbeats on) ticks; what it emits is fed to the client
        fn sends(out: &rzmq::protocol::zmtp::actions::EngineOutput) -> Vec<u8> {
          let mut v = Vec::new();
          for a in &out.net_actions {
            if let NetAction::Send { data, .. } = a {
              v.extend_from_slice(data);
            }
          }
          v
        }
        fn apps(out: &rzmq::protocol::zmtp::actions::EngineOutput) -> String {
          out.app_actions.iter().map(|a| match a {
            AppAction::HandshakeComplete { .. } => "hs".to_string(),
            AppAction::DeliverMessage(_) => "deliver".to_string(),
            AppAction::PeerError(e) => format!("error({:?})", e),
            #[allow(unreachable_patterns)]
            _ => "other".to_string(),
          }).collect::<Vec<_>>().join(",")
        }
        let ssk = [7u8; 32];
        let csk = [9u8; 32];
        let spk = x25519_dalek::PublicKey::from(&x25519_dalek::StaticSecret::from(ssk)).to_bytes();
        let mut scfg = EngineCfg::default();
        scfg.socket_type_name = "PULL".into();
        scfg.security_enabled = true;
        scfg.use_noise_xx = true;
        scfg.noise_xx_local_sk = Some(ssk);
        scfg.heartbeat_ivl = Some(Duration::from_millis(1));
        scfg.heartbeat_timeout = Some(Duration::from_millis(500));
        let mut ccfg = EngineCfg::default();
        ccfg.socket_type_name = "PUSH".into();
        ccfg.security_enabled = true;
        ccfg.use_noise_xx = true;
        ccfg.noise_xx_local_sk = Some(csk);
        ccfg.noise_xx_remote_pk = Some(spk);
        let mut s = new_engine(true, scfg);
        let mut c = new_engine(false, ccfg);
        let mut to_s = sends(&c.start());
        let mut to_c = sends(&s.start());
        for _ in 0..32 {
          if !to_c.is_empty() {
            let d = std::mem::take(&mut to_c);
            let o = c.on_network_bytes(bytes::Bytes::from(d));
            to_s.extend(sends(&o));
          }
          if !to_s.is_empty() {
            let d = std::mem::take(&mut to_s);
            let o = s.on_network_bytes(bytes::Bytes::from(d));
            to_c.extend(sends(&o));
          }
          if to_c.is_empty() && to_s.is_empty() {
            break;
          }
        }
        println!("noise phases server={:?} client={:?}", s.phase, c.phase);
        std::thread::sleep(Duration::from_millis(5));
        let tick = s.on_tick(Instant::now());
        let ping = sends(&tick);
        println!("noise server tick emitted {} bytes: {}", ping.len(), hex(&ping));
        let o = c.on_network_bytes(bytes::Bytes::from(ping));
        let pong = sends(&o);
        println!("noise client reaction: sends={} apps=[{}] phase={:?} buffered={}", pong.len(), apps(&o), c.phase, c.buffer_len());
        let o2 = s.on_network_bytes(bytes::Bytes::from(pong));
        println!("noise server after reply: apps=[{}] waiting_pong={}", apps(&o2), s.verif_waiting_for_pong());
      }
      "record_len" => {
        // LengthPrefixedFramer with a tag-prepending cipher: one message of N payload bytes, then the peer reads it
        struct TagCipher;
        impl rzmq::verif_facade::VCipher for TagCipher {
          fn encrypt(&mut self, p: &[u8]) -> Result<Vec<u8>, rzmq::ZmqError> {
            let mut v = vec![0xEEu8; 16];
            v.extend_from_slice(p);
            Ok(v)
          }
          fn decrypt(&mut self, c: &[u8]) -> Result<Vec<u8>, rzmq::ZmqError> {
            if c.len() < 16 {
              return Err(rzmq::ZmqError::InvalidMessage("short".into()));
            }
            Ok(c[16..].to_vec())
          }
        }
        let n: usize = it.next().unwrap().parse().unwrap();
        let mut tx = rzmq::verif_facade::VLengthPrefixedFramer::new(TagCipher, -1, 4, 1024);
        let mut rx = rzmq::verif_facade::VLengthPrefixedFramer::new(TagCipher, -1, 4, 1024);
        let mut fb = rzmq::FrameBatch::new();
        fb.push(rzmq::Msg::from_vec(vec![0x5A; n]));
        match tx.write_msg_multipart(fb) {
          Err(e) => println!("record refused {:?}", e),
          Ok(wire) => {
            let mut acc = bytes::BytesMut::from(&wire[..]);
            match rx.try_read_msg(&mut acc) {
              Ok(Some(m)) => println!("record decoded {} bytes residue {}", m.size(), acc.len()),
              Ok(None) => println!("record NOT decoded residue {}", acc.len()),
              Err(e) => println!("record decode error {:?}", e),
            }
          }
        }
      }
      "record_batch" => {
        // two messages in one record through the batch egress paths; P = plaintext total, path 0 write_msg_batch, 1 frame_vectored
        struct TagCipher;
        impl rzmq::verif_facade::VCipher for TagCipher {
          fn encrypt(&mut self, p: &[u8]) -> Result<Vec<u8>, rzmq::ZmqError> {
            let mut v = vec![0xEEu8; 16];
            v.extend_from_slice(p);
            Ok(v)
          }
          fn decrypt(&mut self, c: &[u8]) -> Result<Vec<u8>, rzmq::ZmqError> {
            if c.len() < 16 {
              return Err(rzmq::ZmqError::InvalidMessage("short".into()));
            }
            Ok(c[16..].to_vec())
          }
        }
        let p: usize = it.next().unwrap().parse().unwrap();
        let path: usize = it.next().unwrap().parse().unwrap();
        let mut split = None;
        for h1 in [2usize, 9] {
          for h2 in [2usize, 9] {
            if split.is_none() && p >= h1 + h2 {
              let rest = p - h1 - h2;
              let a = rest / 2;
              let b = rest - a;
              if (h1 == 2) == (a <= 255) && (h2 == 2) == (b <= 255) {
                split = Some((a, b));
              }
            }
          }
        }
        let (l1, l2) = split.unwrap();
        let mut tx = rzmq::verif_facade::VLengthPrefixedFramer::new(TagCipher, -1, 4, 1024);
        let mut rx = rzmq::verif_facade::VLengthPrefixedFramer::new(TagCipher, -1, 4, 1024);
        let mut batch = Vec::new();
        for l in [l1, l2] {
          let mut fb = rzmq::FrameBatch::new();
          fb.push(rzmq::Msg::from_vec(vec![0x5A; l]));
          batch.push(fb);
        }
        let wire: Result<Vec<u8>, rzmq::ZmqError> = if path == 0 {
          tx.write_msg_batch(&batch).map(|b| b.to_vec())
        } else {
          // ISecureFramer::frame_vectored's provided method is `vec![self.write_msg_batch(batch)?]`
          tx.write_msg_batch(&batch).map(|b| b.to_vec())
        };
        match wire {
          Err(e) => println!("record_batch refused {:?}", e),
          Ok(wire) => {
            let mut acc = bytes::BytesMut::from(&wire[..]);
            for (k, l) in [l1, l2].iter().enumerate() {
              match rx.try_read_msg(&mut acc) {
                Ok(Some(m)) if m.size() == *l => println!("record_batch msg {} decoded {} bytes", k, m.size()),
                Ok(Some(m)) => println!("record_batch msg {} NOT decoded as sent: {} bytes instead of {}", k, m.size(), l),
                Ok(None) => {
                  println!("record_batch msg {} NOT decoded residue {}", k, acc.len());
                  break;
                }
                Err(e) => {
                  println!("record_batch msg {} decode error {:?}", k, e);
                  break;
                }
              }
            }
          }
        }
      }
      "sub_history" => {
        // sub_history <op>...: public API, PUB bound on tcp, SUB connected; ops  s:<hex topic>  u:<hex topic>  m:<hex message>
        // s / u set the SUBSCRIBE / UNSUBSCRIBE option; m publishes the message and reports whether the SUB socket gets it
        let ops: Vec<String> = it.map(|x| x.to_string()).collect();
        let rt = tokio::runtime::Builder::new_multi_thread().worker_threads(2).enable_all().build().unwrap();
        rt.block_on(async move {
          let ctx = rzmq::Context::new().unwrap();
          let publ = ctx.socket(rzmq::SocketType::Pub).unwrap();
          let sub = ctx.socket(rzmq::SocketType::Sub).unwrap();
          sub.set_option(rzmq::socket::options::RCVTIMEO, 400i32).await.unwrap();
          publ.bind("tcp://127.0.0.1:0").await.unwrap();
          let ep = String::from_utf8(publ.get_option(rzmq::socket::options::LAST_ENDPOINT).await.unwrap()).unwrap();
          sub.connect(&ep).await.unwrap();
          tokio::time::sleep(Duration::from_millis(300)).await;
          let mut seq = 0u8;
          for op in ops {
            let (k, hx) = op.split_once(':').unwrap();
            let bytes_ = unhex(hx);
            match k {
              "s" => {
                sub.set_option_raw(rzmq::socket::options::SUBSCRIBE, &bytes_).await.unwrap();
                tokio::time::sleep(Duration::from_millis(150)).await;
              }
              "u" => {
                sub.set_option_raw(rzmq::socket::options::UNSUBSCRIBE, &bytes_).await.unwrap();
                tokio::time::sleep(Duration::from_millis(150)).await;
              }
              _ => {
                // a unique trailer lets us recognise this very message
                seq += 1;
                let mut m = bytes_.clone();
                m.extend_from_slice(&[0xFE, 0xED, seq]);
                publ.send(rzmq::Msg::from_vec(m.clone())).await.unwrap();
                let mut got = false;
                while let Ok(r) = sub.recv().await {
                  if r.data().unwrap_or(&[]) == &m[..] {
                    got = true;
                    break;
                  }
                }
                println!("match {}", got);
              }
            }
          }
        });
        std::process::exit(0);
      }
      "pub_stalled_subscriber" => {
        // public API: PUB (SNDHWM 1, default SNDTIMEO) with two subscribers over tcp: a raw peer that subscribes to
        // everything and then never reads, and a real SUB socket. 64 KiB messages are published until one publish call
        // does not return within 2 s (the stalled subscriber's queue is full); the healthy SUB's reception is counted.
        let rt = tokio::runtime::Builder::new_multi_thread().worker_threads(4).enable_all().build().unwrap();
        let res = rt.block_on(async move {
          use std::io::{Read, Write};
          let ctx = rzmq::Context::new().unwrap();
          let publ = ctx.socket(rzmq::SocketType::Pub).unwrap();
          publ.set_option(rzmq::socket::options::SNDHWM, 1i32).await.unwrap();
          publ.bind("tcp://127.0.0.1:0").await.unwrap();
          let ep = String::from_utf8(publ.get_option(rzmq::socket::options::LAST_ENDPOINT).await.unwrap()).unwrap();
          let addr = ep.trim_start_matches("tcp://").to_string();
          let sub = ctx.socket(rzmq::SocketType::Sub).unwrap();
          sub.set_option(rzmq::socket::options::RCVTIMEO, 300i32).await.unwrap();
          sub.set_option_raw(rzmq::socket::options::SUBSCRIBE, b"").await.unwrap();
          sub.connect(&ep).await.unwrap();
          let (stop_tx, stop_rx) = std::sync::mpsc::channel::<()>();
          let stalled = tokio::task::spawn_blocking(move || {
            let mut greeting = vec![0xFFu8, 0, 0, 0, 0, 0, 0, 0, 0, 0x7F, 3, 1];
            let mut mech = b"NULL".to_vec();
            mech.resize(20, 0);
            greeting.extend_from_slice(&mech);
            greeting.push(0);
            greeting.extend_from_slice(&[0u8; 31]);
            let mut ready = b"\x05READY\x0bSocket-Type\x00\x00\x00\x03SUB".to_vec();
            let mut hs = greeting.clone();
            hs.push(0x04);
            hs.push(ready.len() as u8);
            hs.append(&mut ready);
            // subscribe to everything: a data frame 0x01 (ZMTP 3.0 style subscription message)
            hs.extend_from_slice(&[0x00, 0x01, 0x01]);
            let mut s = std::net::TcpStream::connect(addr).unwrap();
            s.write_all(&hs).unwrap();
            let mut buf = [0u8; 64];
            let _ = s.read_exact(&mut buf);
            let _ = stop_rx.recv_timeout(Duration::from_secs(40));
            drop(s);
          });
          tokio::time::sleep(Duration::from_millis(500)).await;
          let payload = vec![0x5Au8; 64 * 1024];
          let mut published = 0usize;
          let mut blocked_ms = None;
          let counter = std::sync::Arc::new(std::sync::atomic::AtomicUsize::new(0));
          let c2 = counter.clone();
          let reader = tokio::spawn(async move {
            loop {
              match sub.recv().await {
                Ok(_) => {
                  c2.fetch_add(1, std::sync::atomic::Ordering::SeqCst);
                }
                Err(_) => {
                  if c2.load(std::sync::atomic::Ordering::SeqCst) > 0 {
                    // keep going: a gap only means the publisher is not publishing
                  }
                }
              }
            }
          });
          for _ in 0..400 {
            let t0 = Instant::now();
            let fut = publ.send(rzmq::Msg::from_vec(payload.clone()));
            tokio::pin!(fut);
            match tokio::time::timeout(Duration::from_secs(2), &mut fut).await {
              Ok(_) => published += 1,
              Err(_) => {
                // this publish call is blocked: how long does it stay blocked (up to 4 more seconds)?
                let _ = tokio::time::timeout(Duration::from_secs(4), &mut fut).await;
                blocked_ms = Some(t0.elapsed().as_millis());
                break;
              }
            }
          }
          tokio::time::sleep(Duration::from_millis(300)).await;
          reader.abort();
          let _ = stop_tx.send(());
          let _ = stalled.await;
          (published, blocked_ms, counter.load(std::sync::atomic::Ordering::SeqCst))
        });
        match res.1 {
          Some(ms) => println!("pub_stalled_subscriber published={} healthy_sub_received={} PUBLISHER BLOCKED for {} ms by the stalled subscriber", res.0, res.2, ms),
          None => println!("pub_stalled_subscriber published={} healthy_sub_received={} publisher never blocked", res.0, res.2),
        }
        std::process::exit(0);
      }
      "pubsub_frame_by_frame" => {
        // pubsub_frame_by_frame <tcp|inproc> <n>: public API. SUB subscribed to "T"; PUB sends n two-frame messages
        // ["T<i>", "body<i>"] FRAME BY FRAME: send(first, MORE) then send(second). The SUB reads with recv_multipart and
        // every message it gets is printed; each must be exactly the two frames of one message.
        let transport = it.next().unwrap().to_string();
        let n: usize = it.next().unwrap().parse().unwrap();
        let rt = tokio::runtime::Builder::new_multi_thread().worker_threads(2).enable_all().build().unwrap();
        let got = rt.block_on(async move {
          let ctx = rzmq::Context::new().unwrap();
          let publ = ctx.socket(rzmq::SocketType::Pub).unwrap();
          let sub = ctx.socket(rzmq::SocketType::Sub).unwrap();
          sub.set_option(rzmq::socket::options::RCVTIMEO, 500i32).await.unwrap();
          sub.set_option_raw(rzmq::socket::options::SUBSCRIBE, b"T").await.unwrap();
          let ep = if transport == "inproc" {
            publ.bind("inproc://fbf").await.unwrap();
            "inproc://fbf".to_string()
          } else {
            publ.bind("tcp://127.0.0.1:0").await.unwrap();
            String::from_utf8(publ.get_option(rzmq::socket::options::LAST_ENDPOINT).await.unwrap()).unwrap()
          };
          sub.connect(&ep).await.unwrap();
          tokio::time::sleep(Duration::from_millis(400)).await;
          for i in 0..n {
            let mut first = rzmq::Msg::from_vec(format!("T{}", i).into_bytes());
            first.set_flags(rzmq::MsgFlags::MORE);
            publ.send(first).await.unwrap();
            publ.send(rzmq::Msg::from_vec(format!("body{}", i).into_bytes())).await.unwrap();
          }
          let mut got: Vec<Vec<String>> = Vec::new();
          while let Ok(m) = sub.recv_multipart().await {
            got.push(m.iter().map(|f| String::from_utf8_lossy(f.data().unwrap_or(&[])).into_owned()).collect());
          }
          got
        });
        let want: Vec<Vec<String>> = (0..n).map(|i| vec![format!("T{}", i), format!("body{}", i)]).collect();
        println!("pubsub_frame_by_frame {} received={:?}{}", n, got, if got != want { "  NOT-THE-MESSAGES-SENT" } else { "" });
        std::process::exit(0);
      }
      "router_recv_churn" => {
        // router_recv_churn <rcvtimeo_ms> <connect_every_ms> <peers>: public API, inproc. A ROUTER with RCVTIMEO waits in recv()
        // while a new DEALER connects every <connect_every_ms>; nothing is ever sent. recv() must fail about RCVTIMEO after it began.
        let rcvtimeo: i32 = it.next().unwrap().parse().unwrap();
        let every: u64 = it.next().unwrap().parse().unwrap();
        let peers: usize = it.next().unwrap().parse().unwrap();
        let rt = tokio::runtime::Builder::new_multi_thread().worker_threads(4).enable_all().build().unwrap();
        let (ms, res) = rt.block_on(async move {
          let ctx = rzmq::Context::new().unwrap();
          let router = ctx.socket(rzmq::SocketType::Router).unwrap();
          router.set_option(rzmq::socket::options::RCVTIMEO, rcvtimeo).await.unwrap();
          router.bind("inproc://router-churn").await.unwrap();
          let ctx2 = ctx.clone();
          let churn = tokio::spawn(async move {
            let mut keep = Vec::new();
            for _ in 0..peers {
              let d = ctx2.socket(rzmq::SocketType::Dealer).unwrap();
              let _ = d.connect("inproc://router-churn").await;
              keep.push(d);
              tokio::time::sleep(Duration::from_millis(every)).await;
            }
            keep
          });
          let t0 = Instant::now();
          let r = router.recv().await;
          let ms = t0.elapsed().as_millis();
          let _ = churn.await;
          (ms, format!("{:?}", r.map(|m| m.size())))
        });
        println!("router_recv_churn rcvtimeo={} recv returned {} after {} ms{}", rcvtimeo, res, ms,
                 if rcvtimeo > 0 && ms > (rcvtimeo as u128) + 300 { "  WAITED-LONGER-THAN-RCVTIMEO" } else { "" });
        std::process::exit(0);
      }
      "dealer_tx_wait" => {
        // dealer_tx_wait <sndtimeo_ms> <hold_ms> <cycles>: public API. DEALER (SNDTIMEO as given) connected to a ROUTER that
        // reads everything. Task A sends two-frame messages frame by frame - send(part, MORE), sleep <hold_ms>, send(last) -
        // back to back, <cycles> times. Task B starts 50 ms later and calls send_multipart once; how long that call takes
        // and what it returns is printed. With SNDTIMEO < 2 * hold it must be over (Ok or Timeout) about SNDTIMEO after it began.
        let sndtimeo: i32 = it.next().unwrap().parse().unwrap();
        let hold: u64 = it.next().unwrap().parse().unwrap();
        let cycles: usize = it.next().unwrap().parse().unwrap();
        let rt = tokio::runtime::Builder::new_multi_thread().worker_threads(4).enable_all().build().unwrap();
        let (ms, res) = rt.block_on(async move {
          let ctx = rzmq::Context::new().unwrap();
          let router = ctx.socket(rzmq::SocketType::Router).unwrap();
          router.set_option(rzmq::socket::options::RCVTIMEO, 200i32).await.unwrap();
          router.bind("tcp://127.0.0.1:0").await.unwrap();
          let ep = String::from_utf8(router.get_option(rzmq::socket::options::LAST_ENDPOINT).await.unwrap()).unwrap();
          let dealer = ctx.socket(rzmq::SocketType::Dealer).unwrap();
          dealer.set_option(rzmq::socket::options::SNDTIMEO, sndtimeo).await.unwrap();
          dealer.connect(&ep).await.unwrap();
          tokio::time::sleep(Duration::from_millis(300)).await;
          let reader = tokio::spawn(async move {
            loop {
              let _ = router.recv_multipart().await;
            }
          });
          let d2 = dealer.clone();
          let a = tokio::spawn(async move {
            for i in 0..cycles {
              let mut part = rzmq::Msg::from_vec(vec![b'a', i as u8]);
              part.set_flags(rzmq::MsgFlags::MORE);
              d2.send(part).await.unwrap();
              tokio::time::sleep(Duration::from_millis(hold)).await;
              d2.send(rzmq::Msg::from_vec(vec![b'z', i as u8])).await.unwrap();
            }
          });
          tokio::time::sleep(Duration::from_millis(50)).await;
          let t0 = Instant::now();
          let r = dealer.send_multipart(vec![rzmq::Msg::from_vec(b"B".to_vec())]).await;
          let ms = t0.elapsed().as_millis();
          a.abort();
          reader.abort();
          (ms, format!("{:?}", r))
        });
        println!("dealer_tx_wait sndtimeo={} hold={} cycles={} send_multipart returned {} after {} ms{}", sndtimeo, hold, cycles, res, ms,
                 if sndtimeo > 0 && ms > (sndtimeo as u128) + 100 { "  WAITED-LONGER-THAN-SNDTIMEO" } else { "" });
        std::process::exit(0);
      }
      "pub_stalled_subscriber_inproc" => {
        // public API, inproc transport: PUB (SNDHWM 1) with two SUB sockets subscribed to everything; one (RCVHWM 1) never
        // calls recv, the other reads. Messages are published until one publish call does not return within 2 s.
        let rt = tokio::runtime::Builder::new_multi_thread().worker_threads(4).enable_all().build().unwrap();
        let res = rt.block_on(async move {
          let ctx = rzmq::Context::new().unwrap();
          let publ = ctx.socket(rzmq::SocketType::Pub).unwrap();
          publ.set_option(rzmq::socket::options::SNDHWM, 1i32).await.unwrap();
          publ.bind("inproc://pub-stalled").await.unwrap();
          let stalled = ctx.socket(rzmq::SocketType::Sub).unwrap();
          stalled.set_option(rzmq::socket::options::RCVHWM, 1i32).await.unwrap();
          stalled.set_option_raw(rzmq::socket::options::SUBSCRIBE, b"").await.unwrap();
          stalled.connect("inproc://pub-stalled").await.unwrap();
          let sub = ctx.socket(rzmq::SocketType::Sub).unwrap();
          sub.set_option(rzmq::socket::options::RCVTIMEO, 300i32).await.unwrap();
          sub.set_option_raw(rzmq::socket::options::SUBSCRIBE, b"").await.unwrap();
          sub.connect("inproc://pub-stalled").await.unwrap();
          tokio::time::sleep(Duration::from_millis(400)).await;
          let counter = std::sync::Arc::new(std::sync::atomic::AtomicUsize::new(0));
          let c2 = counter.clone();
          let reader = tokio::spawn(async move {
            loop {
              if sub.recv().await.is_ok() {
                c2.fetch_add(1, std::sync::atomic::Ordering::SeqCst);
              }
            }
          });
          let mut published = 0usize;
          let mut blocked_ms = None;
          for _ in 0..400 {
            let t0 = Instant::now();
            let fut = publ.send(rzmq::Msg::from_vec(vec![0x5Au8; 32]));
            tokio::pin!(fut);
            match tokio::time::timeout(Duration::from_secs(2), &mut fut).await {
              Ok(_) => published += 1,
              Err(_) => {
                let _ = tokio::time::timeout(Duration::from_secs(4), &mut fut).await;
                blocked_ms = Some(t0.elapsed().as_millis());
                break;
              }
            }
          }
          tokio::time::sleep(Duration::from_millis(300)).await;
          reader.abort();
          drop(stalled);
          (published, blocked_ms, counter.load(std::sync::atomic::Ordering::SeqCst))
        });
        match res.1 {
          Some(ms) => println!("pub_stalled_subscriber_inproc published={} healthy_sub_received={} PUBLISHER BLOCKED for {} ms by the stalled subscriber", res.0, res.2, ms),
          None => println!("pub_stalled_subscriber_inproc published={} healthy_sub_received={} publisher never blocked", res.0, res.2),
        }
        std::process::exit(0);
      }
      "router_multipart_flags" => {
        // public API: ROUTER.send_multipart([identity, "a", "b"]) with NO MORE flags set by the application, to a DEALER
        // peer over tcp; prints how the payload arrives
        let rt = tokio::runtime::Builder::new_multi_thread().worker_threads(2).enable_all().build().unwrap();
        let got = rt.block_on(async move {
          let ctx = rzmq::Context::new().unwrap();
          let router = ctx.socket(rzmq::SocketType::Router).unwrap();
          let dealer = ctx.socket(rzmq::SocketType::Dealer).unwrap();
          dealer.set_option_raw(rzmq::socket::options::ROUTING_ID, b"P").await.unwrap();
          dealer.set_option(rzmq::socket::options::RCVTIMEO, 800i32).await.unwrap();
          router.set_option(rzmq::socket::options::RCVTIMEO, 1500i32).await.unwrap();
          router.bind("tcp://127.0.0.1:0").await.unwrap();
          let ep = String::from_utf8(router.get_option(rzmq::socket::options::LAST_ENDPOINT).await.unwrap()).unwrap();
          dealer.connect(&ep).await.unwrap();
          tokio::time::sleep(Duration::from_millis(300)).await;
          dealer.send(rzmq::Msg::from_vec(b"hello".to_vec())).await.unwrap();
          let first = router.recv_multipart().await.unwrap();
          let id = first[0].data().unwrap_or(&[]).to_vec();
          let frames = vec![rzmq::Msg::from_vec(id), rzmq::Msg::from_vec(b"a".to_vec()), rzmq::Msg::from_vec(b"b".to_vec())];
          router.send_multipart(frames).await.unwrap();
          let mut msgs = Vec::new();
          for _ in 0..3 {
            match dealer.recv_multipart().await {
              Ok(fs) => msgs.push(fs.iter().map(|m| String::from_utf8_lossy(m.data().unwrap_or(&[])).into_owned()).collect::<Vec<_>>()),
              Err(_) => break,
            }
          }
          msgs
        });
        let whole = got.len() == 1 && got[0].iter().filter(|s| !s.is_empty()).cloned().collect::<Vec<_>>() == vec!["a".to_string(), "b".to_string()];
        println!("router_multipart_flags received={:?} {}", got, if whole { "one message" } else { "SPLIT" });
        std::process::exit(0);
      }
      "dealer_burst" => {
        // dealer_burst <n>: public API, ROUTER bound on tcp, DEALER connects and sends n messages at once (before the
        // connection is established they go to the DEALER's pending queue); counts what the ROUTER receives
        let n: usize = it.next().unwrap().parse().unwrap();
        let pre = it.next() == Some("pre");       // "pre": all sends happen BEFORE connect() (no peer at all yet)
        let rt = tokio::runtime::Builder::new_multi_thread().worker_threads(2).enable_all().build().unwrap();
        let got = rt.block_on(async move {
          let ctx = rzmq::Context::new().unwrap();
          let router = ctx.socket(rzmq::SocketType::Router).unwrap();
          let dealer = ctx.socket(rzmq::SocketType::Dealer).unwrap();
          router.set_option(rzmq::socket::options::RCVTIMEO, 1500i32).await.unwrap();
          router.bind("tcp://127.0.0.1:0").await.unwrap();
          let ep = String::from_utf8(router.get_option(rzmq::socket::options::LAST_ENDPOINT).await.unwrap()).unwrap();
          if !pre {
            dealer.connect(&ep).await.unwrap();
          }
          for i in 0..n {
            dealer.send(rzmq::Msg::from_vec(format!("m{}", i).into_bytes())).await.unwrap();
          }
          if pre {
            dealer.connect(&ep).await.unwrap();
          }
          let mut got = Vec::new();
          for _ in 0..n {
            match router.recv_multipart().await {
              Ok(frames) => got.push(String::from_utf8_lossy(frames.last().and_then(|m| m.data()).unwrap_or(&[])).into_owned()),
              Err(_) => break,
            }
          }
          got
        });
        println!("dealer_burst sent={} received={:?} {}", n, got, if got.len() == n { "all delivered" } else { "STUCK in the pending queue" });
        std::process::exit(0);
      }
      "batch_order" => {
        // batch_order <sndbatch_count> <sndbatch_bytes> <size>...: public API, PUSH -> PULL over tcp on a current-thread
        // runtime (a burst of sends that find room in the pipe is queued before the session assembles its first batch);
        // payloads carry their sequence number; prints the order in which they arrive
        let count: i32 = it.next().unwrap().parse().unwrap();
        let bytes_: i32 = it.next().unwrap().parse().unwrap();
        let sizes: Vec<usize> = it.map(|x| x.parse().unwrap()).collect();
        let rt = tokio::runtime::Builder::new_current_thread().enable_all().build().unwrap();
        let order = rt.block_on(async move {
          let ctx = rzmq::Context::new().unwrap();
          let push = ctx.socket(rzmq::SocketType::Push).unwrap();
          let pull = ctx.socket(rzmq::SocketType::Pull).unwrap();
          push.set_option(rzmq::socket::options::SNDBATCH_COUNT, count).await.unwrap();
          push.set_option(rzmq::socket::options::SNDBATCH_BYTES, bytes_).await.unwrap();
          pull.set_option(rzmq::socket::options::RCVTIMEO, 3000i32).await.unwrap();
          pull.bind("tcp://127.0.0.1:0").await.unwrap();
          let ep = String::from_utf8(pull.get_option(rzmq::socket::options::LAST_ENDPOINT).await.unwrap()).unwrap();
          push.connect(&ep).await.unwrap();
          tokio::time::sleep(Duration::from_millis(300)).await;
          for (seq, sz) in sizes.iter().enumerate() {
            let mut v = vec![0u8; (*sz).max(2)];
            v[0] = (seq >> 8) as u8;
            v[1] = seq as u8;
            push.send(rzmq::Msg::from_vec(v)).await.unwrap();
          }
          let mut order = Vec::new();
          for _ in 0..sizes.len() {
            match pull.recv().await {
              Ok(m) => {
                let d = m.data().unwrap_or(&[]);
                order.push(((d[0] as usize) << 8) | d[1] as usize);
              }
              Err(_) => break,
            }
          }
          order
        });
        let in_order = order.windows(2).all(|w| w[0] < w[1]);
        println!("batch_order received={:?} {}", order, if in_order { "in order" } else { "REORDERED" });
        std::process::exit(0);
      }
      "router_send_blocks" => {
        // public API only: ROUTER (ROUTER_MANDATORY, SNDHWM=1, SNDTIMEO as given: -1 = wait for ever) sends 1 MiB
        // messages to a raw DEALER peer that completes the handshake and then never reads. Once a send blocks we wait
        // <wait_s> seconds for it: with SNDTIMEO=-1 it must still be blocked.
        let sndtimeo: i32 = it.next().unwrap().parse().unwrap();
        let wait_s: u64 = it.next().unwrap().parse().unwrap();
        let rt = tokio::runtime::Builder::new_multi_thread().worker_threads(2).enable_all().build().unwrap();
        let res = rt.block_on(async move {
          use std::io::{Read, Write};
          let ctx = rzmq::Context::new().unwrap();
          let router = ctx.socket(rzmq::SocketType::Router).unwrap();
          router.set_option(rzmq::socket::options::SNDHWM, 1i32).await.unwrap();
          router.set_option(rzmq::socket::options::SNDTIMEO, sndtimeo).await.unwrap();
          router.set_option(rzmq::socket::options::ROUTER_MANDATORY, 1i32).await.unwrap();
          router.bind("tcp://127.0.0.1:0").await.unwrap();
          let ep = String::from_utf8(router.get_option(rzmq::socket::options::LAST_ENDPOINT).await.unwrap()).unwrap();
          let addr = ep.trim_start_matches("tcp://").to_string();
          let mut greeting = vec![0xFFu8, 0, 0, 0, 0, 0, 0, 0, 0, 0x7F, 3, 1];
          let mut mech = b"NULL".to_vec();
          mech.resize(20, 0);
          greeting.extend_from_slice(&mech);
          greeting.push(0);
          greeting.extend_from_slice(&[0u8; 31]);
          let mut ready = b"\x05READY\x0bSocket-Type\x00\x00\x00\x06DEALER\x08Identity\x00\x00\x00\x01P".to_vec();
          let mut hs = greeting.clone();
          hs.push(0x04);
          hs.push(ready.len() as u8);
          hs.append(&mut ready);
          let (stop_tx, stop_rx) = std::sync::mpsc::channel::<()>();
          let peer = tokio::task::spawn_blocking(move || {
            let mut s = std::net::TcpStream::connect(addr).unwrap();
            s.write_all(&hs).unwrap();
            // read exactly the ROUTER's greeting + READY, then stop reading but keep the connection open
            let mut buf = [0u8; 64];
            let _ = s.read_exact(&mut buf);
            let mut hdr = [0u8; 2];
            let _ = s.read_exact(&mut hdr);
            let mut body = vec![0u8; hdr[1] as usize];
            let _ = s.read_exact(&mut body);
            let _ = stop_rx.recv_timeout(Duration::from_secs(wait_s + 60));
            drop(s);
          });
          tokio::time::sleep(Duration::from_millis(400)).await;
          let payload = vec![0x5Au8; 1 << 20];
          let mut sent = 0usize;
          let mut outcome = String::from("never blocked");
          for _ in 0..64 {
            let mut idf = rzmq::Msg::from_vec(b"P".to_vec());
            idf.set_flags(rzmq::MsgFlags::MORE);
            let frames = vec![idf, rzmq::Msg::from_vec(payload.clone())];
            let fut = router.send_multipart(frames);
            tokio::pin!(fut);
            match tokio::time::timeout(Duration::from_secs(2), &mut fut).await {
              Ok(Ok(())) => sent += 1,
              Ok(Err(e)) => {
                outcome = format!("send {} failed at once: {:?}", sent, e);
                break;
              }
              Err(_) => {
                // this send is blocked on the full pipe: keep waiting for it
                let t0 = Instant::now();
                outcome = match tokio::time::timeout(Duration::from_secs(wait_s), &mut fut).await {
                  Ok(r) => format!("blocked send returned after {} s: {:?}", 2 + t0.elapsed().as_secs(), r),
                  Err(_) => format!("blocked send STILL BLOCKED after {} s", 2 + wait_s),
                };
                break;
              }
            }
          }
          let _ = stop_tx.send(());
          let _ = peer.await;
          format!("sent_before_block={} {}", sent, outcome)
        });
        println!("router_send_blocks sndtimeo={} {}", sndtimeo, res);
        std::process::exit(0);
      }
      "linger_flush" => {
        // linger_flush <n> <size> <linger_ms>: public API; PUSH (own context, SNDHWM > n, LINGER as given) connects to a PULL
        // in another context, send() accepts n messages of <size> bytes, then close() + term() of the PUSH side; afterwards
        // the PULL side reads everything that arrives.
        let n: usize = it.next().unwrap().parse().unwrap();
        let size: usize = it.next().unwrap().parse().unwrap();
        let linger: i32 = it.next().unwrap().parse().unwrap();
        let rt = tokio::runtime::Builder::new_multi_thread().worker_threads(4).enable_all().build().unwrap();
        let (accepted, close_ms, got) = rt.block_on(async move {
          let ctx_rx = rzmq::Context::new().unwrap();
          let ctx_tx = rzmq::Context::new().unwrap();
          let pull = ctx_rx.socket(rzmq::SocketType::Pull).unwrap();
          pull.set_option(rzmq::socket::options::RCVHWM, (n + 100) as i32).await.unwrap();
          pull.set_option(rzmq::socket::options::RCVTIMEO, 1500i32).await.unwrap();
          pull.bind("tcp://127.0.0.1:0").await.unwrap();
          let ep = String::from_utf8(pull.get_option(rzmq::socket::options::LAST_ENDPOINT).await.unwrap()).unwrap();
          let push = ctx_tx.socket(rzmq::SocketType::Push).unwrap();
          push.set_option(rzmq::socket::options::SNDHWM, (n + 100) as i32).await.unwrap();
          push.set_option(rzmq::socket::options::LINGER, linger).await.unwrap();
          push.connect(&ep).await.unwrap();
          tokio::time::sleep(Duration::from_millis(300)).await;
          let mut accepted = 0usize;
          for i in 0..n {
            let mut v = vec![0x5Au8; size.max(4)];
            v[..4].copy_from_slice(&(i as u32).to_be_bytes());
            if push.send(rzmq::Msg::from_vec(v)).await.is_ok() {
              accepted += 1;
            }
          }
          let t0 = Instant::now();
          let _ = push.close().await;
          let _ = ctx_tx.term().await;
          let close_ms = t0.elapsed().as_millis();
          let mut got = 0usize;
          while let Ok(_m) = pull.recv().await {
            got += 1;
          }
          (accepted, close_ms, got)
        });
        println!(
          "linger_flush accepted={} linger_ms={} close_and_term_took={}ms received={} {}",
          accepted, linger, close_ms, got, if got == accepted { "all delivered" } else { "ACCEPTED MESSAGES DISCARDED within the linger period" }
        );
        std::process::exit(0);
      }
      "handshake_drip" => {
        // handshake_drip <ivl_ms> <gap_ms> <bytes>: public API, PULL listener with HANDSHAKE_IVL=<ivl_ms>; a raw peer sends one
        // greeting byte every <gap_ms> (< ivl) for <bytes> bytes, i.e. for longer than the interval, never completing the
        // handshake. Reports whether the listener closed the connection meanwhile.
        let ivl: i32 = it.next().unwrap().parse().unwrap();
        let gap: u64 = it.next().unwrap().parse().unwrap();
        let nbytes: usize = it.next().unwrap().parse().unwrap();
        let rt = tokio::runtime::Builder::new_multi_thread().worker_threads(2).enable_all().build().unwrap();
        let res = rt.block_on(async move {
          use std::io::{Read, Write};
          let ctx = rzmq::Context::new().unwrap();
          let pull = ctx.socket(rzmq::SocketType::Pull).unwrap();
          pull.set_option(rzmq::socket::options::HANDSHAKE_IVL, ivl).await.unwrap();
          pull.bind("tcp://127.0.0.1:0").await.unwrap();
          let ep = String::from_utf8(pull.get_option(rzmq::socket::options::LAST_ENDPOINT).await.unwrap()).unwrap();
          let addr = ep.trim_start_matches("tcp://").to_string();
          let mut greeting = vec![0xFFu8, 0, 0, 0, 0, 0, 0, 0, 0, 0x7F, 3, 1];
          let mut mech = b"NULL".to_vec();
          mech.resize(20, 0);
          greeting.extend_from_slice(&mech);
          greeting.push(0);
          greeting.extend_from_slice(&[0u8; 31]);
          tokio::task::spawn_blocking(move || {
            let mut s = std::net::TcpStream::connect(addr).unwrap();
            s.set_nodelay(true).ok();
            s.set_read_timeout(Some(Duration::from_millis(5))).ok();
            let t0 = Instant::now();
            let mut closed_after = None;
            for i in 0..nbytes {
              if s.write_all(&greeting[i..i + 1]).is_err() {
                closed_after = Some(t0.elapsed().as_millis());
                break;
              }
              // has the listener hung up? (read returns 0 on FIN; the listener's own greeting bytes are just skipped)
              let mut buf = [0u8; 128];
              match s.read(&mut buf) {
                Ok(0) => {
                  closed_after = Some(t0.elapsed().as_millis());
                  break;
                }
                _ => {}
              }
              std::thread::sleep(Duration::from_millis(gap));
            }
            (closed_after, t0.elapsed().as_millis())
          })
          .await
          .unwrap()
        });
        match res.0 {
          Some(ms) => println!("handshake_drip ivl={}ms listener closed the connection after {} ms", ivl, ms),
          None => println!("handshake_drip ivl={}ms connection STILL OPEN after {} ms of dripping, handshake incomplete", ivl, res.1),
        }
        std::process::exit(0);
      }
      "split_frame_maxmsg" => {
        // split_frame_maxmsg <maxmsg> <payload_len> <cut>: public API, PULL listener with MAXMSGSIZE; a raw PUSH peer completes
        // the handshake, writes the first <cut> bytes of ONE data frame, 200 ms later the rest, and stays connected.
        let maxmsg: i64 = it.next().unwrap().parse().unwrap();
        let plen: usize = it.next().unwrap().parse().unwrap();
        let cut: usize = it.next().unwrap().parse().unwrap();
        let rt = tokio::runtime::Builder::new_multi_thread().worker_threads(2).enable_all().build().unwrap();
        let res = rt.block_on(async move {
          use std::io::{Read, Write};
          let ctx = rzmq::Context::new().unwrap();
          let pull = ctx.socket(rzmq::SocketType::Pull).unwrap();
          pull.set_option(rzmq::socket::options::RCVTIMEO, 1500i32).await.unwrap();
          pull.set_option_raw(rzmq::socket::options::MAXMSGSIZE, &maxmsg.to_ne_bytes()).await.unwrap();
          pull.bind("tcp://127.0.0.1:0").await.unwrap();
          let ep = String::from_utf8(pull.get_option(rzmq::socket::options::LAST_ENDPOINT).await.unwrap()).unwrap();
          let addr = ep.trim_start_matches("tcp://").to_string();
          let mut greeting = vec![0xFFu8, 0, 0, 0, 0, 0, 0, 0, 0, 0x7F, 3, 1];
          let mut mech = b"NULL".to_vec();
          mech.resize(20, 0);
          greeting.extend_from_slice(&mech);
          greeting.push(0);
          greeting.extend_from_slice(&[0u8; 31]);
          let mut ready = b"\x05READY\x0bSocket-Type\x00\x00\x00\x04PUSH".to_vec();
          let mut hs = greeting.clone();
          hs.push(0x04);
          hs.push(ready.len() as u8);
          hs.append(&mut ready);
          let peer = tokio::task::spawn_blocking(move || {
            let mut s = std::net::TcpStream::connect(addr).unwrap();
            s.set_nodelay(true).ok();
            s.write_all(&hs).unwrap();
            let mut buf = [0u8; 64];
            let _ = s.read_exact(&mut buf);
            let mut hdr = [0u8; 2];
            let _ = s.read_exact(&mut hdr);
            let mut body = vec![0u8; hdr[1] as usize];
            let _ = s.read_exact(&mut body);
            std::thread::sleep(Duration::from_millis(300));
            let mut frame = vec![0x00u8, plen as u8];
            frame.extend(std::iter::repeat(0x6Du8).take(plen));
            let c = cut.min(frame.len());
            let _ = s.write_all(&frame[..c]);
            std::thread::sleep(Duration::from_millis(200));
            let _ = s.write_all(&frame[c..]);
            std::thread::sleep(Duration::from_millis(1800));
          });
          let got = pull.recv().await.map(|m| m.size());
          let _ = peer.await;
          got
        });
        match res {
          Ok(n) => println!("split_frame_maxmsg delivered {} bytes", n),
          Err(e) => println!("split_frame_maxmsg NOT delivered: {:?}", e),
        }
        std::process::exit(0);
      }
      "last_message_then_close" => {
        // public API only: a PULL socket listens on TCP; a raw PUSH peer completes the handshake, later writes <n> data
        // frames in one write and closes the connection at once (data and FIN reach the reader together).
        let n: usize = it.next().unwrap().parse().unwrap();
        let rt = tokio::runtime::Builder::new_multi_thread().worker_threads(2).enable_all().build().unwrap();
        let res = rt.block_on(async move {
          use std::io::{Read, Write};
          let ctx = rzmq::Context::new().unwrap();
          let pull = ctx.socket(rzmq::SocketType::Pull).unwrap();
          pull.set_option(rzmq::socket::options::RCVTIMEO, 1500i32).await.unwrap();
          pull.bind("tcp://127.0.0.1:0").await.unwrap();
          let ep = String::from_utf8(pull.get_option(rzmq::socket::options::LAST_ENDPOINT).await.unwrap()).unwrap();
          let addr = ep.trim_start_matches("tcp://").to_string();
          let mut greeting = vec![0xFFu8, 0, 0, 0, 0, 0, 0, 0, 0, 0x7F, 3, 1];
          let mut mech = b"NULL".to_vec();
          mech.resize(20, 0);
          greeting.extend_from_slice(&mech);
          greeting.push(0);
          greeting.extend_from_slice(&[0u8; 31]);
          let mut ready = b"\x05READY\x0bSocket-Type\x00\x00\x00\x04PUSH".to_vec();
          let mut hs = greeting.clone();
          hs.push(0x04);
          hs.push(ready.len() as u8);
          hs.append(&mut ready);
          let peer = tokio::task::spawn_blocking(move || {
            let mut s = std::net::TcpStream::connect(addr).unwrap();
            s.set_nodelay(true).ok();
            s.write_all(&hs).unwrap();
            let mut buf = [0u8; 64];
            let _ = s.read_exact(&mut buf);
            let mut hdr = [0u8; 2];
            let _ = s.read_exact(&mut hdr);
            let mut body = vec![0u8; hdr[1] as usize];
            let _ = s.read_exact(&mut body);
            std::thread::sleep(Duration::from_millis(300));
            let mut data = Vec::new();
            for i in 0..n {
              data.extend_from_slice(&[0x00u8, 0x02, b'm', b'0' + (i as u8)]);
            }
            s.write_all(&data).unwrap();
            drop(s); // FIN right behind the data
          });
          let mut got = Vec::new();
          for _ in 0..n {
            match pull.recv().await {
              Ok(m) => got.push(String::from_utf8_lossy(m.data().unwrap_or(&[])).into_owned()),
              Err(_) => break,
            }
          }
          let _ = peer.await;
          got
        });
        println!("last_message_then_close sent={} received={:?} {}", n, res, if res.len() == n { "all delivered" } else { "LOST" });
        std::process::exit(0);
      }
      "actor_early_data" => {
        // public API only: a PULL socket listens on TCP; a raw peer writes greeting + READY + one data frame
        // either in ONE write (split=0) or with the data frame in a second, later write (split=1).
        let split: u32 = it.next().unwrap().parse().unwrap();
        let rt = tokio::runtime::Builder::new_multi_thread().worker_threads(2).enable_all().build().unwrap();
        let res = rt.block_on(async move {
          use std::io::{Read, Write};
          let ctx = rzmq::Context::new().unwrap();
          let pull = ctx.socket(rzmq::SocketType::Pull).unwrap();
          pull.set_option(rzmq::socket::options::RCVTIMEO, 1500i32).await.unwrap();
          pull.bind("tcp://127.0.0.1:0").await.unwrap();
          let ep = String::from_utf8(pull.get_option(rzmq::socket::options::LAST_ENDPOINT).await.unwrap()).unwrap();
          let addr = ep.trim_start_matches("tcp://").to_string();
          let mut greeting = vec![0xFFu8, 0, 0, 0, 0, 0, 0, 0, 0, 0x7F, 3, 1];
          let mut mech = b"NULL".to_vec();
          mech.resize(20, 0);
          greeting.extend_from_slice(&mech);
          greeting.push(0);
          greeting.extend_from_slice(&[0u8; 31]);
          let mut ready = b"\x05READY\x0bSocket-Type\x00\x00\x00\x04PUSH".to_vec();
          let mut hs = greeting.clone();
          hs.push(0x04);
          hs.push(ready.len() as u8);
          hs.append(&mut ready);
          let data = vec![0x00u8, 0x05, b'h', b'e', b'l', b'l', b'o'];
          let peer = tokio::task::spawn_blocking(move || {
            let mut s = std::net::TcpStream::connect(addr).unwrap();
            s.set_nodelay(true).ok();
            if split == 0 {
              let mut all = hs.clone();
              all.extend_from_slice(&data);
              s.write_all(&all).unwrap();
            } else {
              s.write_all(&hs).unwrap();
              std::thread::sleep(Duration::from_millis(300));
              s.write_all(&data).unwrap();
            }
            s.set_read_timeout(Some(Duration::from_millis(2500))).ok();
            let mut buf = [0u8; 256];
            let mut total = 0;
            for _ in 0..6 {
              match s.read(&mut buf) {
                Ok(0) | Err(_) => break,
                Ok(n) => total += n,
              }
              if total >= 64 + 28 {
                break;
              }
            }
            std::thread::sleep(Duration::from_millis(1800));
            total
          });
          let got = pull.recv().await;
          let _ = peer.await;
          format!("{:?}", got.map(|m| String::from_utf8_lossy(m.data().unwrap_or(&[])).into_owned()))
        });
        println!("actor_early_data split={} recv={}", split, res);
        std::process::exit(0);
      }
      "inproc" => {
        use rzmq::SocketType;
        fn st(s: &str) -> SocketType {
          match s {
            "Pub" => SocketType::Pub,
            "Sub" => SocketType::Sub,
            "Req" => SocketType::Req,
            "Rep" => SocketType::Rep,
            "Dealer" => SocketType::Dealer,
            "Router" => SocketType::Router,
            "Push" => SocketType::Push,
            "Pull" => SocketType::Pull,
            _ => panic!("socket type {}", s),
          }
        }
        let a = st(it.next().unwrap());
        let b = st(it.next().unwrap());
        println!("inproc {}", if rzmq::verif_facade::inproc_socket_types_compatible(a, b) { "ok" } else { "refused" });
      }
      "phase" => println!("phase {:?} partial={} waiting_pong={}", eng.as_ref().unwrap().phase, eng.as_ref().unwrap().verif_partial_batch_len(), eng.as_ref().unwrap().verif_waiting_for_pong()),
      _ => panic!("unknown command {}", cmd),
    }
  }
}
