"""C10 kernel: two tasks call ReqSocket::send on clones of one REQ socket. The request state lives behind a
Mutex and is read in one lock scope and written in a later one; the BMC decides whether both calls can
succeed without a recv() in between."""
from __future__ import annotations
import re, time
import z3
from ..mirsym.values import *
from ..mirsym.models import MapV, Seq, ok, err
from ..mirsym.interp import PathAbort
from .extract import extract_call, OK, CLOSED
from .bmc import ThreadProg, System, BV

REQ = "socket::req_socket::ReqSocket"
QUERIES = ["cover.one-send-succeeds", "cover.a-losing-send-is-refused", "two-sends-succeed-without-recv",
           "send-succeeded-but-state-not-expecting-reply", "all-sends-failed-but-state-not-ready", "state-mutex-left-locked",
           "loop-bound-exceeded"]


def _lock(v):
    return Agg("{lock}", [v])


def _string(s):
    return Seq("string", list(s.encode()))


def setup(it):
    prog = it.prog
    lb = it.run_body(prog.body(prog.resolve_method("", "socket::patterns::load_balancer::LoadBalancer", "new", None)), [])
    lbref = Ref(Cell(lb, "lb"), ())
    add = prog.body(prog.resolve_method("", "socket::patterns::load_balancer::LoadBalancer", "add_connection", None))
    it.run_body(add, [lbref, _string("uA"), BoxV(Cell(Agg("{iface}", []), "iface"), (), "{iface}")])
    # SocketCore: only is_running_flag and core_state.options.sndtimeo are read by send()
    cf = prog.struct_fields("socket::core::SocketCore")
    core_vals = [Opaque(f) for f in cf]
    csf = prog.struct_fields("socket::core::state::CoreState")
    cs_vals = [Opaque(f) for f in csf]
    of = prog.struct_fields("socket::options::SocketOptions")
    o_vals = [Opaque(f) for f in of]
    o_vals[of.index("sndtimeo")] = Enum("std::option::Option", 0, "None", [])
    cs_vals[csf.index("options")] = Agg("socket::options::SocketOptions", o_vals)
    core_vals[cf.index("core_state")] = _lock(Agg("socket::core::state::CoreState", cs_vals))
    it.hooks["socket::core::SocketCore::is_running"] = lambda it2, args, dty, func: True
    core = BoxV(Cell(Agg("socket::core::SocketCore", core_vals), "core"), ())
    world = it._world
    if "req_state" not in world.atomics:
        world.atomics.append("req_state")
        world.atomic_init["req_state"] = 0
    rec = it._rec_holder
    variants = prog.enum_variants("socket::req_socket::ReqState")       # from the current source
    assert variants and variants[0] == "ReadyToSend" and "ExpectingReply" in variants, variants
    def reader():
        r = rec[0].log_op(it, "load", "req_state")
        c = it.ctx.switch(r, list(range(len(variants))))
        if c == "otherwise":
            raise PathAbort("state domain")
        return c
    def writer(idx):
        rec[0].log_op(it, "store", "req_state", idx)
    state = SharedEnumV("socket::req_socket::ReqState", variants, {variants.index("ExpectingReply"): [_string("uA")]}, reader, writer)
    if "req_mutex" not in world.atomics:
        world.atomics.append("req_mutex")
        world.atomic_init["req_mutex"] = 0
    def extern(it2, plain, args, dty, func):
        # the request-state mutex: acquire / release are visible operations (the guard's drop is the release)
        if re.match(r"^(parking_lot::|lock_api::)*(mutex::)?Mutex::lock$", plain):
            tgt = args[0].child(0)
            if tgt.load() is state:
                rec[0].log_op(it2, "mutex_lock", "req_mutex")
            return tgt
        if plain == "tokio::sync::Mutex::lock":
            m = args[0].load() if isinstance(args[0], Ref) else args[0]
            if isinstance(m, Agg) and m.ty == "{amutex}":
                return Agg("{future}", ["mutex_lock_await", m.f[0], None])
        return it._rec_extern[0](it2, plain, args, dty, func)
    it._req_extern = extern
    def drop_hook(it2, fr, place, base):
        if "MutexGuard" not in base:
            return False
        try:
            g = it2.eval_place_ref(fr, place).load()
        except Exception:
            return False
        if isinstance(g, Ref) and g.load() is state:
            rec[0].log_op(it2, "mutex_unlock", "req_mutex")
        elif isinstance(g, Agg) and g.ty == "{async_guard}":
            rec[0].log_op(it2, "mutex_unlock", g.f[0])
        return True
    it.drop_hook = drop_hook
    vals = {"core": core, "load_balancer": lbref.load(), "ingress_engine": Opaque("ingress"),
            "pending_pipe_senders": _lock(MapV("HashMap", [])), "state": _lock(state),
            "reply_available_notifier": BoxV(Cell(Agg("{notify}", []), "notify"), ()),
            "pipe_read_to_endpoint_uri": _lock(MapV("HashMap", []))}
    fields = prog.struct_fields(REQ)
    ftypes = prog.struct_field_types(REQ) or {}
    for f in fields:
        if f not in vals:
            ty = str(ftypes.get(f, "")) if isinstance(ftypes, dict) else ""
            if "tokio::sync::Mutex" in ty or "Mutex<()>" in ty:
                nm = "amutex." + f
                if nm not in world.atomics:
                    world.atomics.append(nm)
                    world.atomic_init[nm] = 0
                vals[f] = Agg("{amutex}", [nm])
            else:
                vals[f] = Opaque(f)
    sock = Agg(REQ, [vals[f] for f in fields])
    return Ref(Cell(sock, "req"), ())


def call_send():
    def f(it, st):
        prog = it.prog
        it._rec_extern = [it.extern]
        it.extern = it._req_extern
        def iface(it2, args, dty, func):
            return Agg("{future}", ["env_call", "iface.send_multipart", None])
        it.hooks["<dyn socket::connection_iface::ISocketConnection as socket::connection_iface::ISocketConnection>::send_multipart"] = iface
        fn = prog.resolve_method("", REQ, "send", "ISocket")
        msg = it.run_body(prog.body(prog.resolve_method("", "message::msg::Msg", "new", None)), [])
        fut = it.run_body(prog.body(fn), [st, msg])
        coro = fut
        while isinstance(coro, Ref) and not (isinstance(coro.load(), Agg) and str(coro.load().ty).startswith("{coroutine")):
            coro = coro.load()
        r = it.run_body(prog.body(fn + "::{closure#0}"), [coro, Opaque("cx")])
        return r.f[0] if isinstance(r, Enum) and r.vname == "Ready" else r
    return f


def run_scenario(prog, cfg, timeout_ms=600000, only=None):
    t0 = time.time()
    tree = extract_call(prog, setup, call_send(), "send", max_ops=cfg.get("max_ops", 12), allow_closed=True)
    n = cfg.get("tasks", 2)
    threads = []
    for i in range(n):
        t = ThreadProg(f"task{i}", "caller")
        t.add_call([tree])
        threads.append(t)
    world = tree.paths[0]["world"]
    variants = prog.enum_variants("socket::req_socket::ReqState")
    READY, EXPECT = variants.index("ReadyToSend"), variants.index("ExpectingReply")
    longest = max(len(p["ops"]) for p in tree.paths)
    K = cfg.get("K", (longest + 1) * n)
    sysm = System(world, threads, K)
    res = {"K": K, "threads": [t.name for t in threads], "nodes": sum(len(t.nodes) for t in threads), "queries": [],
           "functions": sorted(tree.functions), "paths": {"send": len(tree.paths)}, "state_variants": variants}
    def q(name, bad, expect_unsat=True):
        if only is not None and name != only:
            return
        r, m, dt = sysm.check(bad, timeout_ms)
        e = {"name": name, "result": str(r), "solver_s": round(dt, 2), "expect": "unsat" if expect_unsat else "sat"}
        if r == z3.sat:
            e["schedule"] = sysm.schedule(m)
        res["queries"].append(e)
    def is_ok(leaf):
        return isinstance(leaf.outcome, Enum) and leaf.outcome.vname == "Ok"
    def succeeded(ti, s):
        return sysm.reached_leaf(ti, s, is_ok)
    def failed(ti, s):
        return sysm.reached_leaf(ti, s, lambda leaf: not is_ok(leaf) and not leaf.truncated)
    all_done = z3.And([z3.Or(succeeded(i, K), failed(i, K)) for i in range(n)])
    final_state = sysm.st[K]["val"]["req_state"]
    q("cover.one-send-succeeds", z3.Or([succeeded(0, s) for s in range(1, K + 1)]), expect_unsat=False)
    q("cover.a-losing-send-is-refused", z3.And(all_done, z3.Or([succeeded(i, K) for i in range(n)]), z3.Or([failed(i, K) for i in range(n)])), expect_unsat=False)
    pairs = [(i, j) for i in range(n) for j in range(i + 1, n)]
    q("two-sends-succeed-without-recv", z3.Or([z3.And(succeeded(i, K), succeeded(j, K)) for i, j in pairs]))
    # once every caller has returned the socket is either waiting for a reply (exactly when a send succeeded)
    # or ready again: a failed or refused send must not leave it unusable
    q("send-succeeded-but-state-not-expecting-reply", z3.And(all_done, z3.Or([succeeded(i, K) for i in range(n)]), final_state != BV(EXPECT)))
    q("all-sends-failed-but-state-not-ready", z3.And(all_done, z3.And([failed(i, K) for i in range(n)]), final_state != BV(READY)))
    mutexes = ["req_mutex"] + [a for a in world.atomics if a.startswith("amutex.")]
    res["mutexes"] = mutexes
    q("state-mutex-left-locked", z3.And(all_done, z3.Or([sysm.st[K]["val"][m] != BV(0) for m in mutexes])))
    trunc = []
    for s2, cases in sysm.cases.items():
        for ti, nd, ch, cond, upd, _ in cases:
            if ch.leaf and ch.truncated:
                trunc.append(cond)
    q("loop-bound-exceeded", z3.Or(trunc) if trunc else z3.BoolVal(False))
    res["wall_s"] = round(time.time() - t0, 2)
    return res
