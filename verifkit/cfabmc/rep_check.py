"""C10 kernel (REP): two tasks call RepSocket::recv on clones of one REP socket. The state is checked in one lock
scope, the request is awaited, and the state is overwritten in a later lock scope; the BMC decides whether both calls
can succeed without a send() in between (the second ReceivedRequest overwrites the first, whose reply is then lost)."""
from __future__ import annotations
import re, time
import z3
from ..mirsym.values import *
from ..mirsym.models import MapV, Seq, ok, err
from ..mirsym.interp import PathAbort
from .extract import extract_call, OK, CLOSED
from .bmc import ThreadProg, System, BV

REP = "socket::rep_socket::RepSocket"
QUERIES = ["cover.one-recv-succeeds", "two-recvs-succeed-without-send", "state-mutex-left-locked", "loop-bound-exceeded"]


def _lock(v):
    return Agg("{lock}", [v])


def setup(it):
    prog = it.prog
    cf = prog.struct_fields("socket::core::SocketCore")
    core_vals = [Opaque(f) for f in cf]
    csf = prog.struct_fields("socket::core::state::CoreState")
    cs_vals = [Opaque(f) for f in csf]
    of = prog.struct_fields("socket::options::SocketOptions")
    o_vals = [Opaque(f) for f in of]
    o_vals[of.index("rcvtimeo")] = Enum("std::option::Option", 0, "None", [])
    cs_vals[csf.index("options")] = Agg("socket::options::SocketOptions", o_vals)
    core_vals[cf.index("core_state")] = _lock(Agg("socket::core::state::CoreState", cs_vals))
    core = BoxV(Cell(Agg("socket::core::SocketCore", core_vals), "core"), ())
    it.hooks["socket::core::SocketCore::is_running"] = lambda it2, args, dty, func: True
    world = it._world
    for nm in ("rep_state", "rep_mutex"):
        if nm not in world.atomics:
            world.atomics.append(nm)
            world.atomic_init[nm] = 0
    rec = it._rec_holder
    variants = prog.enum_variants("socket::rep_socket::RepState")
    assert variants and variants[0] == "ReadyToReceive", variants
    def reader():
        r = rec[0].log_op(it, "load", "rep_state")
        c = it.ctx.switch(r, list(range(len(variants))))
        if c == "otherwise":
            raise PathAbort("state domain")
        return c
    def writer(idx):
        rec[0].log_op(it, "store", "rep_state", idx)
    state = SharedEnumV("socket::rep_socket::RepState", variants, {variants.index("ReceivedRequest"): [Opaque("peer-info")]}, reader, writer)
    def extern(it2, plain, args, dty, func):
        if re.match(r"^(parking_lot::|lock_api::)*(mutex::)?Mutex::lock$", plain):
            tgt = args[0].child(0)
            if tgt.load() is state:
                rec[0].log_op(it2, "mutex_lock", "rep_mutex")
            return tgt
        if plain == "tokio::sync::Mutex::lock":
            m = args[0].load() if isinstance(args[0], Ref) else args[0]
            if isinstance(m, Agg) and m.ty == "{amutex}":
                return Agg("{future}", ["mutex_lock_await", m.f[0], None])
        return it._rec_extern[0](it2, plain, args, dty, func)
    it._rep_extern = extern
    def drop_hook(it2, fr, place, base):
        if "MutexGuard" not in base:
            return False
        try:
            g = it2.eval_place_ref(fr, place).load()
        except Exception:
            return False
        if isinstance(g, Ref) and g.load() is state:
            rec[0].log_op(it2, "mutex_unlock", "rep_mutex")
        elif isinstance(g, Agg) and g.ty == "{async_guard}":
            rec[0].log_op(it2, "mutex_unlock", g.f[0])
        return True
    it.drop_hook = drop_hook
    vals = {"core": core, "ingress_engine": Opaque("ingress"), "pending_pipe_senders": _lock(MapV("HashMap", [])), "state": _lock(state),
            "pipe_read_id_to_endpoint_uri": _lock(MapV("HashMap", []))}
    fields = prog.struct_fields(REP)
    ftypes = prog.struct_field_types(REP) or {}
    for f in fields:
        if f not in vals:
            ty = str(ftypes.get(f, "")) if isinstance(ftypes, dict) else ""
            if "tokio::sync::Mutex" in ty or "Mutex<()>" in ty or "TokioMutex" in ty:
                nm = "amutex." + f
                if nm not in world.atomics:
                    world.atomics.append(nm)
                    world.atomic_init[nm] = 0
                vals[f] = Agg("{amutex}", [nm])
            else:
                vals[f] = Opaque(f)
    sock = Agg(REP, [vals[f] for f in fields])
    return Ref(Cell(sock, "rep"), ())


def call_recv():
    def f(it, st):
        prog = it.prog
        it._rec_extern = [it.extern]
        it.extern = it._rep_extern
        def recv_request(it2, args, dty, func):
            # awaiting the next request from any peer: an environment step; on success it yields (PeerInfo, payload)
            payload = it2.run_body(prog.body(prog.resolve_method("", "message::FrameBatch", "new", None)), [])
            return Agg("{future}", ["env_call", "rep.recv_complete_request", None, Agg("tuple", [Opaque("peer-info"), payload])])
        it.hooks[prog.resolve_method("", REP, "recv_complete_request", None)] = recv_request
        fn = prog.resolve_method("", REP, "recv", "ISocket")
        fut = it.run_body(prog.body(fn), [st])
        coro = fut
        while isinstance(coro, Ref) and not (isinstance(coro.load(), Agg) and str(coro.load().ty).startswith("{coroutine")):
            coro = coro.load()
        r = it.run_body(prog.body(fn + "::{closure#0}"), [coro, Opaque("cx")])
        return r.f[0] if isinstance(r, Enum) and r.vname == "Ready" else r
    return f


def run_scenario(prog, cfg, timeout_ms=600000, only=None):
    t0 = time.time()
    tree = extract_call(prog, setup, call_recv(), "recv", max_ops=cfg.get("max_ops", 12), allow_closed=True)
    n = cfg.get("tasks", 2)
    threads = []
    for i in range(n):
        t = ThreadProg(f"task{i}", "caller")
        t.add_call([tree])
        threads.append(t)
    world = tree.paths[0]["world"]
    longest = max(len(p["ops"]) for p in tree.paths)
    K = cfg.get("K", (longest + 1) * n)
    sysm = System(world, threads, K)
    res = {"K": K, "threads": [t.name for t in threads], "nodes": sum(len(t.nodes) for t in threads), "queries": [],
           "functions": sorted(tree.functions), "paths": {"recv": len(tree.paths)}}
    def q(name, bad, expect_unsat=True):
        if only is not None and name != only:
            return
        r, m, dt = sysm.check(bad, timeout_ms)
        e = {"name": name, "result": str(r), "solver_s": round(dt, 2), "expect": "unsat" if expect_unsat else "sat"}
        if r == z3.sat:
            e["schedule"] = sysm.schedule(m)
        res["queries"].append(e)
    def is_ok(leaf):
        return isinstance(leaf.outcome, Enum) and leaf.outcome.vname == "Ok"
    def succeeded(ti, s):
        return sysm.reached_leaf(ti, s, is_ok)
    def failed(ti, s):
        return sysm.reached_leaf(ti, s, lambda leaf: not is_ok(leaf) and not leaf.truncated)
    all_done = z3.And([z3.Or(succeeded(i, K), failed(i, K)) for i in range(n)])
    q("cover.one-recv-succeeds", z3.Or([succeeded(0, s) for s in range(1, K + 1)]), expect_unsat=False)
    pairs = [(i, j) for i in range(n) for j in range(i + 1, n)]
    q("two-recvs-succeed-without-send", z3.Or([z3.And(succeeded(i, K), succeeded(j, K)) for i, j in pairs]))
    mutexes = ["rep_mutex"] + [a for a in world.atomics if a.startswith("amutex.")]
    q("state-mutex-left-locked", z3.And(all_done, z3.Or([sysm.st[K]["val"][m] != BV(0) for m in mutexes])))
    trunc = []
    for s2, cases in sysm.cases.items():
        for ti, nd, ch, cond, upd, _ in cases:
            if ch.leaf and ch.truncated:
                trunc.append(cond)
    q("loop-bound-exceeded", z3.Or(trunc) if trunc else z3.BoolVal(False))
    res["wall_s"] = round(time.time() - t0, 2)
    return res
