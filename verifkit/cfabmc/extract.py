"""Extraction of control-flow automata from MIR.

Each operation of the ready-pipe queue (and of the other small synchronisation kernels) is executed
by mirsym from its real MIR. Calls into the shared-state vocabulary (atomics, fibre channels,
Notify, ...) are not modelled as values: they are *logged* as visible operations whose results are
fresh solver variables. Every explored path therefore is a sequence of visible operations plus a
path condition over the operations' results -- together the paths form the operation's CFA, which
bmc.py composes with other threads under a symbolic scheduler.
"""
from __future__ import annotations
import re
import z3
from ..mirsym.parser import MirProgram
from ..mirsym.interp import Interp, PathCtx, Panic, Unsupported, PathAbort, StepLimit
from ..mirsym.models import Models, some, none, ok, err
from ..mirsym.values import *

# result codes of visible operations (values of the fresh result variables)
OK, FULL, CLOSED, EMPTY = 0, 1, 2, 3


class AtomicV:
    __slots__ = ("name",)

    def __init__(self, name):
        self.name = name

    def __repr__(self):
        return f"<atomic {self.name}>"


class ChanV:
    """endpoint of a channel: kind in {spsc, ready}, name identifies the shared FIFO"""
    __slots__ = ("kind", "name", "side")

    def __init__(self, kind, name, side):
        self.kind, self.name, self.side = kind, name, side

    def __repr__(self):
        return f"<{self.kind}.{self.side} {self.name}>"


class SharedSeq(Seq):
    """a Vec living behind a lock that several threads touch: only its length is tracked as shared state"""
    __slots__ = ("name",)

    def __init__(self, name):
        super().__init__("vec", [], "?")
        self.name = name


class NotifyV:
    __slots__ = ("name",)

    def __init__(self, name):
        self.name = name


class World:
    """objects created while the data structure is set up (sequentially, before the threads start)"""

    def __init__(self):
        self.atomics, self.chans, self.slots = [], [], []      # names in creation order
        self.atomic_init = {}
        self.chan_cap = {}
        self.slot_ptrs = []        # BoxV pointers to PipeSlot values, index = order of registration
        self.slot_ids = []
        self.notifies = []


class Recorder:
    """per-path log of visible operations"""

    def __init__(self, world: World, max_ops=40, allow_closed=False):
        self.world = world
        self.allow_closed = allow_closed
        self.ops = []              # dicts: op, target, arg, ret (z3 var name), ret2
        self.max_ops = max_ops
        self.retvars = {}

    def log_op(self, it, op, target, arg=None):
        if len(self.ops) >= self.max_ops:
            raise StepLimit("visible-op bound")
        r = self.fresh(it, op)
        self.ops.append({"op": op, "target": target, "arg": arg, "ret": r, "ret2": None, "pc_index": len(it.ctx.pc)})
        return r

    def fresh(self, it, what, w=64):
        v = z3.BitVec(f"{what}#{len(self.ops)}", w)
        return v


def _name_of(v):
    while isinstance(v, Ref):
        v = v.load()
    return v


def make_extern(rec: Recorder, setup=False):
    W = rec.world

    def log(it, op, target, arg=None):
        if len(rec.ops) >= rec.max_ops:
            raise StepLimit("visible-op bound")
        r = rec.fresh(it, op)
        rec.ops.append({"op": op, "target": target, "arg": arg, "ret": r, "ret2": None, "pc_index": len(it.ctx.pc)})
        return r

    def dom(*codes):
        return [c for c in codes if c != CLOSED or rec.allow_closed]

    def extern(it, plain, args, dty, func):
        # ---- atomics
        m = re.match(r"^std::sync::atomic::Atomic(?:Usize|Bool|U8|U64)?::(\w+)$", plain) or re.match(r"^std::sync::atomic::Atomic::(\w+)$", plain)
        if m:
            me = m.group(1)
            if me == "new":
                nm = f"a{len(W.atomics)}"
                W.atomics.append(nm)
                W.atomic_init[nm] = args[0] if isinstance(args[0], int) else int(bool(args[0]))
                return AtomicV(nm)
            a = _name_of(args[0])
            if not isinstance(a, AtomicV):
                raise Unsupported(f"atomic op on {a!r}")
            if setup:
                # sequential set-up phase: apply concretely to the initial state
                old = W.atomic_init[a.name]
                if me == "fetch_add":
                    W.atomic_init[a.name] = old + args[1]
                    return old
                if me == "fetch_sub":
                    W.atomic_init[a.name] = old - args[1]
                    return old
                if me == "load":
                    return old
                if me == "store":
                    W.atomic_init[a.name] = args[1]
                    return UNIT
            if me in ("fetch_add", "fetch_sub"):
                return log(it, me, a.name, args[1])
            if me == "load":
                r = log(it, "load", a.name)
                return r if dty != "bool" else simp(r != 0)
            if me == "store":
                log(it, "store", a.name, args[1])
                return UNIT
            if me == "swap":
                return log(it, "swap", a.name, args[1])
            raise Unsupported("atomic " + me)
        # ---- channel construction
        if plain in ("fibre::spsc::bounded_async", "fibre::mpmc_v2::bounded_async", "fibre::mpmc::bounded_async"):
            kind = "spsc" if "spsc" in plain else "ready"
            nm = f"{kind}{len(W.chans)}"
            W.chans.append(nm)
            W.chan_cap[nm] = args[0]
            return Agg("tuple", [ChanV(kind, nm, "tx"), ChanV(kind, nm, "rx")])
        # ---- spsc data channel
        if plain == "fibre::spsc::BoundedAsyncSender::try_send":
            ch = _name_of(args[0])
            r = log(it, "spsc_try_send", ch.name, args[1])
            c = it.ctx.switch(r, dom(OK, FULL, CLOSED))
            if c == OK:
                return ok(UNIT)
            if c == "otherwise":
                raise PathAbort("result domain")
            return err(Enum("fibre::TrySendError", {FULL: 0, CLOSED: 1}[c], {FULL: "Full", CLOSED: "Closed"}[c], [args[1]]))
        if plain == "fibre::spsc::BoundedAsyncSender::send":
            ch = _name_of(args[0])
            return Agg("{future}", ["spsc_send_await", ch.name, args[1]])
        if plain == "fibre::spsc::BoundedAsyncReceiver::try_recv":
            ch = _name_of(args[0])
            r = log(it, "spsc_try_recv", ch.name)
            c = it.ctx.switch(r, dom(OK, EMPTY, CLOSED))
            if c == OK:
                item = z3.BitVec(f"item#{len(rec.ops) - 1}", 64)
                rec.ops[-1]["ret2"] = item
                return ok(item)
            if c == "otherwise":
                raise PathAbort("result domain")
            return err(Enum("fibre::TryRecvError", 0 if c == EMPTY else 1, "Empty" if c == EMPTY else "Disconnected", []))
        if plain in ("fibre::spsc::BoundedAsyncReceiver::len", "fibre::spsc::BoundedAsyncSender::len"):
            ch = _name_of(args[0])
            return log(it, "spsc_len", ch.name)
        if plain in ("fibre::spsc::BoundedAsyncReceiver::capacity", "fibre::spsc::BoundedAsyncSender::capacity"):
            ch = _name_of(args[0])
            return W.chan_cap[ch.name]
        # ---- mpmc ready list (items are Arc<PipeSlot>)
        if plain in ("fibre::mpmc_v2::AsyncSender::try_send",):
            ch = _name_of(args[0])
            pipe = _slot_index(W, args[1])
            r = log(it, "ready_try_send", ch.name, pipe)
            c = it.ctx.switch(r, dom(OK, FULL, CLOSED))
            if c == OK:
                return ok(UNIT)
            if c == "otherwise":
                raise PathAbort("result domain")
            return err(Enum("fibre::TrySendError", {FULL: 0, CLOSED: 1}[c], {FULL: "Full", CLOSED: "Closed"}[c], [args[1]]))
        if plain in ("fibre::mpmc_v2::AsyncSender::send",):
            ch = _name_of(args[0])
            return Agg("{future}", ["ready_send_await", ch.name, _slot_index(W, args[1])])
        if plain in ("fibre::mpmc_v2::AsyncReceiver::recv",):
            ch = _name_of(args[0])
            return Agg("{future}", ["ready_recv_await", ch.name, None])
        if plain in ("fibre::mpmc_v2::AsyncReceiver::try_recv",):
            ch = _name_of(args[0])
            r = log(it, "ready_try_recv", ch.name)
            c = it.ctx.switch(r, dom(OK, EMPTY, CLOSED))
            if c == OK:
                return ok(_choose_slot(it, rec))
            if c == "otherwise":
                raise PathAbort("result domain")
            return err(Enum("fibre::TryRecvError", 0 if c == EMPTY else 1, "Empty" if c == EMPTY else "Disconnected", []))
        if plain in ("fibre::mpmc_v2::AsyncSender::close", "fibre::mpmc_v2::AsyncReceiver::close"):
            ch = _name_of(args[0])
            log(it, "ready_close", ch.name)
            return ok(UNIT)
        if plain in ("fibre::mpmc_v2::AsyncSender::clone", "<fibre::mpmc_v2::AsyncSender as std::clone::Clone>::clone"):
            return _name_of(args[0])
        # ---- futures: an awaited channel operation is one blocking visible operation
        if plain.endswith("IntoFuture>::into_future") or plain == "std::pin::Pin::new_unchecked" or plain == "std::pin::Pin::new":
            return args[0]
        if plain.endswith("Future>::poll"):
            fut = _name_of(args[0])
            if isinstance(fut, Agg) and fut.ty == "{future}":
                op, chn, arg = fut.f[:3]
                ok_value = fut.f[3] if len(fut.f) > 3 else UNIT        # what an environment call yields when it succeeds
                if op == "mutex_lock_await":
                    # acquiring an async mutex: one blocking visible operation; the guard's drop releases it
                    log(it, "mutex_lock", chn, None)
                    return Enum("std::task::Poll", 0, "Ready", [Agg("{async_guard}", [chn])])
                r = log(it, op, chn, arg)
                if op == "notify_await":
                    return Enum("std::task::Poll", 0, "Ready", [UNIT])
                if op == "env_call":
                    c = it.ctx.switch(r, [OK, CLOSED])
                    if c == OK:
                        return Enum("std::task::Poll", 0, "Ready", [ok(ok_value)])
                    if c == CLOSED:
                        ev = it.prog.enum_variants("error::ZmqError")
                        return Enum("std::task::Poll", 0, "Ready", [err(Enum("error::ZmqError", ev.index("ConnectionClosed"), "ConnectionClosed", []))])
                    raise PathAbort("result domain")
                if op == "ready_recv_await":
                    c = it.ctx.switch(r, dom(OK, CLOSED))
                    if c == OK:
                        res = ok(_choose_slot(it, rec))
                    elif c == CLOSED:
                        res = err(Enum("fibre::RecvError", 0, "Disconnected", []))
                    else:
                        raise PathAbort("result domain")
                else:
                    c = it.ctx.switch(r, dom(OK, CLOSED))
                    if c == OK:
                        res = ok(UNIT)
                    elif c == CLOSED:
                        res = err(Enum("fibre::SendError", 0, "Closed", []))
                    else:
                        raise PathAbort("result domain")
                return Enum("std::task::Poll", 0, "Ready", [res])
            return NotImplemented
        # ---- a shared Vec (behind a lock): length as an atomic cell; element contents are not tracked
        if plain in ("std::vec::Vec::is_empty", "std::vec::Vec::len") and isinstance(_name_of(args[0]), SharedSeq):
            r = log(it, "load", _name_of(args[0]).name)
            return simp(r == 0) if plain.endswith("is_empty") else r
        if plain == "std::vec::Vec::push" and isinstance(_name_of(args[0]), SharedSeq):
            log(it, "fetch_add", _name_of(args[0]).name, 1)
            return UNIT
        if plain in ("std::vec::Vec::iter", "<std::vec::Vec as std::ops::Deref>::deref") and isinstance(_name_of(args[0]), SharedSeq):
            # scenario assumption: the element being added is not present yet
            return SliceRef(Ref(Cell(Seq("vec", [], "?"), "empty"), ()), 0, 0)
        # ---- tokio Notify: notified() registers (creation), awaiting it blocks until a later notify_waiters()
        if plain == "tokio::sync::Notify::new":
            nm = f"n{len(W.notifies)}"
            W.notifies.append(nm)
            return NotifyV(nm)
        if plain == "tokio::sync::Notify::notified":
            n = _name_of(args[0])
            r = log(it, "notify_register", n.name)
            return Agg("{future}", ["notify_await", n.name, r])
        if plain == "tokio::sync::Notify::notify_one":
            n = _name_of(args[0])
            log(it, "notify_one", n.name)
            return UNIT
        if plain == "tokio::sync::Notify::notify_waiters":
            n = _name_of(args[0])
            log(it, "notify_all", n.name)
            return UNIT
        # ---- Arc / Weak / locks: sequential cells
        if plain == "std::sync::Arc::downgrade":
            return _name_of_ptr(args[0])
        if plain == "std::sync::Weak::upgrade":
            w = _name_of_ptr(args[0])
            return some(w)
        if plain in ("parking_lot::RwLock::new", "parking_lot::Mutex::new", "lock_api::RwLock::new", "lock_api::Mutex::new",
                     "parking_lot::lock_api::RwLock::new", "parking_lot::lock_api::Mutex::new"):
            return Agg("{lock}", [args[0]])
        if re.match(r"^(parking_lot::)?(lock_api::)?(RwLock|Mutex)::(write|read|lock)$", plain):
            return args[0].child(0)
        if plain == "std::thread::yield_now":
            return UNIT
        if plain == "std::sync::Arc::new":
            p = BoxV(Cell(args[0], "arc"), ())
            v = args[0]
            if isinstance(v, Agg) and v.ty.endswith("PipeSlot"):
                W.slot_ptrs.append(p)
                W.slot_ids.append(v.f[0])
            return p
        return NotImplemented

    return extern


def _name_of_ptr(v):
    t = v
    while isinstance(t, Ref) and not isinstance(t, BoxV):
        t = t.load()
    return t


def _slot_index(W, arc):
    p = _name_of_ptr(arc)
    for i, q in enumerate(W.slot_ptrs):
        if q.cell is p.cell:
            return i
    raise Unsupported("unknown slot pointer")


def _choose_slot(it, rec):
    """the ready list hands out one of the registered slots: which one is a result variable"""
    W = rec.world
    v = z3.BitVec(f"slot#{len(rec.ops) - 1}", 64)
    rec.ops[-1]["ret2"] = v
    c = it.ctx.switch(v, list(range(len(W.slot_ptrs))))
    if c == "otherwise":
        raise PathAbort("slot domain")
    return W.slot_ptrs[c]


class CallTree:
    """all paths of one operation: list of (ops, path condition, outcome, truncated)"""

    def __init__(self, name):
        self.name = name
        self.paths = []
        self.functions = set()


def extract_call(prog, setup_fn, call_fn, name, max_ops=24, max_paths=400, allow_closed=False):
    """setup_fn(it) -> state (built with an extern in setup mode, sequentially);
    call_fn(it, state) -> return value. Explores all paths of call_fn."""
    tree = CallTree(name)
    frontier = [[]]
    while frontier:
        if len(tree.paths) > max_paths:
            raise RuntimeError(f"{name}: more than {max_paths} paths")
        prefix = frontier.pop()
        ctx = PathCtx(prefix)
        it = Interp(prog, ctx, Models(), max_steps=200000)
        world = World()
        rec0 = Recorder(world, max_ops=10 ** 6)
        it.extern = make_extern(rec0, setup=True)
        it._world = world
        it._rec_holder = [rec0]
        state = setup_fn(it)
        n_setup = len(ctx.trace)
        rec = Recorder(world, max_ops=max_ops, allow_closed=allow_closed)
        it._rec_holder[0] = rec
        it.extern = make_extern(rec)
        truncated, outcome, note = False, None, ""
        try:
            outcome = call_fn(it, state)
        except StepLimit:
            truncated = True
        except PathAbort:
            frontier.extend(ctx.pending)
            continue
        except Panic as p:
            outcome = ("panic", str(p))
        frontier.extend(ctx.pending)
        tree.functions.update(it.called)
        # guard of op i = path-condition atoms added after op i was issued and before op i+1
        idx = [o["pc_index"] for o in rec.ops] + [len(ctx.pc)]
        for i, o in enumerate(rec.ops):
            o["guard"] = list(ctx.pc[idx[i]:idx[i + 1]])
        pre = list(ctx.pc[:idx[0]]) if rec.ops else list(ctx.pc)
        tree.paths.append({"ops": rec.ops, "pc": list(ctx.pc), "pre_guard": pre, "outcome": outcome, "truncated": truncated,
                           "trace": list(ctx.trace), "world": world})
    return tree
