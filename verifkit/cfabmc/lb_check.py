"""C13 kernel: LoadBalancer::wait_for_connection vs add_connection -- can a waiting sender miss the first peer?"""
from __future__ import annotations
import time
import z3
from ..mirsym.values import *
from .extract import extract_call, SharedSeq
from .bmc import ThreadProg, System, BV

LB = "socket::patterns::load_balancer::LoadBalancer"
QUERIES = ["cover.waiter-returns", "sender-sleeps-although-a-peer-connected", "sender-sleeps-after-deactivate", "loop-bound-exceeded"]


def _m(it, name):
    return it.prog.body(it.prog.resolve_method("", LB, name, None))


def setup(it):
    lb = it.run_body(_m(it, "new"), [])
    ref = Ref(Cell(lb, "lb"), ())
    # LoadBalancer { state: Mutex<BalancerState { peers, next_idx }>, notify_waiters, deactivated }
    state = lb.f[0].f[0]
    sv = SharedSeq("peers_len")
    state.f[0] = sv
    return ref


def call_add():
    def f(it, st):
        from ..mirsym.models import Seq
        return it.run_body(_m(it, "add_connection"), [st, Seq("string", list(b"tcp://peer")), BoxV(Cell(Opaque("iface"), "iface"), ())])
    return f


def call_wait():
    def f(it, st):
        coro = it.run_body(_m(it, "wait_for_connection"), [st])
        fn = it.prog.resolve_method("", LB, "wait_for_connection", None)
        return it.run_body(it.prog.body(fn + "::{closure#0}"), [Ref(Cell(coro, "coro"), ()), Opaque("cx")])
    return f


def call_deactivate():
    return lambda it, st: it.run_body(_m(it, "deactivate"), [st])


def run_scenario(prog, cfg, timeout_ms=600000, only=None):
    if cfg.get("mode") == "deactivate":
        return run_deactivate(prog, cfg, timeout_ms, only)
    t0 = time.time()
    t_add = extract_call(prog, setup, call_add(), "add_connection", max_ops=6)
    t_wait = extract_call(prog, setup, call_wait(), "wait_for_connection", max_ops=cfg.get("wait_ops", 9))
    world = t_wait.paths[0]["world"]
    if "peers_len" not in world.atomics:
        world.atomics.append("peers_len")
        world.atomic_init["peers_len"] = 0
    a = ThreadProg("connector", "worker")
    a.add_call([t_add])
    w = ThreadProg("sender", "waiter")
    w.add_call([t_wait])
    threads = [a, w]
    K = cfg.get("K", 16)
    sysm = System(world, threads, K)
    notif = world.notifies[0]
    res = {"K": K, "threads": [t.name for t in threads], "nodes": sum(len(t.nodes) for t in threads), "queries": [],
           "functions": sorted(t_add.functions | t_wait.functions), "paths": {"add_connection": len(t_add.paths), "wait_for_connection": len(t_wait.paths)}}
    def q(name, bad, expect_unsat=True):
        if only is not None and name != only:
            return
        r, m, dt = sysm.check(bad, timeout_ms)
        e = {"name": name, "result": str(r), "solver_s": round(dt, 2), "expect": "unsat" if expect_unsat else "sat"}
        if r == z3.sat:
            e["schedule"] = sysm.schedule(m)
        res["queries"].append(e)
    q("cover.waiter-returns", z3.Or([sysm.finished(1, s) for s in range(1, K + 1)]), expect_unsat=False)
    bad = []
    for s in range(K + 1):
        stt = sysm.st[s]
        for node in w.nodes:
            if node.leaf or node.op is None:
                continue
            for guard, c, _ in node.children:
                if (not c.leaf) and c.op == "notify_await":
                    arg = z3.substitute(c.arg, *c.names.values()) if (z3.is_expr(c.arg) and c.names) else c.arg
                    parked = z3.And(stt["node"][1] == node.id, w.subst(guard, c.names), z3.Not(z3.UGT(stt["gen"][notif], BV(arg))))
                    bad.append(z3.And(sysm.finished(0, s), parked, z3.UGT(stt["val"]["peers_len"], BV(0))))
    q("sender-sleeps-although-a-peer-connected", z3.Or(bad) if bad else z3.BoolVal(False))
    trunc = []
    for s, cases in sysm.cases.items():
        for ti, nd, ch, cond, upd, _ in cases:
            if ch.leaf and ch.truncated:
                trunc.append(cond)
    q("loop-bound-exceeded", z3.Or(trunc) if trunc else z3.BoolVal(False))
    res["wall_s"] = round(time.time() - t0, 2)
    return res


def run_deactivate(prog, cfg, timeout_ms, only):
    """n senders parked in wait_for_connection (no peer ever connects), one task calls deactivate():
    every sender must come back (with the closed error)"""
    t0 = time.time()
    n = cfg.get("waiters", 2)
    t_deact = extract_call(prog, setup, call_deactivate(), "deactivate", max_ops=6)
    t_wait = extract_call(prog, setup, call_wait(), "wait_for_connection", max_ops=cfg.get("wait_ops", 9))
    world = t_wait.paths[0]["world"]
    if "peers_len" not in world.atomics:
        world.atomics.append("peers_len")
        world.atomic_init["peers_len"] = 0
    c = ThreadProg("closer", "worker")
    c.add_call([t_deact])
    threads = [c]
    for i in range(n):
        w = ThreadProg(f"sender{i}", "waiter")
        w.add_call([t_wait])
        threads.append(w)
    K = cfg.get("K", 6 + 9 * n)
    sysm = System(world, threads, K)
    notif = world.notifies[0]
    res = {"K": K, "threads": [t.name for t in threads], "nodes": sum(len(t.nodes) for t in threads), "queries": [],
           "functions": sorted(t_deact.functions | t_wait.functions), "paths": {"deactivate": len(t_deact.paths), "wait_for_connection": len(t_wait.paths)}}
    def q(name, bad, expect_unsat=True):
        if only is not None and name != only:
            return
        r, m, dt = sysm.check(bad, timeout_ms)
        e = {"name": name, "result": str(r), "solver_s": round(dt, 2), "expect": "unsat" if expect_unsat else "sat"}
        if r == z3.sat:
            e["schedule"] = sysm.schedule(m)
        res["queries"].append(e)
    q("cover.waiter-returns", z3.Or([z3.And([sysm.finished(i, s) for i in range(1, n + 1)]) for s in range(1, K + 1)]), expect_unsat=False)
    bad = []
    s = K            # final state: everybody else is done or parked; a parked sender stays parked forever
    stt = sysm.st[s]
    for wi in range(1, n + 1):
        w = threads[wi]
        for node in w.nodes:
            if node.leaf or node.op is None:
                continue
            for guard, ch, _ in node.children:
                if (not ch.leaf) and ch.op == "notify_await":
                    arg = z3.substitute(ch.arg, *ch.names.values()) if (z3.is_expr(ch.arg) and ch.names) else ch.arg
                    parked = z3.And(stt["node"][wi] == node.id, w.subst(guard, ch.names),
                                    z3.Not(z3.Or(z3.UGT(stt["gen"][notif], BV(arg)), stt["permit"][notif] == 1)))
                    bad.append(z3.And(sysm.finished(0, s), parked))
    q("sender-sleeps-after-deactivate", z3.Or(bad) if bad else z3.BoolVal(False))
    q("sender-sleeps-although-a-peer-connected", z3.BoolVal(False))
    trunc = []
    for s2, cases in sysm.cases.items():
        for ti, nd, ch, cond, upd, _ in cases:
            if ch.leaf and ch.truncated:
                trunc.append(cond)
    q("loop-bound-exceeded", z3.Or(trunc) if trunc else z3.BoolVal(False))
    res["wall_s"] = round(time.time() - t0, 2)
    return res
