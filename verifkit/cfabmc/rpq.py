"""ReadyPipeQueue: CFA extraction of its operations from MIR."""
from __future__ import annotations
import z3
from ..mirsym.values import *
from .extract import extract_call

RPQ = "socket::patterns::ready_pipe_queue::ReadyPipeQueue"
SND = "socket::patterns::ready_pipe_queue::ReadyPipeSender"


def _method(it, ty, name):
    fn = it.prog.resolve_method("", ty, name, None)
    if fn is None:
        raise KeyError(ty + "::" + name)
    return it.prog.body(fn)


def setup(npipes, cap, ready_cap):
    def fn(it):
        q = it.run_body(_method(it, RPQ, "new"), [ready_cap])
        qref = Ref(Cell(q, "rpq"), ())
        senders = []
        for i in range(npipes):
            s = it.run_body(_method(it, RPQ, "register_pipe"), [qref, i, cap, 1])
            senders.append(Ref(Cell(s, f"sender{i}"), ()))
        return qref, senders
    return fn


def _poll_async(it, ty, name, args):
    """call an `async fn` and poll its body once (awaited channel operations are blocking visible ops,
    so the first poll runs to completion)"""
    coro = it.run_body(_method(it, ty, name), args)
    fn = it.prog.resolve_method("", ty, name, None)
    body = it.prog.body(fn + "::{closure#0}")
    r = it.run_body(body, [Ref(Cell(coro, "coroutine"), ()), Opaque("cx")])
    if not (isinstance(r, Enum) and r.vname == "Ready"):
        raise RuntimeError("async body returned Pending")
    return r.f[0]


def call_send(pipe, item):
    return lambda it, st: _poll_async(it, SND, "send", [st[1][pipe], item])


def call_try_send(pipe, item):
    return lambda it, st: it.run_body(_method(it, SND, "try_send"), [st[1][pipe], item])


def call_try_send_batch(pipe, items):
    def f(it, st):
        it.hooks["verif::weight_one"] = lambda it2, a, d, fn: 1
        dq = Ref(Cell(Seq("vecdeque", list(items), "?"), "items"), ())
        r = it.run_body(_method(it, SND, "try_send_batch"), [st[1][pipe], dq, FnItem("verif::weight_one")])
        return ("batch", r, len(dq.load().f))
    return f


PMS = "socket::patterns::ready_pipe_queue::PipeMessageSender"


def call_try_send_batch_filtered(pipe, items):
    """PipeMessageSender::FilteredAnonymous.try_send_batch (the SUB ingress path): its own copy of the batched
    enqueue loop. Every item matches the subscription (SubscriptionTrie::matches = true); items stay opaque ids."""
    def f(it, st):
        from ..mirsym.models import none
        prog = it.prog
        for ty, me, val in (("message::FrameBatch", "first", lambda it2, a, d, fn: none()),
                            ("message::FrameBatch", "len", lambda it2, a, d, fn: 1),
                            ("socket::patterns::trie::SubscriptionTrie", "matches", lambda it2, a, d, fn: True)):
            fn = prog.resolve_method("", ty, me, None)
            assert fn, (ty, me)
            it.hooks[fn] = val
        variants = prog.enum_variants(PMS)
        vi = variants.index("FilteredAnonymous")
        pms = Enum(PMS, vi, "FilteredAnonymous", [st[1][pipe].load(), BoxV(Cell(Opaque("trie"), "trie"), ())])
        dq = Ref(Cell(Seq("vecdeque", list(items), "?"), "items"), ())
        r = it.run_body(_method(it, PMS, "try_send_batch"), [Ref(Cell(pms, "pms"), ()), dq])
        return ("batch", r, len(dq.load().f))
    return f


def call_pop():
    return lambda it, st: _poll_async(it, RPQ, "pop", [st[0]])


def call_try_pop():
    return lambda it, st: it.run_body(_method(it, RPQ, "try_pop"), [st[0]])


def summarize(tree):
    out = []
    for p in tree.paths:
        ops = " ; ".join(f"{o['op']}({o['target']}{',' + str(o['arg']) if o['arg'] is not None else ''})" for o in p["ops"])
        oc = p["outcome"]
        out.append(f"[{'TRUNC' if p['truncated'] else 'ok'}] {ops}  => {oc!r}"[:400])
    return out
