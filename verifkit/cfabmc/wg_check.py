"""C16 kernel: WaitGroup::wait vs done -- does a waiter ever sleep with the count at zero?"""
from __future__ import annotations
import time
import z3
from ..mirsym.values import *
from .extract import extract_call
from .bmc import ThreadProg, System, BV, R64, W

WG = "runtime::waitgroup::WaitGroup"
QUERIES = ["cover.waiter-returns", "waiter-sleeps-with-count-zero", "counter-underflow", "panic-reachable", "loop-bound-exceeded"]


def _m(it, name):
    return it.prog.body(it.prog.resolve_method("", WG, name, None))


def setup(n):
    def fn(it):
        wg = it.run_body(_m(it, "new"), [])
        ref = Ref(Cell(wg, "wg"), ())
        it.run_body(_m(it, "add"), [ref, n])
        return ref
    return fn


def call_done():
    return lambda it, st: it.run_body(_m(it, "done"), [st])


def call_wait():
    def f(it, st):
        coro = it.run_body(_m(it, "wait"), [st])
        fn = it.prog.resolve_method("", WG, "wait", None)
        r = it.run_body(it.prog.body(fn + "::{closure#0}"), [Ref(Cell(coro, "coro"), ()), Opaque("cx")])
        return r
    return f


def run_scenario(prog, cfg, timeout_ms=600000, only=None):
    t0 = time.time()
    n = cfg.get("workers", 1)
    st = setup(n)
    t_done = extract_call(prog, st, call_done(), "done", max_ops=6)
    t_wait = extract_call(prog, st, call_wait(), "wait", max_ops=cfg.get("wait_ops", 8))
    threads = []
    for i in range(n):
        t = ThreadProg(f"worker{i}", "worker")
        t.add_call([t_done])
        threads.append(t)
    nw = cfg.get("waiters", 1)          # several tasks waiting on the same group (e.g. two concurrent Context::term())
    for j in range(nw):
        w = ThreadProg("waiter" if nw == 1 else f"waiter{j}", "waiter")
        w.add_call([t_wait])
        threads.append(w)
    world = t_wait.paths[0]["world"]
    K = cfg.get("K", 3 * n + nw * cfg.get("wait_ops", 8) + 2)
    sysm = System(world, threads, K)
    wis = list(range(n, n + nw))
    wi = n
    count = world.atomics[0]
    notif = world.notifies[0]
    res = {"K": K, "threads": [t.name for t in threads], "nodes": sum(len(t.nodes) for t in threads), "queries": [],
           "functions": sorted(t_done.functions | t_wait.functions), "paths": {"done": len(t_done.paths), "wait": len(t_wait.paths)}}
    def q(name, bad, expect_unsat=True):
        if only is not None and name != only:
            return
        r, m, dt = sysm.check(bad, timeout_ms)
        e = {"name": name, "result": str(r), "solver_s": round(dt, 2), "expect": "unsat" if expect_unsat else "sat"}
        if r == z3.sat:
            e["schedule"] = sysm.schedule(m)
        res["queries"].append(e)
    q("cover.waiter-returns", z3.And([z3.Or([sysm.finished(w_, s) for s in range(1, K + 1)]) for w_ in wis]), expect_unsat=False)
    bad = []
    for s in range(K + 1):
        stt = sysm.st[s]
        workers_done = z3.And([sysm.finished(i, s) for i in range(n)])
        # every other thread is finished or parked too: nobody is left who could still wake this waiter
        for wi in wis:
            wt = threads[wi]
            for node in wt.nodes:
                if node.leaf or node.op is None:
                    continue
                for guard, c, _ in node.children:
                    if (not c.leaf) and c.op == "notify_await":
                        arg = z3.substitute(c.arg, *c.names.values()) if (z3.is_expr(c.arg) and c.names) else c.arg
                        parked = z3.And(stt["node"][wi] == node.id, wt.subst(guard, c.names), z3.Not(z3.UGT(stt["gen"][notif], BV(arg))),
                                        stt["permit"][notif] == 0)
                        others_done = z3.And([sysm.finished(o, s) for o in wis if o != wi]) if nw > 1 else z3.BoolVal(True)
                        bad.append(z3.And(workers_done, others_done, parked, stt["val"][count] == 0))
    wi = wis[0]
    q("waiter-sleeps-with-count-zero", z3.Or(bad) if bad else z3.BoolVal(False))
    q("counter-underflow", sysm.st[K]["underflow"])
    pan, trunc = [], []
    for s, cases in sysm.cases.items():
        for ti, nd, ch, cond, upd, _ in cases:
            if ch.leaf and isinstance(ch.outcome, tuple) and ch.outcome and ch.outcome[0] == "panic":
                pan.append(cond)
            if ch.leaf and ch.truncated:
                trunc.append(cond)
    q("panic-reachable", z3.Or(pan) if pan else z3.BoolVal(False))
    q("loop-bound-exceeded", z3.Or(trunc) if trunc else z3.BoolVal(False))
    res["wall_s"] = round(time.time() - t0, 2)
    return res
