"""Bounded model checking of interleavings: thread programs are tries of visible operations
extracted from MIR (extract.py); the scheduler's choice at every step is a solver variable; the
shared state (atomics, bounded FIFOs) is unrolled K steps in z3."""
from __future__ import annotations
import time
import z3
from .extract import OK, FULL, CLOSED, EMPTY

W = 64      # width of operation results (mirsym path conditions are over 64-bit terms)
SW = int(__import__('os').environ.get('CFABMC_SW', '8'))      # width of the shared-state variables (counters, FIFO lengths, items): small bounded values
NW = int(__import__('os').environ.get('CFABMC_NW', '16'))     # width of control variables (node ids, call index, scheduler choice)


def BV(x):
    """state-width value"""
    if z3.is_expr(x):
        return x if x.size() == SW else z3.Extract(SW - 1, 0, x)
    return z3.BitVecVal(x, SW)


def R64(x):
    """state value as a 64-bit operation result"""
    return z3.ZeroExt(W - SW, x)


def NV(x):
    return z3.BitVecVal(x, NW)


class Node:
    __slots__ = ("id", "op", "target", "arg", "children", "leaf", "outcome", "truncated", "depth", "ret", "ret2", "names", "names_after")

    def __init__(self, nid):
        self.id, self.children = nid, []      # children: list of (guard_atoms, child_node)
        self.op = None
        self.leaf, self.outcome, self.truncated = False, None, False


class ThreadProg:
    """sequence of calls; each call = list of alternative tries (the solver picks the variant)"""

    def __init__(self, name, role):
        self.name, self.role = name, role
        self.nodes = []
        self.calls = []        # per call: list of root node ids (alternatives)
        self.final = None

    def new_node(self):
        n = Node(len(self.nodes))
        self.nodes.append(n)
        return n

    def add_call(self, trees):
        roots = []
        for tree in trees:
            root = self.new_node()
            root.op = "start"
            root.names = {}
            for p in tree.paths:
                cur = root
                names = {}
                pending_guard = list(p.get("pre_guard", []))
                for i, o in enumerate(p["ops"]):
                    key = (o["op"], o["target"], str(o["arg"]), tuple(str(g) for g in pending_guard))
                    nxt = None
                    for g, c, k in cur.children:
                        if k == key:
                            nxt = c
                            break
                    if nxt is None:
                        nxt = self.new_node()
                        nxt.op, nxt.target, nxt.arg = o["op"], o["target"], o["arg"]
                        nxt.ret = z3.BitVec(f"R_{self.name}_{nxt.id}", W)
                        nxt.ret2 = z3.BitVec(f"R2_{self.name}_{nxt.id}", W)
                        nxt.names = dict(names)
                        cur.children.append((pending_guard, nxt, key))
                    # substitution map: extraction-time variable -> this node's result variables
                    names = dict(nxt.names)
                    names[str(o["ret"])] = (o["ret"], nxt.ret)
                    if o["ret2"] is not None:
                        names[str(o["ret2"])] = (o["ret2"], nxt.ret2)
                    nxt.names_after = names
                    cur = nxt
                    pending_guard = list(o.get("guard", []))
                leaf = self.new_node()
                leaf.op = "end"
                leaf.leaf = True
                leaf.outcome = p["outcome"]
                leaf.truncated = p["truncated"]
                leaf.names = dict(names)
                cur.children.append((pending_guard, leaf, ("end", len(cur.children))))
            roots.append(root.id)
        self.calls.append(roots)

    def subst(self, atoms, names):
        pairs = list(names.values())
        out = []
        for a in atoms:
            a = a if z3.is_expr(a) else z3.BoolVal(bool(a))
            out.append(z3.substitute(a, *pairs) if pairs else a)
        return z3.And(out) if out else z3.BoolVal(True)


class System:
    def __init__(self, world, threads, K, context_bound=None):
        self.world, self.threads, self.K = world, threads, K
        self.context_bound = context_bound
        self.solver = z3.SolverFor("QF_BV")
        self.atomics = list(world.atomics)
        self.chans = list(world.chans)
        self.notifies = list(getattr(world, "notifies", []))
        self.cap = {c: int(world.chan_cap[c]) for c in self.chans}
        self.t0 = time.time()
        self._build()

    # ---- state variables
    def _mk_state(self, s):
        st = {"val": {a: z3.BitVec(f"val_{a}_{s}", SW) for a in self.atomics},
              "len": {c: z3.BitVec(f"len_{c}_{s}", SW) for c in self.chans},
              "buf": {c: [z3.BitVec(f"buf_{c}_{j}_{s}", SW) for j in range(self.cap[c])] for c in self.chans},
              "node": [z3.BitVec(f"node_{t.name}_{s}", NW) for t in self.threads],
              "call": [z3.BitVec(f"call_{t.name}_{s}", NW) for t in self.threads],
              "gen": {n: z3.BitVec(f"gen_{n}_{s}", SW) for n in self.notifies},
              "permit": {n: z3.BitVec(f"permit_{n}_{s}", SW) for n in self.notifies},
              "underflow": z3.Bool(f"underflow_{s}")}
        return st

    def _build(self):
        K, S = self.K, self.solver
        self.st = [self._mk_state(s) for s in range(K + 1)]
        self.who = [z3.BitVec(f"who_{s}", NW) for s in range(K)]
        self.moved = [z3.Bool(f"moved_{s}") for s in range(K)]
        st0 = self.st[0]
        for a in self.atomics:
            S.add(st0["val"][a] == self.world.atomic_init.get(a, 0))
        for c in self.chans:
            S.add(st0["len"][c] == 0)
        S.add(st0["underflow"] == False)
        for n in self.notifies:
            S.add(st0["gen"][n] == 0)
            S.add(st0["permit"][n] == 0)
        self.variant = []
        for ti, t in enumerate(self.threads):
            S.add(st0["call"][ti] == 0)
            vs = [z3.BitVec(f"variant_{t.name}_{ci}", NW) for ci in range(len(t.calls))]
            self.variant.append(vs)
            for ci, roots in enumerate(t.calls):
                S.add(z3.ULT(vs[ci], NV(len(roots))))
            # initial node: root of call 0 / chosen variant
            if t.calls:
                S.add(z3.Or([z3.And(vs[0] == k, st0["node"][ti] == r) for k, r in enumerate(t.calls[0])]))
            else:
                S.add(st0["node"][ti] == NV((1 << NW) - 1))
        for s in range(K):
            self._step(s)
        # optional context bound: number of preemptions (the scheduler leaves a thread that could still move)
        cb = getattr(self, "context_bound", None)
        if cb is not None:
            pre = []
            for s in range(K - 1):
                still = z3.Or([z3.And(self.who[s] == ti, z3.Or([c[5] for c in self.cases[s + 1] if c[0] == ti] or [z3.BoolVal(False)]))
                               for ti in range(len(self.threads))])
                pre.append(z3.If(z3.And(self.who[s] != self.who[s + 1], self.moved[s], self.moved[s + 1], still), z3.BitVecVal(1, 8), z3.BitVecVal(0, 8)))
            S.add(z3.ULE(z3.Sum(pre) if pre else z3.BitVecVal(0, 8), z3.BitVecVal(cb, 8)))

    def _chan_push(self, cur, nxt_updates, c, item):
        ln = cur["len"][c]
        for j in range(self.cap[c]):
            nxt_updates["buf"][c][j] = z3.If(ln == j, BV(item), cur["buf"][c][j])
        nxt_updates["len"][c] = ln + 1

    def _chan_pop(self, cur, nxt_updates, c):
        for j in range(self.cap[c]):
            nxt_updates["buf"][c][j] = cur["buf"][c][j + 1] if j + 1 < self.cap[c] else cur["buf"][c][j]
        nxt_updates["len"][c] = cur["len"][c] - 1

    def _step(self, s):
        S, cur, nxt = self.solver, self.st[s], self.st[s + 1]
        T = len(self.threads)
        S.add(z3.ULT(self.who[s], NV(T)))
        # candidate transitions: (condition, updates)
        cases = []
        enabled_any = []
        for ti, t in enumerate(self.threads):
            mind = self._min_depths(ti)
            for n in t.nodes:
                if n.leaf or n.op is None:
                    continue
                if mind.get(n.id, 0) > s:
                    continue          # the thread cannot have reached this node after only s steps
                at = z3.And(cur["node"][ti] == n.id)
                for guard, ch, _ in n.children:
                    # the transition n -> ch executes ch's operation (or finishes the call if ch is a leaf)
                    g = t.subst(guard, ch.names if not ch.leaf else ch.names)
                    upd = {"val": {}, "len": {}, "buf": {c: {} for c in self.chans}, "gen": {}, "permit": {}, "node": None, "call": None, "underflow": None}
                    en = z3.BoolVal(True)
                    extra = []
                    if ch.leaf:
                        # call finished: move to the next call's root (variant chosen by the solver) or stop
                        pass
                    else:
                        op, tg, arg = ch.op, ch.target, ch.arg
                        R, R2 = ch.ret, ch.ret2
                        if z3.is_expr(arg) and ch.names:
                            arg = z3.substitute(arg, *ch.names.values())
                        if op == "fetch_add":
                            extra.append(R == R64(cur["val"][tg]))
                            upd["val"][tg] = cur["val"][tg] + BV(arg)
                        elif op == "fetch_sub":
                            extra.append(R == R64(cur["val"][tg]))
                            upd["val"][tg] = cur["val"][tg] - BV(arg)
                            upd["underflow"] = z3.Or(cur["underflow"], z3.ULT(cur["val"][tg], BV(arg)))
                        elif op == "load":
                            extra.append(R == R64(cur["val"][tg]))
                        elif op == "store":
                            upd["val"][tg] = BV(arg)
                        elif op in ("spsc_try_send", "ready_try_send"):
                            full = cur["len"][tg] == self.cap[tg]
                            extra.append(R == z3.If(full, z3.BitVecVal(FULL, W), z3.BitVecVal(OK, W)))
                            tmp = {"buf": {tg: {}}, "len": {}}
                            self._chan_push(cur, tmp, tg, arg)
                            upd["len"][tg] = z3.If(full, cur["len"][tg], tmp["len"][tg])
                            for j in range(self.cap[tg]):
                                upd["buf"][tg][j] = z3.If(full, cur["buf"][tg][j], tmp["buf"][tg][j])
                        elif op in ("spsc_send_await", "ready_send_await"):
                            en = z3.ULT(cur["len"][tg], BV(self.cap[tg]))
                            extra.append(R == OK)
                            tmp = {"buf": {tg: {}}, "len": {}}
                            self._chan_push(cur, tmp, tg, arg)
                            upd["len"][tg] = tmp["len"][tg]
                            for j in range(self.cap[tg]):
                                upd["buf"][tg][j] = tmp["buf"][tg][j]
                        elif op in ("spsc_try_recv", "ready_try_recv"):
                            empty = cur["len"][tg] == 0
                            extra.append(R == z3.If(empty, z3.BitVecVal(EMPTY, W), z3.BitVecVal(OK, W)))
                            extra.append(z3.Implies(z3.Not(empty), R2 == R64(cur["buf"][tg][0])))
                            tmp = {"buf": {tg: {}}, "len": {}}
                            self._chan_pop(cur, tmp, tg)
                            upd["len"][tg] = z3.If(empty, cur["len"][tg], tmp["len"][tg])
                            for j in range(self.cap[tg]):
                                upd["buf"][tg][j] = z3.If(empty, cur["buf"][tg][j], tmp["buf"][tg][j])
                        elif op == "ready_recv_await":
                            en = z3.UGT(cur["len"][tg], BV(0))
                            extra.append(R == OK)
                            extra.append(R2 == R64(cur["buf"][tg][0]))
                            tmp = {"buf": {tg: {}}, "len": {}}
                            self._chan_pop(cur, tmp, tg)
                            upd["len"][tg] = tmp["len"][tg]
                            for j in range(self.cap[tg]):
                                upd["buf"][tg][j] = tmp["buf"][tg][j]
                        elif op == "notify_register":
                            extra.append(R == R64(cur["gen"][tg]))
                        elif op == "notify_all":
                            upd["gen"][tg] = cur["gen"][tg] + BV(1)
                        elif op == "notify_one":
                            # tokio: wakes one waiting task, or stores a single permit for the next notified().await
                            upd["permit"][tg] = BV(1)
                        elif op == "notify_await":
                            by_all = z3.UGT(cur["gen"][tg], BV(arg))
                            en = z3.Or(by_all, cur["permit"][tg] == 1)
                            upd["permit"][tg] = z3.If(by_all, cur["permit"][tg], BV(0))
                        elif op == "mutex_lock":
                            en = cur["val"][tg] == BV(0)
                            upd["val"][tg] = BV(1)
                        elif op == "mutex_unlock":
                            upd["val"][tg] = BV(0)
                        elif op == "env_call":
                            pass           # a call into the environment: no shared-state effect, any result of its domain
                        elif op == "spsc_len":
                            extra.append(R == R64(cur["len"][tg]))
                        else:
                            raise NotImplementedError(op)
                    # guard over result variables: evaluated with the results of *this* step included
                    cond = z3.And(self.who[s] == ti, at, en, *extra, g)
                    cases.append((ti, n, ch, cond, upd, z3.And(at, en, g)))
        # exactly the chosen thread moves along one enabled transition, or nothing is enabled for it (stutter)
        self.cases = getattr(self, "cases", {})
        self.cases[s] = cases
        conds = [c[3] for c in cases]
        S.add(self.moved[s] == z3.Or(conds) if conds else self.moved[s] == False)
        # a thread may only stutter if it cannot move: the scheduler must pick an enabled thread when one exists
        any_enabled = z3.Or([c[5] for c in cases]) if cases else z3.BoolVal(False)
        self.any_enabled = getattr(self, "any_enabled", []) + [any_enabled]
        S.add(z3.Implies(any_enabled, self.moved[s]))
        # next-state functions
        def fold(getter, default):
            e = default
            for ti, n, ch, cond, upd, _ in cases:
                v = getter(upd)
                if v is not None:
                    e = z3.If(cond, v, e)
            return e
        for a in self.atomics:
            S.add(nxt["val"][a] == fold(lambda u, a=a: u["val"].get(a), cur["val"][a]))
        for c in self.chans:
            S.add(nxt["len"][c] == fold(lambda u, c=c: u["len"].get(c), cur["len"][c]))
            for j in range(self.cap[c]):
                S.add(nxt["buf"][c][j] == fold(lambda u, c=c, j=j: u["buf"][c].get(j), cur["buf"][c][j]))
        S.add(nxt["underflow"] == fold(lambda u: u["underflow"], cur["underflow"]))
        for n_ in self.notifies:
            S.add(nxt["gen"][n_] == fold(lambda u, n_=n_: u["gen"].get(n_), cur["gen"][n_]))
            S.add(nxt["permit"][n_] == fold(lambda u, n_=n_: u["permit"].get(n_), cur["permit"][n_]))
        for ti, t in enumerate(self.threads):
            e_node, e_call = cur["node"][ti], cur["call"][ti]
            for tj, n, ch, cond, upd, _ in cases:
                if tj != ti:
                    continue
                if ch.leaf:
                    # which call does this leaf belong to? the current one: advance
                    nxt_call = cur["call"][ti] + NV(1)
                    opts = []
                    for ci, roots in enumerate(t.calls):
                        for k, r in enumerate(roots):
                            opts.append(z3.And(nxt_call == ci, self.variant[ti][ci] == k, nxt["node"][ti] == r))
                    done = z3.And(z3.UGE(nxt_call, NV(len(t.calls))), nxt["node"][ti] == NV((1 << NW) - 1 - ch.id))
                    S.add(z3.Implies(cond, z3.And(nxt["call"][ti] == nxt_call, z3.Or(opts + [done]))))
                else:
                    S.add(z3.Implies(cond, z3.And(nxt["node"][ti] == ch.id, nxt["call"][ti] == cur["call"][ti])))
            mine = [c[3] for c in cases if c[0] == ti]
            moved_me = z3.Or(mine) if mine else z3.BoolVal(False)
            S.add(z3.Implies(z3.Not(moved_me), z3.And(nxt["node"][ti] == cur["node"][ti], nxt["call"][ti] == cur["call"][ti])))

    def _min_depths(self, ti):
        """fewest own transitions needed to reach each node from the thread's start"""
        cache = self.__dict__.setdefault("_mind", {})
        if ti in cache:
            return cache[ti]
        t = self.threads[ti]
        best = {}
        def walk(nid, d):
            if best.get(nid, 10 ** 9) <= d:
                return 10 ** 9
            best[nid] = d
            n = t.nodes[nid]
            m = 10 ** 9
            for _, c, _ in n.children:
                if c.leaf:
                    m = min(m, d + 1)
                else:
                    m = min(m, walk(c.id, d + 1))
            return m
        start = 0
        for roots in t.calls:
            ends = [walk(r, start) for r in roots]
            start = min(ends) if ends else start
        cache[ti] = best
        return best

    # ---- queries
    def finished(self, ti, s):
        return z3.UGE(self.st[s]["node"][ti], NV(1 << (NW - 1)))

    def at_op(self, ti, s, opname):
        """thread ti is about to execute `opname` (its guard holds) in state s"""
        t = self.threads[ti]
        alts = []
        for n in t.nodes:
            if n.leaf or n.op is None:
                continue
            for guard, c, _ in n.children:
                if (not c.leaf) and c.op == opname:
                    alts.append(z3.And(self.st[s]["node"][ti] == n.id, t.subst(guard, c.names)))
        return z3.Or(alts) if alts else z3.BoolVal(False)

    def blocked_at(self, ti, s, opname):
        """thread ti's next operation is `opname` (guard holds) and it is not enabled in state s"""
        t = self.threads[ti]
        alts = []
        for c in self.cases.get(min(s, self.K - 1), []):
            pass
        for n in t.nodes:
            if n.leaf or n.op is None:
                continue
            for guard, c, _ in n.children:
                if (not c.leaf) and c.op == opname:
                    alts.append((n, c, guard))
        return alts

    def reached_leaf(self, ti, s, pred):
        t = self.threads[ti]
        ids = [n.id for n in t.nodes if n.leaf and pred(n)]
        # a finished thread records the last leaf as -1-id; intermediate leaves are passed through: use moved transitions
        return z3.Or([self.st[s]["node"][ti] == NV((1 << NW) - 1 - i) for i in ids]) if ids else z3.BoolVal(False)

    def check(self, bad, timeout_ms=600000):
        self.solver.push()
        self.solver.add(bad)
        self.solver.set("timeout", timeout_ms)
        t0 = time.time()
        r = self.solver.check()
        dt = time.time() - t0
        model = self.solver.model() if r == z3.sat else None
        self.solver.pop()
        return r, model, dt

    def schedule(self, model):
        out = []
        for s in range(self.K):
            if not z3.is_true(model.eval(self.moved[s], model_completion=True)):
                continue
            ti = model.eval(self.who[s]).as_long()
            t = self.threads[ti]
            nid = model.eval(self.st[s + 1]["node"][ti]).as_long()
            if nid < (1 << (NW - 1)) and not t.nodes[nid].leaf and t.nodes[nid].op != "start":
                n = t.nodes[nid]
                r = model.eval(n.ret, model_completion=True).as_long()
                out.append(f"{t.name}: {n.op}({n.target}{',' + str(n.arg) if n.arg is not None else ''}) -> {r}")
            else:
                out.append(f"{t.name}: (call boundary)")
        return out
