"""C08 scenarios: producers x items x consumer dequeue calls over the ReadyPipeQueue CFAs."""
from __future__ import annotations
import time
import z3
from ..mirsym.parser import MirProgram
from . import rpq
from .extract import extract_call
from .bmc import ThreadProg, System, BV, W


def build(prog, npipes, cap, ready_cap, items_per_producer, consumer_calls, producer_modes=("send", "try_send"),
          consumer_modes=("pop", "try_pop"), last_call_blocking=True, max_ops=None, pop_ops=None, batch=False, filtered=False, pre_items=0):
    setup = rpq.setup(npipes, cap, ready_cap)
    trees, functions = {}, set()
    def tree(kind, *a):
        key = (kind,) + a
        if key not in trees:
            call = {"send": rpq.call_send, "try_send": rpq.call_try_send, "try_send_batch": rpq.call_try_send_batch,
                    "try_send_batch_filtered": rpq.call_try_send_batch_filtered,
                    "pop": lambda: rpq.call_pop(), "try_pop": lambda: rpq.call_try_pop()}[kind](*a)
            mo = {"send": 8, "try_send": 7, "try_send_batch": 6 + 2 * items_per_producer, "try_send_batch_filtered": 6 + 2 * items_per_producer,
                  "pop": pop_ops or (4 + 2 * (npipes * (items_per_producer + pre_items))), "try_pop": 8}[kind]
            trees[key] = extract_call(prog, setup, call, kind, max_ops=mo, max_paths=3000)
            trees[key].name = kind
            functions.update(trees[key].functions)
        return trees[key]
    threads = []
    for p in range(npipes):
        t = ThreadProg(f"prod{p}", "producer")
        if batch:
            # one batched enqueue of all items, or (solver's choice) the items one by one is a different scenario
            for k in range(pre_items):
                # the pipe already holds item(s) (and is on the ready list) when the batch arrives
                t.add_call([tree("try_send", p, 10 * (p + 1) + 5 + k)])
            items = tuple(10 * (p + 1) + k for k in range(items_per_producer))
            t.add_call([tree("try_send_batch_filtered" if filtered else "try_send_batch", p, items)])
        else:
            for k in range(items_per_producer):
                item = 10 * (p + 1) + k
                t.add_call([tree(m, p, item) for m in producer_modes])
        threads.append(t)
    c = ThreadProg("cons", "consumer")
    for i in range(consumer_calls):
        modes = consumer_modes if not (last_call_blocking and i == consumer_calls - 1) else ("pop",)
        c.add_call([tree(m) for m in modes])
    threads.append(c)
    world = next(iter(trees.values())).paths[0]["world"]
    K = 0
    for t in threads:
        for ci, roots in enumerate(t.calls):
            K += 1 + max(_depth(t, r) for r in roots)
    return world, threads, K, functions, trees


def _depth(t, rid):
    n = t.nodes[rid]
    if not n.children:
        return 0
    return 1 + max(_depth(t, c.id) for _, c, _ in n.children)


def slot_atomics(world):
    out = []
    for p in world.slot_ptrs:
        slot = p.load()
        out.append((slot.f[3].name, slot.f[4].name, slot.f[1].name))      # reserved, queued, data channel
    return out


QUERIES = ["cover.consumer-completes", "lost-wakeup", "counter-underflow", "reserved-below-queued", "panic-reachable", "loop-bound-exceeded"]


def run_scenario(prog, cfg, timeout_ms=900000, only=None):
    t0 = time.time()
    world, threads, K, functions, trees = build(prog, **{k: v for k, v in cfg.items() if k not in ("K", "context_bound")})
    K = cfg.get("K", K)
    sysm = System(world, threads, K, context_bound=cfg.get("context_bound"))
    build_s = time.time() - t0
    nprod = len(threads) - 1
    cons = nprod
    slots = slot_atomics(world)
    ready = [c for c in world.chans if c.startswith("ready")][0]
    res = {"K": K, "threads": [t.name for t in threads], "nodes": sum(len(t.nodes) for t in threads), "build_s": round(build_s, 2),
           "queries": [], "functions": sorted(functions), "paths": {k[0]: len(v.paths) for k, v in trees.items()}}
    def q(name, bad, expect_unsat=True):
        if only is not None and name != only:
            return None
        r, m, dt = sysm.check(bad, timeout_ms)
        entry = {"name": name, "result": str(r), "solver_s": round(dt, 2), "expect": "unsat" if expect_unsat else "sat"}
        if r == z3.sat:
            entry["schedule"] = sysm.schedule(m)
            entry["variants"] = {str(v): m.eval(v, model_completion=True).as_long() for vs in sysm.variant for v in vs}
        res["queries"].append(entry)
        return r
    # vacuity witness: a complete run in which the consumer finishes all its calls
    q("cover.consumer-completes", z3.Or([sysm.finished(cons, s) for s in range(1, K + 1)]), expect_unsat=False)
    # lost wake-up: producers done, consumer parked on the ready list, ready list empty, a message is queued
    lost = []
    for s in range(K + 1):
        st = sysm.st[s]
        prods_done = z3.And([sysm.finished(p, s) for p in range(nprod)])
        parked = z3.And(sysm.at_op(cons, s, "ready_recv_await"), st["len"][ready] == 0)
        queued = z3.Or([z3.UGT(st["len"][ch], BV(0)) for _, _, ch in slots])
        lost.append(z3.And(prods_done, parked, queued))
    q("lost-wakeup", z3.Or(lost))
    # C09: the awaits on the ready list inside send() (arming, after the item is committed) and pop() (re-arming,
    # after the item was taken) never suspend - so they are not cancellation points. Requested explicitly by C09.
    if only == "ready-list-send-suspends":
        susp = []
        for s in range(K + 1):
            full = sysm.st[s]["len"][ready] == BV(sysm.cap[ready])
            for ti in range(len(threads)):
                susp.append(z3.And(sysm.at_op(ti, s, "ready_send_await"), full))
        q("ready-list-send-suspends", z3.Or(susp))
    # counter discipline
    q("counter-underflow", sysm.st[K]["underflow"])
    inv = []
    for s in range(K + 1):
        for r_, q_, ch in slots:
            inv.append(z3.ULT(sysm.st[s]["val"][r_], sysm.st[s]["val"][q_]))
    q("reserved-below-queued", z3.Or(inv))
    # panics (debug_assert!(prev > 0)) and loop bounds
    pan, trunc = [], []
    for s, cases in sysm.cases.items():
        for ti, n, ch, cond, upd, _ in cases:
            if ch.leaf and isinstance(ch.outcome, tuple) and ch.outcome and ch.outcome[0] == "panic":
                pan.append(cond)
            if ch.leaf and ch.truncated:
                trunc.append(cond)
    q("panic-reachable", z3.Or(pan) if pan else z3.BoolVal(False))
    q("loop-bound-exceeded", z3.Or(trunc) if trunc else z3.BoolVal(False))
    res["wall_s"] = round(time.time() - t0, 2)
    return res
