"""Writes MANIFEST.json from the registry (claimed properties) and the N/A table."""
import json, os, sys
from .common import VERIF
from . import registry

NA = registry.NOT_APPLICABLE


def main():
    checks = []
    for pid, spec in sorted(registry.PROPERTIES.items()):
        m = spec["manifest"]
        checks.append({
            "property_id": pid,
            "quick_cmd": f"bin/check {pid} --tier quick",
            "thorough_cmd": f"bin/check {pid} --tier thorough",
            "evidence_file": f"/verif/evidence/{pid}.json",
            "replay_cmd_template": "cat {path}",
            "engine": m["engine"],
            "level_claimed": {"category": "model_checking", "text": m["text"], "design_ref": m["design_ref"]},
            "level_note": m["note"],
            "technique": m["technique"],
        })
    man = {
        "version": 1,
        "setup_cmd": "bin/setup",
        "hooks": {
            "guard": "cfg(any(rzmq_verif, kani))",
            "enable": "Kani sets --cfg kani for the path dependency /repo/core; native replays build with RUSTFLAGS='--cfg rzmq_verif'. mirsym / cfa-bmc read rustc's MIR dump and need no hook.",
            "baseline_off_cmd": "cd /repo && cargo test --workspace --no-fail-fast --offline",
            "source_commits": registry.HOOK_COMMITS,
            "add_only": True,
        },
        "engines": [
            {"name": "kani", "path": "/verif/kani", "serves_properties": sorted(p for p, s in registry.PROPERTIES.items() if s.get("kani")),
             "kind_free_text": "Kani 0.68 / CBMC 6.11 proof harnesses over the compiled real crate (path dependency), bounded, unwinding assertions on"},
            {"name": "mirsym", "path": "/verif/verifkit/mirsym", "serves_properties": sorted(p for p, s in registry.PROPERTIES.items() if s.get("mirsym")),
             "kind_free_text": "own symbolic executor over rustc's MIR dump of /repo/core (regenerated every run), z3 bit-vectors, replay-based path forking"},
            {"name": "cfabmc", "path": "/verif/verifkit/cfabmc", "serves_properties": sorted(p for p, s in registry.PROPERTIES.items() if s.get("cfabmc")),
             "kind_free_text": "control-flow automata extracted from MIR + symbolic scheduler unrolled in z3 (interleavings as solver variables)"},
        ],
        "checks": checks,
        "not_applicable": [{"property_id": k, "reason": v} for k, v in sorted(NA.items()) if k not in registry.PROPERTIES],
        "notes": "Every check is bounded solver-based checking of the real code; bounds are in each evidence file. exit 0 = all obligations discharged; 1 = replay-confirmed violation; 2 = inconclusive (never a pass).",
    }
    with open(os.path.join(VERIF, "MANIFEST.json"), "w") as f:
        json.dump(man, f, indent=1)
    print("wrote MANIFEST.json with", len(checks), "checks,", len(man["not_applicable"]), "n/a")


if __name__ == "__main__":
    main()
