"""Value domain of mirsym.

Integers: python int (concrete, stored unsigned modulo 2^w) or z3 BitVecRef (symbolic).
Booleans: python bool or z3 BoolRef.
Composite values carry a list `f` of children; references are (cell, path) pairs.
"""
from __future__ import annotations
import re
import z3

INT_W = {"u8": 8, "u16": 16, "u32": 32, "u64": 64, "u128": 128, "usize": 64,
         "i8": 8, "i16": 16, "i32": 32, "i64": 64, "i128": 128, "isize": 64, "char": 32, "bool": 1}
SIGNED = {"i8", "i16", "i32", "i64", "i128", "isize"}


def int_width(ty: str):
    return INT_W.get(ty.strip())


def is_sym(v):
    return isinstance(v, z3.ExprRef)


def mask(v: int, w: int) -> int:
    return v & ((1 << w) - 1)


def to_signed(v: int, w: int) -> int:
    v = mask(v, w)
    return v - (1 << w) if v >> (w - 1) else v


def bv(v, w):
    """coerce to z3 bitvector of width w"""
    if isinstance(v, bool):
        v = int(v)
    if isinstance(v, int):
        return z3.BitVecVal(mask(v, w), w)
    if z3.is_bool(v):
        return z3.If(v, z3.BitVecVal(1, w), z3.BitVecVal(0, w))
    if v.size() == w:
        return v
    raise TypeError(f"width mismatch {v.size()} vs {w}: {v}")


def bl(v):
    """coerce to z3 Bool"""
    if isinstance(v, bool):
        return z3.BoolVal(v)
    if isinstance(v, int):
        return z3.BoolVal(v != 0)
    if z3.is_bool(v):
        return v
    return v != z3.BitVecVal(0, v.size())


def simp(e):
    if is_sym(e):
        e = z3.simplify(e)
        if z3.is_bv_value(e):
            return e.as_long()
        if z3.is_true(e):
            return True
        if z3.is_false(e):
            return False
    return e


class Cell:
    __slots__ = ("v", "name")

    def __init__(self, v=None, name=""):
        self.v, self.name = v, name


class Agg:
    """struct / tuple / array / closure environment"""
    __slots__ = ("ty", "f")

    def __init__(self, ty, f):
        self.ty, self.f = ty, f

    def __repr__(self):
        return f"Agg<{self.ty}>{self.f}"


class Enum:
    __slots__ = ("ty", "idx", "vname", "f")

    def __init__(self, ty, idx, vname, f):
        self.ty, self.idx, self.vname, self.f = ty, idx, vname, f

    def __repr__(self):
        return f"{self.ty.split('::')[-1]}::{self.vname}{self.f if self.f else ''}"


class Ref:
    """pointer to a place: cell + path of child indexes. `dyn_ty`: concrete type behind a dyn pointer."""
    __slots__ = ("cell", "path", "dyn_ty")

    def __init__(self, cell, path=(), dyn_ty=None):
        self.cell, self.path, self.dyn_ty = cell, path, dyn_ty

    def child(self, i):
        return Ref(self.cell, self.path + (i,), None)

    def load(self):
        v = self.cell.v
        for i in self.path:
            if type(v) is SharedEnumV:
                v = v.snapshot()
            v = v.f[i]
        return v

    def store(self, val):
        if not self.path:
            self.cell.v = val
            return
        v = self.cell.v
        for i in self.path[:-1]:
            v = v.f[i]
        old = v.f[self.path[-1]]
        if type(old) is SharedEnumV:
            old.writer(val.idx)
            return
        v.f[self.path[-1]] = val

    def __repr__(self):
        return f"&{self.cell.name}{list(self.path) if self.path else ''}"


class BoxV(Ref):
    """owning pointer (Box / Arc / Rc): same representation as Ref; sharing is harmless because
    a moved-from Box is dead and Arc contents are only mutated through interior-mutability models."""
    __slots__ = ()


class SliceRef:
    """fat pointer &[T] / &str / &mut [T]: window [start, start+len) of a list-like container"""
    __slots__ = ("base", "start", "len", "is_str")

    def __init__(self, base, start: int, length: int, is_str=False):
        if not isinstance(base, Ref):
            base = Ref(Cell(base, "tmp"), ())
        self.base, self.start, self.len, self.is_str = base, start, length, is_str

    def items(self):
        return self.base.load().f[self.start:self.start + self.len]

    def get(self, i):
        return self.base.load().f[self.start + i]

    def set(self, i, v):
        self.base.load().f[self.start + i] = v

    def elem_ref(self, i):
        return self.base.child(self.start + i)

    def __repr__(self):
        return f"&[{self.start}..+{self.len}]"


class Seq:
    """list-like heap containers: Vec<T>, VecDeque<T>, BytesMut, Bytes, String, arrays-as-storage"""
    __slots__ = ("kind", "f", "elem_ty")

    def __init__(self, kind, f, elem_ty="u8"):
        self.kind, self.f, self.elem_ty = kind, f, elem_ty

    def __repr__(self):
        def b(x):
            return f"{x:02x}" if isinstance(x, int) else "??"
        if self.elem_ty == "u8" and len(self.f) <= 64:
            return f"{self.kind}[{' '.join(b(x) for x in self.f)}]"
        return f"{self.kind}(len={len(self.f)})"


class MapV:
    """HashMap / BTreeMap as association list; keys compared structurally (concrete) or via solver"""
    __slots__ = ("kind", "items")

    def __init__(self, kind="HashMap", items=None):
        self.kind, self.items = kind, items if items is not None else []

    @property
    def f(self):
        # children addressable as flat list [k0, v0, k1, v1, ...] is not needed; values via vref
        return [kv[1] for kv in self.items]


class SharedEnumV:
    """An enum-typed shared variable (e.g. a state machine behind a Mutex) whose reads and writes are
    visible operations of cfa-bmc. `reader()` returns the current variant index (possibly after forking on a
    fresh result variable); `writer(idx)` records a store."""
    __slots__ = ("ty", "variants", "payloads", "reader", "writer")

    def __init__(self, ty, variants, payloads, reader, writer):
        self.ty, self.variants, self.payloads, self.reader, self.writer = ty, variants, payloads, reader, writer

    def snapshot(self):
        i = self.reader()
        return Enum(self.ty, i, self.variants[i], list(self.payloads.get(i, [])))


class FnItem:
    __slots__ = ("name",)

    def __init__(self, name):
        self.name = name

    def __repr__(self):
        return f"fn {self.name}"


class Opaque:
    """value whose content no property depends on (formatted strings, tracing handles, ...)"""
    __slots__ = ("what",)

    def __init__(self, what=""):
        self.what = what

    def __repr__(self):
        return f"<opaque {self.what}>"


class SparseF(dict):
    """field storage of coroutine objects: upvars at 0.., per-variant saved locals at (variant+1)*1000+k,
    'state' = resume point"""

    def __init__(self, vals=()):
        super().__init__({i: v for i, v in enumerate(vals)})
        self["state"] = 0

    def __getitem__(self, k):
        return dict.get(self, k)


UNIT = Agg("()", [])


def clone_val(v):
    """structural copy for copy/move of composite values (pointers are shared)"""
    if isinstance(v, Agg):
        if isinstance(v.f, SparseF):
            n = SparseF()
            for k, x in v.f.items():
                n[k] = clone_val(x)
            return Agg(v.ty, n)
        return Agg(v.ty, [clone_val(x) for x in v.f])
    if isinstance(v, Enum):
        return Enum(v.ty, v.idx, v.vname, [clone_val(x) for x in v.f])
    if isinstance(v, Seq):
        return Seq(v.kind, [clone_val(x) for x in v.f] if v.elem_ty != "u8" else list(v.f), v.elem_ty)
    if isinstance(v, MapV):
        return MapV(v.kind, [(clone_val(k), clone_val(x)) for k, x in v.items])
    return v


def strip_generics(path: str) -> str:
    """remove ::<...> turbofish and <...> generic args of a path; `<impl ...>` segments are kept
    (with their own generics removed and `[X]` normalised to `[T]`)"""
    out, i, n = [], 0, len(path)
    while i < n:
        c = path[i]
        if c == "<" and not (i > 0 and path[i - 1] == "-"):
            # find the matching '>'
            depth, j = 0, i
            while j < n:
                if path[j] == "<":
                    depth += 1
                elif path[j] == ">" and not (j > 0 and path[j - 1] in "-="):
                    depth -= 1
                    if depth == 0:
                        break
                j += 1
            seg = path[i:j + 1]
            if seg.startswith("<impl ") and (i == 0 or path[i - 2:i] == "::"):
                inner = seg[6:-1]
                if inner.startswith("["):
                    inner = "[T]"
                else:
                    inner = strip_generics(inner)
                out.append("<impl " + inner + ">")
            elif i == 0:
                out.append(seg)           # <T as Trait>::...  left to the caller
            else:
                if out[-2:] == [":", ":"]:
                    out = out[:-2]
            i = j + 1
            continue
        out.append(c)
        i += 1
    return "".join(out)
