"""dev helper: explore one driver and print a compact summary"""
import sys, json, time
from .explore import explore
from ..mirdump import mir_path
mod, fn = sys.argv[1], sys.argv[2]
budget = float(sys.argv[3]) if len(sys.argv) > 3 else 300
from ..common import REPO as _REPO
import os
_params = json.loads(os.environ.get("RUN1_PARAMS", "{}"))
s = explore(mir_path(os.environ.get("MIR_FEATURES", "default")), _REPO + "/core", ("verifkit.mirsym.drivers." + mod, fn), opts={"seed": 0, "solver_timeout_ms": 30000, "params": _params}, time_budget_s=budget)
print({k: v for k, v in s.items() if k in ("paths", "ok", "aborted", "panic", "unsupported", "crash", "queries", "checks", "complete", "wall_s", "steps")})
print("solver_s", round(s["solver_s"], 2))
seen = set()
for n in s["notes"]:
    k = n[:90]
    if k not in seen:
        seen.add(k)
        print("NOTE", n[:400])
    if len(seen) > 8:
        break
roles = {}
for role, desc, m in s["failures"]:
    roles.setdefault(role, []).append((desc, m))
for r, v in roles.items():
    print("FAIL", r, len(v), v[0][0][:200])
    print("   model", {k: x for k, x in list(v[0][1].items())[:200] if not k.startswith("peer[") or True} if len(v[0][1]) < 40 else json.dumps(v[0][1])[:1500])
print("COVERS", {k: (v is not None) for k, v in s["covers"].items()})
print("models", len(s["models"]), "fns", len(s["called"]))
fs = sorted(s.get("fork_sites", {}).items(), key=lambda kv: -kv[1])[:8]
import re as _re
for k, v in fs:
    print("FORKS", v, _re.sub(r"<impl at [^>]*>", "<impl>", k))
