"""Backward data-flow slice over the MIR text of one function.

Used by drivers that execute a kernel with a value the surrounding (too large to execute) function computes for it:
the slice tells which expression of the real code produces that value at the creation site, so that the driver feeds
the kernel what the current tree feeds it (and not what the tree fed it when the driver was written)."""
import re

_LOCAL = re.compile(r"\b_(\d+)\b")


def _split_assign(code):
    """'<place> = <rhs>' -> (root local of place, rhs) or None"""
    depth = 0
    for i, ch in enumerate(code):
        if ch in "([{<":
            depth += 1
        elif ch in ")]}>":
            depth -= 1
        elif depth == 0 and code.startswith(" = ", i):
            lhs, rhs = code[:i], code[i + 3:]
            m = _LOCAL.search(lhs)
            if not m:
                return None
            return int(m.group(1)), lhs.strip(), rhs
    return None


_COROFIELD = re.compile(r"\(\(\*_(\d+)\) as variant#(\d+)\)\.(\d+)")


def _field_sensitive(code, table):
    """fields of a coroutine's state ('((*_N) as variant#V).K', where async fns keep their variables across awaits) become
    locals of their own, so that the slice does not merge everything that lives in the coroutine"""
    def rep(m):
        key = (int(m.group(1)), int(m.group(2)), int(m.group(3)))
        if key not in table:
            table[key] = 1000000 + len(table)
        return f"_{table[key]}"
    return _COROFIELD.sub(rep, code)


def definitions(body):
    """local -> [(lhs, rhs, loc)] for every statement and call terminator that writes (part of) the local"""
    defs = {}
    table = {}
    for bb, stmts in body.blocks.items():
        for code, loc in stmts:
            c = _field_sensitive(code.strip(), table)
            if c.startswith(("StorageLive", "StorageDead", "drop(", "goto", "switchInt", "return", "unreachable", "resume", "assert(",
                             "FakeRead", "PlaceMention", "nop", "Retag", "falseEdge", "falseUnwind", "discriminant(")):
                continue
            r = _split_assign(c)
            if r is None:
                continue
            root, lhs, rhs = r
            k = rhs.find(" -> [")
            if k >= 0:
                rhs = rhs[:k]
            defs.setdefault(root, []).append((lhs, rhs, loc))
    return defs


def backward_slice(body, local, field=None):
    """[(lhs, rhs, loc)] of all definitions the value of `local` (or of its tuple field `field`) can come from.
    Tuple construction followed by a field read is followed per field; everything else is followed conservatively
    (every local mentioned on the right-hand side)."""
    defs = definitions(body)
    out, seen, work = [], set(), [(local, field)]
    while work:
        l, fld = work.pop()
        if (l, fld) in seen:
            continue
        seen.add((l, fld))
        for lhs, rhs, loc in defs.get(l, []):
            out.append((lhs, rhs, loc))
            r = rhs.strip()
            # tuple aggregate read through one field
            if fld is not None and r.startswith("(") and r.endswith(")") and not r.startswith("(*") and lhs == f"_{l}":
                parts = _top_split(r[1:-1])
                if fld < len(parts):
                    for m in _LOCAL.finditer(parts[fld]):
                        work.append((int(m.group(1)), None))
                    continue
            m = re.match(r"^(?:copy|move) \(_(\d+)\.(\d+): ", r)
            if m:
                work.append((int(m.group(1)), int(m.group(2))))
                continue
            for m in _LOCAL.finditer(r):
                work.append((int(m.group(1)), None))
    return out


def _top_split(s):
    parts, depth, cur = [], 0, ""
    for ch in s:
        if ch in "([{<":
            depth += 1
        elif ch in ")]}>":
            depth -= 1
        if ch == "," and depth == 0:
            parts.append(cur)
            cur = ""
        else:
            cur += ch
    if cur.strip():
        parts.append(cur)
    return parts


def find_sites(prog, needle):
    """[(function name, raw statement)] of every statement in the dump containing `needle` (creation sites)"""
    import bisect
    starts = sorted((st, name) for name, st in prog.fn_index.items())
    keys = [st for st, _ in starts]
    out = []
    for i, ln in enumerate(prog.lines):
        if needle in ln and not ln.lstrip().startswith("//") and not ln.startswith("fn "):
            k = bisect.bisect_right(keys, i) - 1
            if k >= 0:
                out.append((starts[k][1], ln.strip()))
    return out


def value_source(body, local, field=None, max_hops=12):
    """Follows plain moves, copies and tuple packing backwards from `local` to the expression that computes the value:
    ("field", base local, field index, rhs) for a field read through a reference, ("call", callee text, [arg locals], rhs)
    for a call, ("other", rhs) for anything else (or when a local has several definitions)."""
    defs = definitions(body)
    l, fld = local, field
    for _ in range(max_hops):
        ds = [d for d in defs.get(l, []) if d[0] == f"_{l}"]
        if len(ds) != 1:
            return ("other", f"_{l} has {len(ds)} definitions")
        rhs = ds[0][1].strip()
        if fld is not None and rhs.startswith("(") and not rhs.startswith("(*"):
            parts = _top_split(rhs[1:-1])
            m = re.match(r"^\s*(?:copy|move) _(\d+)\s*$", parts[fld]) if fld < len(parts) else None
            if not m:
                return ("other", rhs)
            l, fld = int(m.group(1)), None
            continue
        m = re.match(r"^(?:copy|move) \(_(\d+)\.(\d+): [^()]*\)$", rhs)
        if m:
            l, fld = int(m.group(1)), int(m.group(2))
            continue
        m = re.match(r"^(?:copy|move) _(\d+)$", rhs)
        if m and fld is None:
            l = int(m.group(1))
            continue
        m = re.match(r"^copy \(\(\*_(\d+)\)\.(\d+): .*\)$", rhs)
        if m and fld is None:
            return ("field", int(m.group(1)), int(m.group(2)), rhs)
        k = rhs.rfind("(")
        if fld is None and rhs.endswith(")") and k > 0 and not rhs.startswith(("copy ", "move ", "&", "const ")):
            k = _call_open(rhs)
            args = [int(m.group(1)) for m in _LOCAL.finditer(rhs[k:])]
            return ("call", rhs[:k], args, rhs)
        return ("other", rhs)
    return ("other", "too many hops")


def _call_open(rhs):
    """index of the '(' that opens the argument list of a call expression `path(args)`"""
    depth = 0
    for i in range(len(rhs) - 1, -1, -1):
        ch = rhs[i]
        if ch == ")":
            depth += 1
        elif ch == "(":
            depth -= 1
            if depth == 0:
                return i
    return 0
