"""debug helper: python3-vt -m verifkit.mirsym.dbg module func [prefix-json] """
import sys, json, traceback, importlib
from .parser import MirProgram
from .interp import Interp, PathCtx
from .models import Models
from .explore import Harness
mir = __import__("os").environ.get("MIR", "/tmp/mirprobe/rzmq2.mir")
from ..common import REPO as _REPO
from ..mirdump import mir_path as _mp
prog = MirProgram(_mp(__import__("os").environ.get("MIR_FEATURES", "default")), _REPO + "/core")
mod, fn = sys.argv[1], sys.argv[2]
prefix = json.loads(sys.argv[3]) if len(sys.argv) > 3 else []
drv = getattr(importlib.import_module("verifkit.mirsym.drivers." + mod), fn)
ctx = PathCtx(prefix)
it = Interp(prog, ctx, Models())
h = Harness(it); h.params = json.loads(__import__("os").environ.get("RUN1_PARAMS", "{}"))
_force = json.loads(__import__("os").environ.get("FORCE_CHOICES", "{}"))       # {"label": value}: named driver choices taken without consuming the prefix
if _force:
    _orig_choose = h.choose
    def _choose(n, label=""):
        if label in _force:
            h.choices = getattr(h, "choices", []) + [(label, _force[label])]
            return _force[label]
        return _orig_choose(n, label)
    h.choose = _choose
try:
    drv(h)
    print("OK failures=", h.failures, "covers=", list(h.covers), "pending=", ctx.pending, "steps", it.steps)
except Exception as e:
    tb = traceback.format_exc().splitlines()
    print("\n".join(tb[-14:]))
    print("trace", ctx.trace, "pending", ctx.pending)
