"""C20 kernel: what the io_uring backend's connection handler does with the messages its engine decodes
(ZmtpUringHandler::{apply_engine_output, try_drain_spillover, attach_ingress, should_throttle_reads}; MIR dump built
with --features io-uring). The tokio session hands decoded messages to the socket's receive queue through an
awaited send; the io_uring handler runs on the worker thread and cannot wait, so it stashes what does not fit
("spillover"). The obligations are the delivery clauses the default backend meets: every decoded message reaches
the socket's queue exactly once, in order, none is dropped while the queue is full or before the socket has attached
its queue, and no more bytes are read from the peer while messages are stashed."""
import z3
from ..values import *
from ..models import ok, err, some, none, _deref, MapV
from .common import *

H = "io_uring_backend::zmtp_handler::ZmtpUringHandler"
AIE = "socket::patterns::anonymous_ingress::AnonymousIngressEngine"
RPQ = "socket::patterns::ready_pipe_queue::ReadyPipeQueue"
FEAT = ("ipc", "inproc", "plain", "io-uring")


def uring_ingress_delivery(h):
    from .d_c02 import _mk_msg, _tag
    from .d_c07 import _frames
    prog = h.it.prog
    k = h.params.get("ops", 5)
    cap = 1 + h.choose(2, "queue_capacity")
    cfg = mk_config(h, socket_type_name=string("PULL"))
    eng = mk_engine(h, True, cfg)
    ingress = Ref(Cell(h.method(AIE, "new", 4), "ingress"), ())
    fields = prog.struct_fields(H, features=FEAT)
    vals = {"fd": 7, "engine": eng.load(), "ingress_sender": none(), "spillover": Seq("vecdeque", [], "message::FrameBatch"),
            "is_throttled": Agg("{atomic}", [False]), "multishot_reader": none(), "is_closing": False, "close_deadline": none(),
            "use_send_zerocopy": False, "use_recv_multishot": False, "send_buffer_slot_size": 65536,
            "coalesce_scratch": Seq("vec", [], "message::FrameBatch"), "write_in_flight": 0}
    handler = Ref(Cell(Agg(H, [vals.get(f, Opaque(f)) for f in fields]), "handler"), ())
    h.check(all(f in fields for f in vals), "c20.ingress.setup-fields", str([f for f in vals if f not in fields]))
    # binding the worker's wake-up to the queue slot has no effect on what is delivered
    for nm in ("socket::patterns::ready_pipe_queue::PipeMessageSender", "socket::patterns::ready_pipe_queue::ReadyPipeSender"):
        fn = prog.resolve_method("", nm, "bind_uring_wakeup", None)
        if fn:
            h.it.hooks[fn] = lambda it, a, d, f: UNIT
    def extern(it, plain, args, dty, func):
        if plain.endswith("EventFD as std::clone::Clone>::clone") or plain.endswith("EventFD::clone"):
            return Opaque("eventfd")
        return NotImplemented
    h.it.extern = extern
    h.panic_role = "c20.ingress"
    EO = "protocol::zmtp::actions::EngineOutput"
    AA = "protocol::zmtp::actions::AppAction"
    avs = prog.enum_variants(AA)
    delivered, popped = [], []
    attached = False
    nxt = 0x10
    def queue_pop():
        r = h.method(AIE, "try_pop_raw", ingress) if prog.resolve_method("", AIE, "try_pop_raw", None) else None
        return r
    q = Ref(Cell(ingress.load().f[prog.struct_fields(AIE).index("queue")], "queue"), ())
    def pop_one():
        r = h.method(RPQ, "try_pop", q)
        if r.idx != 1:
            return False
        popped.append(_tag(_frames(r.f[0].f[1])[0]))
        return True
    def throttle_ok(where):
        sp = handler.load().f[fields.index("spillover")].f
        if sp:
            t = h.method(H, "should_throttle_reads", handler, trait="UringConnectionHandler")
            h.check(t is True, "c20.ingress.reads-not-throttled-while-messages-are-stashed", f"after {where}: {len(sp)} message(s) in the spillover")
            h.cover("c20.ingress.stashed")
    for i in range(k):
        op = h.choose(4, f"op{i}")          # 0 the engine decodes a message; 1 the socket attaches its queue; 2 the application reads one; 3 the worker drains the stash
        if op == 0:
            tag = nxt
            nxt += 1
            fb = Ref(Cell(h.method("message::FrameBatch", "new"), "fb"), ())
            h.method("message::FrameBatch", "push", fb, _mk_msg(h, tag, False))
            out = Agg(EO, [Seq("vec", [], "?"), Seq("vec", [Enum(AA, avs.index("DeliverMessage"), "DeliverMessage", [fb.load()])], AA)])
            ops = h.method(H, "apply_engine_output", handler, out)
            delivered.append(tag)
            throttle_ok("a delivery")
        elif op == 1:
            if attached:
                from ..interp import PathAbort
                raise PathAbort("already attached")
            snd = h.method(AIE, "register_pipe", ingress, 0, cap, 1)
            h.method(H, "attach_ingress", handler, snd, trait="UringConnectionHandler")
            attached = True
            # the worker flushes the stash when the queue is attached (UringWorker: attach then drain)
            h.method(H, "try_drain_spillover", handler)
            throttle_ok("attach")
        elif op == 2:
            pop_one()
        else:
            h.method(H, "try_drain_spillover", handler)
            throttle_ok("a drain")
        # nothing lost, duplicated or reordered so far: popped is a prefix of delivered
        h.check(popped == delivered[:len(popped)], "c20.ingress.messages-reach-the-application-out-of-order-or-twice", f"popped {popped}, decoded {delivered}")
    # epilogue: attach if necessary, then alternate drain / read until nothing moves
    if not attached:
        snd = h.method(AIE, "register_pipe", ingress, 0, cap, 1)
        h.method(H, "attach_ingress", handler, snd, trait="UringConnectionHandler")
    for _ in range(2 * len(delivered) + 2):
        h.method(H, "try_drain_spillover", handler)
        if not pop_one() and not handler.load().f[fields.index("spillover")].f:
            break
    h.check(popped == delivered, "c20.ingress.decoded-message-never-reached-the-socket-queue-or-order-changed",
            f"decoded {[hex(x) for x in delivered]}, the application got {[hex(x) for x in popped]}")
    h.cover("c20.ingress.all-delivered", len(delivered) >= 2)
