"""C20 kernel: what the io_uring backend's connection handler does with the messages its engine decodes
(ZmtpUringHandler::{apply_engine_output, try_drain_spillover, attach_ingress, should_throttle_reads}; MIR dump built
with --features io-uring). The tokio session hands decoded messages to the socket's receive queue through an
awaited send; the io_uring handler runs on the worker thread and cannot wait, so it stashes what does not fit
("spillover"). The obligations are the delivery clauses the default backend meets: every decoded message reaches
the socket's queue exactly once, in order, none is dropped while the queue is full or before the socket has attached
its queue, and no more bytes are read from the peer while messages are stashed."""
import z3
from ..values import *
from ..models import ok, err, some, none, _deref, MapV
from .common import *

H = "io_uring_backend::zmtp_handler::ZmtpUringHandler"
AIE = "socket::patterns::anonymous_ingress::AnonymousIngressEngine"
RPQ = "socket::patterns::ready_pipe_queue::ReadyPipeQueue"
FEAT = ("ipc", "inproc", "plain", "io-uring")


def uring_ingress_delivery(h):
    from .d_c02 import _mk_msg, _tag
    from .d_c07 import _frames
    prog = h.it.prog
    k = h.params.get("ops", 5)
    cap = 1 + h.choose(2, "queue_capacity")
    cfg = mk_config(h, socket_type_name=string("PULL"))
    eng = mk_engine(h, True, cfg)
    ingress = Ref(Cell(h.method(AIE, "new", 4), "ingress"), ())
    fields = prog.struct_fields(H, features=FEAT)
    vals = {"fd": 7, "engine": eng.load(), "ingress_sender": none(), "spillover": Seq("vecdeque", [], "message::FrameBatch"),
            "is_throttled": Agg("{atomic}", [False]), "multishot_reader": none(), "is_closing": False, "close_deadline": none(),
            "use_send_zerocopy": False, "use_recv_multishot": False, "send_buffer_slot_size": 65536,
            "coalesce_scratch": Seq("vec", [], "message::FrameBatch"), "write_in_flight": 0}
    handler = Ref(Cell(Agg(H, [vals.get(f, Opaque(f)) for f in fields]), "handler"), ())
    h.check(all(f in fields for f in vals), "c20.ingress.setup-fields", str([f for f in vals if f not in fields]))
    # binding the worker's wake-up to the queue slot has no effect on what is delivered
    for nm in ("socket::patterns::ready_pipe_queue::PipeMessageSender", "socket::patterns::ready_pipe_queue::ReadyPipeSender"):
        fn = prog.resolve_method("", nm, "bind_uring_wakeup", None)
        if fn:
            h.it.hooks[fn] = lambda it, a, d, f: UNIT
    def extern(it, plain, args, dty, func):
        if plain.endswith("EventFD as std::clone::Clone>::clone") or plain.endswith("EventFD::clone"):
            return Opaque("eventfd")
        return NotImplemented
    h.it.extern = extern
    h.panic_role = "c20.ingress"
    EO = "protocol::zmtp::actions::EngineOutput"
    AA = "protocol::zmtp::actions::AppAction"
    avs = prog.enum_variants(AA)
    delivered, popped = [], []
    attached = False
    nxt = 0x10
    def queue_pop():
        r = h.method(AIE, "try_pop_raw", ingress) if prog.resolve_method("", AIE, "try_pop_raw", None) else None
        return r
    q = Ref(Cell(ingress.load().f[prog.struct_fields(AIE).index("queue")], "queue"), ())
    def pop_one():
        r = h.method(RPQ, "try_pop", q)
        if r.idx != 1:
            return False
        popped.append(_tag(_frames(r.f[0].f[1])[0]))
        return True
    def throttle_ok(where):
        sp = handler.load().f[fields.index("spillover")].f
        if sp:
            t = h.method(H, "should_throttle_reads", handler, trait="UringConnectionHandler")
            h.check(t is True, "c20.ingress.reads-not-throttled-while-messages-are-stashed", f"after {where}: {len(sp)} message(s) in the spillover")
            h.cover("c20.ingress.stashed")
    for i in range(k):
        op = h.choose(4, f"op{i}")          # 0 the engine decodes a message; 1 the socket attaches its queue; 2 the application reads one; 3 the worker drains the stash
        if op == 0:
            tag = nxt
            nxt += 1
            fb = Ref(Cell(h.method("message::FrameBatch", "new"), "fb"), ())
            h.method("message::FrameBatch", "push", fb, _mk_msg(h, tag, False))
            out = Agg(EO, [Seq("vec", [], "?"), Seq("vec", [Enum(AA, avs.index("DeliverMessage"), "DeliverMessage", [fb.load()])], AA)])
            ops = h.method(H, "apply_engine_output", handler, out)
            delivered.append(tag)
            throttle_ok("a delivery")
        elif op == 1:
            if attached:
                from ..interp import PathAbort
                raise PathAbort("already attached")
            snd = h.method(AIE, "register_pipe", ingress, 0, cap, 1)
            h.method(H, "attach_ingress", handler, snd, trait="UringConnectionHandler")
            attached = True
            # the worker flushes the stash when the queue is attached (UringWorker: attach then drain)
            h.method(H, "try_drain_spillover", handler)
            throttle_ok("attach")
        elif op == 2:
            pop_one()
        else:
            h.method(H, "try_drain_spillover", handler)
            throttle_ok("a drain")
        # nothing lost, duplicated or reordered so far: popped is a prefix of delivered
        h.check(popped == delivered[:len(popped)], "c20.ingress.messages-reach-the-application-out-of-order-or-twice", f"popped {popped}, decoded {delivered}")
    # epilogue: attach if necessary, then alternate drain / read until nothing moves
    if not attached:
        snd = h.method(AIE, "register_pipe", ingress, 0, cap, 1)
        h.method(H, "attach_ingress", handler, snd, trait="UringConnectionHandler")
    for _ in range(2 * len(delivered) + 2):
        h.method(H, "try_drain_spillover", handler)
        if not pop_one() and not handler.load().f[fields.index("spillover")].f:
            break
    h.check(popped == delivered, "c20.ingress.decoded-message-never-reached-the-socket-queue-or-order-changed",
            f"decoded {[hex(x) for x in delivered]}, the application got {[hex(x) for x in popped]}")
    h.cover("c20.ingress.all-delivered", len(delivered) >= 2)


def uring_egress_order(h):
    """send side of the io_uring handler: ZmtpUringHandler::{prepare_sqes, handle_internal_sqe_completion} with a real
    engine in the Data phase. Steps: the socket queues a message for the connection, the worker asks the handler for
    SQEs, a write completes. Checked: never more than one write in flight (a second write while one is outstanding could
    complete first or interleave), the bytes of all write requests together are the frames of the queued messages in
    order, each once, and each request's batch_count is the number of messages it carries."""
    from .d_c02 import _mk_msg
    from .d_c07 import _data_engine
    from ..models import _ChanM
    prog = h.it.prog
    k = h.params.get("ops", 5)
    eng = _data_engine(h, True, -1, False)
    ch = _ChanM(8)
    fields = prog.struct_fields(H, features=FEAT)
    vals = {"fd": 7, "engine": eng.load(), "egress_rx": BoxV(Cell(Agg("{chan.rx}", [ch]), "egress_rx"), ()),
            "ingress_sender": none(), "spillover": Seq("vecdeque", [], "message::FrameBatch"),
            "is_throttled": Agg("{atomic}", [False]), "multishot_reader": none(), "is_closing": False, "close_deadline": none(),
            "use_send_zerocopy": False, "use_recv_multishot": False, "send_buffer_slot_size": 65536,
            "coalesce_scratch": Seq("vec", [], "message::FrameBatch"), "write_in_flight": 0}
    handler = Ref(Cell(Agg(H, [vals.get(f, Opaque(f)) for f in fields]), "handler"), ())
    IFACE = "io_uring_backend::connection_handler::UringWorkerInterface"
    ifields = prog.struct_fields(IFACE, features=FEAT)
    def iface(write_completion):
        v = {"fd": 7, "pending_egress_count": 0, "is_write_completion": write_completion, "egress_cap": 8, "current_external_op_ud": 0,
             "buffer_manager": none(), "default_bgid_for_handler_use": none()}
        return Ref(Cell(Agg(IFACE, [v.get(f, Opaque(f)) for f in ifields]), "iface"), ())
    h.panic_role = "c20.egress"
    queued, wire, in_flight = [], [], 0
    nxt = 0x20
    def collect(ops):
        """write requests among the blueprints of a HandlerIoOps value"""
        nonlocal in_flight
        bps = ops.f[0]
        items = bps.f if isinstance(bps, Seq) else _deref(bps).f
        for bp in items:
            if isinstance(bp, Enum) and bp.vname == "RequestSendRawVectored":
                bufs, count = bp.f[0], bp.f[2]
                data = []
                for b in bufs.f:
                    data += list(b.f)
                # frames of our messages: [flags, 1, tag]
                tags = [data[i + 2] for i in range(0, len(data), 3)]
                h.check(len(data) % 3 == 0 and all(data[i] == 0 and data[i + 1] == 1 for i in range(0, len(data), 3)), "c20.egress.wire-bytes-are-not-the-frames-of-the-queued-messages", str(data[:12]))
                h.check(count == len(tags), "c20.egress.batch-count-differs-from-messages-in-the-request", f"batch_count {count}, messages {len(tags)}")
                wire.extend(tags)
                in_flight += 1
                h.check(in_flight <= 1, "c20.egress.second-write-issued-while-one-is-in-flight")
                h.cover("c20.egress.coalesced", len(tags) > 1)
            elif isinstance(bp, Enum) and bp.vname in ("RequestSend", "RequestSendZeroCopy"):
                h.check(False, "c20.egress.unexpected-send-blueprint", bp.vname)
    def prepare():
        ops = h.method(H, "prepare_sqes", handler, iface(False), trait="UringConnectionHandler")
        collect(ops)
    for i in range(k):
        op = h.choose(3, f"op{i}")              # 0 the socket queues a message; 1 the worker prepares SQEs; 2 the outstanding write completes
        if op == 0:
            fb = Ref(Cell(h.method("message::FrameBatch", "new"), "fb"), ())
            h.method("message::FrameBatch", "push", fb, _mk_msg(h, nxt, False))
            ch.items.append(fb.load())
            queued.append(nxt)
            nxt += 1
        elif op == 1:
            prepare()
        else:
            if in_flight == 0:
                from ..interp import PathAbort
                raise PathAbort("no write outstanding")
            h.method(H, "handle_internal_sqe_completion", handler, 0, 3, 0, iface(True), trait="UringConnectionHandler")
            in_flight -= 1
        h.check(wire == queued[:len(wire)], "c20.egress.messages-written-out-of-order-or-twice", f"queued {queued}, written {wire}")
    for _ in range(len(queued) + 2):
        if in_flight:
            h.method(H, "handle_internal_sqe_completion", handler, 0, 3, 0, iface(True), trait="UringConnectionHandler")
            in_flight -= 1
        prepare()
        if not ch.items and not in_flight:
            break
    h.check(wire == queued, "c20.egress.queued-message-never-written-or-order-changed", f"queued {[hex(x) for x in queued]}, written {[hex(x) for x in wire]}")
    h.cover("c20.egress.all-written", len(queued) >= 2)
