"""C04 — what the engine delivers depends on the bytes, not on how they are cut into reads."""
import z3
from ..values import *
from ..models import conj, val_eq, some
from .common import *
from .d_c07 import greeting_v3, ready_frame, SIG, _frames, _flag


def _transcript(h, kind):
    """peer bytes for an engine in role `srv`; returns (is_server, config kwargs, bytes)"""
    p = h.bytes("payload", 3)
    more = h.byte("f1flags") & 1
    data = [more, 1, p[0]] + [0, 2, p[1], p[2]] + [0, 0]          # frame(MORE?) , frame, empty frame
    if kind == "v3-null-server":       # we are the server, peer is a v3 NULL client with an identity
        idb = h.bytes("ident", 2)
        body = list(b"\x05READY") + [11] + list(b"Socket-Type") + [0, 0, 0, 6] + list(b"DEALER") + [8] + list(b"Identity") + [0, 0, 0, 2] + idb
        return True, dict(socket_type_name=string("ROUTER")), greeting_v3(b"NULL", 0) + [0x04, len(body)] + body + data
    if kind == "v3-null-client":
        return False, dict(socket_type_name=string("DEALER")), greeting_v3(b"NULL", 1) + ready_frame(b"ROUTER") + data
    if kind == "v2-server":            # ZMTP/2.0 peer (DEALER) with a 2-byte identity
        idb = h.bytes("ident", 2)
        return True, dict(socket_type_name=string("ROUTER")), SIG + [1, 5] + [0, 2] + idb + data
    if kind == "v3-plain-server":
        u, pw = h.bytes("user", 1), h.bytes("pass", 1)
        hello = list(b"\x05HELLO") + [1] + u + [1] + pw
        cfgkw = dict(socket_type_name=string("REP"), security_enabled=True, use_plain=True,
                     plain_username_for_engine=some(Seq("string", list(u))), plain_password_for_engine=some(Seq("string", list(pw))))
        return True, cfgkw, greeting_v3(b"PLAIN", 0) + [0x04, len(hello)] + hello + ready_frame(b"REQ") + data
    raise KeyError(kind)


KINDS = ["v3-null-server", "v3-null-client", "v2-server", "v3-plain-server"]


def _run(h, srv, cfgkw, chunks):
    eng = mk_engine(h, srv, mk_config(h, **cfgkw))
    out0 = start(h, eng)
    snd, acts = list(sends(out0)), []
    for c in chunks:
        o = feed(h, eng, c)
        snd += sends(o)
        acts += app_actions(o)
    return snd, acts, phase(h, eng), len(efield(h, eng, "network_read_accumulator").f)


def _act_sig(h, a):
    """comparable description of an AppAction: (kind, list of terms)"""
    if a.vname == "DeliverMessage":
        items = []
        for m in _frames(a.f[0]):
            items.append(("frame", list(m.f[0].f[0].f) if m.f[0].idx == 1 else [], m.f[1].f[0].f[0]))
        return ("deliver", items)
    if a.vname == "HandshakeComplete":
        ident = a.f[0]
        st = a.f[1]
        return ("hs", list(ident.f[0].f[0].f) if ident.idx == 1 else None, list(st.f[0].f) if st.idx == 1 else None)
    if a.vname == "PeerError":
        return ("error", a.f[0].vname)
    return (a.vname,)


def _same(h, x, y):
    """structural equality of signatures; byte terms compared by the solver"""
    if type(x) != type(y):
        return False
    if isinstance(x, (tuple, list)):
        if len(x) != len(y):
            return False
        return conj([_same(h, a, b) for a, b in zip(x, y)])
    if isinstance(x, (str, type(None))):
        return x == y
    if isinstance(x, bool) or isinstance(y, bool):
        return x == y
    if isinstance(x, int) and isinstance(y, int):
        return x == y
    return simp(bv(x, 8) == bv(y, 8))


def cut_independence(h):
    kinds = h.params.get("kinds", KINDS)
    ncuts = h.params.get("cuts", 1)
    kind = kinds[h.choose(len(kinds), "transcript")]
    srv, cfgkw, T = _transcript(h, kind)
    n = len(T)
    c1 = h.choose(n + 1, "cut1")
    if ncuts >= 2:
        c2 = c1 + h.choose(n + 1 - c1, "cut2")
        chunks = [T[:c1], T[c1:c2], T[c2:]]
    else:
        chunks = [T[:c1], T[c1:]]
    h.panic_role = "c04.cut"
    ref = _run(h, srv, cfgkw, [T])
    got = _run(h, srv, cfgkw, chunks)
    h.check(any(a.vname == "HandshakeComplete" for a in ref[1]) and ref[2] == "Data", "c04.setup.reference-run-completes")
    h.check(got[2] == ref[2], "c04.phase-differs", f"{kind}: cuts {c1}.. leave the engine in {got[2]} instead of {ref[2]}")
    sa, sb = [_act_sig(h, a) for a in ref[1]], [_act_sig(h, a) for a in got[1]]
    h.check(_same(h, sa, sb), "c04.delivered-sequence-differs",
            f"{kind}: app actions with cuts at {c1}: {[s[0] for s in sb]} vs uncut {[s[0] for s in sa]}")
    h.check(_same(h, list(ref[0]), list(got[0])), "c04.sent-bytes-differ")
    h.check(got[3] == ref[3], "c04.leftover-bytes-differ")
    h.cover("c04.cut-inside-handshake", c1 < 64)
    h.cover("c04.data-delivered", any(s[0] == "deliver" for s in sa))


def replay_cut_independence(model, params, role):
    ch = dict(map(tuple, model.get("_choices", [])))
    kinds = params.get("kinds", KINDS)
    kind = kinds[ch.get("transcript", 0)]
    # rebuild the concrete transcript from the model
    class _H:  # minimal stand-in giving concrete bytes
        def bytes(self, name, n):
            hx = model.get(name, "00" * n)
            return list(bytes.fromhex(hx))[:n] + [0] * max(0, n - len(hx) // 2)
        def byte(self, name):
            return model.get(name, 0)
    srv, cfgkw, T = _transcript(_H(), kind)
    T = [int(x) if isinstance(x, int) else 0 for x in T]
    c1 = ch.get("cut1", 0)
    cuts = [c1] + ([c1 + ch["cut2"]] if "cut2" in ch else [])
    role_s = "server" if srv else "client"
    stype = {"v3-null-server": "ROUTER", "v3-null-client": "DEALER", "v2-server": "ROUTER", "v3-plain-server": "REP"}[kind]
    extra = ""
    if kind == "v3-plain-server":
        extra = f" security=1 plain_user={model.get('user','00')} plain_pass={model.get('pass','00')}"
    def script(chunks):
        return "\n".join([f"engine {role_s} type={stype}{extra}", "start"] + [f"feed {bytes(c).hex()}" for c in chunks] + ["phase", ""])
    pts = [0] + cuts + [len(T)]
    chunks = [T[a:b] for a, b in zip(pts, pts[1:])]
    s_ref, s_cut = script([T]), script(chunks)
    def norm(out):
        return [l for l in out.splitlines() if l.startswith(("handshake_complete", "deliver", "peer_error", "phase"))]
    from ...mirsym_engine import run_replay
    def pred(out_cut):
        out_ref, _ = run_replay(s_ref)
        return norm(out_ref) != norm(out_cut)
    return s_cut, pred, f"{kind} transcript cut at {cuts} vs. delivered whole; expecting different deliveries/phase"
