"""C04 — what the engine delivers depends on the bytes, not on how they are cut into reads."""
import z3
from ..values import *
from ..models import conj, val_eq, some, ok, err
from .common import *
from .d_c07 import greeting_v3, ready_frame, SIG, _frames, _flag


def _transcript(h, kind):
    """peer bytes for an engine in role `srv`; returns (is_server, config kwargs, bytes)"""
    p = h.bytes("payload", 3)
    more = h.byte("f1flags") & 1
    data = [more, 1, p[0]] + [0, 2, p[1], p[2]] + [0, 0]          # frame(MORE?) , frame, empty frame
    if kind == "v3-null-server":       # we are the server, peer is a v3 NULL client with an identity
        idb = h.bytes("ident", 2)
        body = list(b"\x05READY") + [11] + list(b"Socket-Type") + [0, 0, 0, 6] + list(b"DEALER") + [8] + list(b"Identity") + [0, 0, 0, 2] + idb
        return True, dict(socket_type_name=string("ROUTER")), greeting_v3(b"NULL", 0) + [0x04, len(body)] + body + data
    if kind == "v3-null-client":
        return False, dict(socket_type_name=string("DEALER")), greeting_v3(b"NULL", 1) + ready_frame(b"ROUTER") + data
    if kind == "v2-server":            # ZMTP/2.0 peer (DEALER) with a 2-byte identity
        idb = h.bytes("ident", 2)
        return True, dict(socket_type_name=string("ROUTER")), SIG + [1, 5] + [0, 2] + idb + data
    if kind == "v3-plain-server":
        u, pw = h.bytes("user", 1), h.bytes("pass", 1)
        hello = list(b"\x05HELLO") + [1] + u + [1] + pw
        cfgkw = dict(socket_type_name=string("REP"), security_enabled=True, use_plain=True,
                     plain_username_for_engine=some(Seq("string", list(u))), plain_password_for_engine=some(Seq("string", list(pw))))
        return True, cfgkw, greeting_v3(b"PLAIN", 0) + [0x04, len(hello)] + hello + ready_frame(b"REQ") + data
    raise KeyError(kind)


KINDS = ["v3-null-server", "v3-null-client", "v2-server", "v3-plain-server"]


def _run(h, srv, cfgkw, chunks):
    eng = mk_engine(h, srv, mk_config(h, **cfgkw))
    out0 = start(h, eng)
    snd, acts = list(sends(out0)), []
    for c in chunks:
        o = feed(h, eng, c)
        snd += sends(o)
        acts += app_actions(o)
    return snd, acts, phase(h, eng), len(efield(h, eng, "network_read_accumulator").f)


def _act_sig(h, a):
    """comparable description of an AppAction: (kind, list of terms)"""
    if a.vname == "DeliverMessage":
        items = []
        for m in _frames(a.f[0]):
            items.append(("frame", list(m.f[0].f[0].f) if m.f[0].idx == 1 else [], m.f[1].f[0].f[0]))
        return ("deliver", items)
    if a.vname == "HandshakeComplete":
        ident = a.f[0]
        st = a.f[1]
        return ("hs", list(ident.f[0].f[0].f) if ident.idx == 1 else None, list(st.f[0].f) if st.idx == 1 else None)
    if a.vname == "PeerError":
        return ("error", a.f[0].vname)
    return (a.vname,)


def _same(h, x, y):
    """structural equality of signatures; byte terms compared by the solver"""
    if type(x) != type(y):
        return False
    if isinstance(x, (tuple, list)):
        if len(x) != len(y):
            return False
        return conj([_same(h, a, b) for a, b in zip(x, y)])
    if isinstance(x, (str, type(None))):
        return x == y
    if isinstance(x, bool) or isinstance(y, bool):
        return x == y
    if isinstance(x, int) and isinstance(y, int):
        return x == y
    return simp(bv(x, 8) == bv(y, 8))


def cut_independence(h):
    kinds = h.params.get("kinds", KINDS)
    ncuts = h.params.get("cuts", 1)
    kind = kinds[h.choose(len(kinds), "transcript")]
    srv, cfgkw, T = _transcript(h, kind)
    n = len(T)
    c1 = h.choose(n + 1, "cut1")
    if ncuts >= 2:
        c2 = c1 + h.choose(n + 1 - c1, "cut2")
        chunks = [T[:c1], T[c1:c2], T[c2:]]
    else:
        chunks = [T[:c1], T[c1:]]
    h.panic_role = "c04.cut"
    ref = _run(h, srv, cfgkw, [T])
    got = _run(h, srv, cfgkw, chunks)
    h.check(any(a.vname == "HandshakeComplete" for a in ref[1]) and ref[2] == "Data", "c04.setup.reference-run-completes")
    h.check(got[2] == ref[2], "c04.phase-differs", f"{kind}: cuts {c1}.. leave the engine in {got[2]} instead of {ref[2]}")
    sa, sb = [_act_sig(h, a) for a in ref[1]], [_act_sig(h, a) for a in got[1]]
    h.check(_same(h, sa, sb), "c04.delivered-sequence-differs",
            f"{kind}: app actions with cuts at {c1}: {[s[0] for s in sb]} vs uncut {[s[0] for s in sa]}")
    h.check(_same(h, list(ref[0]), list(got[0])), "c04.sent-bytes-differ")
    h.check(got[3] == ref[3], "c04.leftover-bytes-differ")
    h.cover("c04.cut-inside-handshake", c1 < 64)
    h.cover("c04.data-delivered", any(s[0] == "deliver" for s in sa))


def replay_cut_independence(model, params, role):
    ch = dict(map(tuple, model.get("_choices", [])))
    kinds = params.get("kinds", KINDS)
    kind = kinds[ch.get("transcript", 0)]
    # rebuild the concrete transcript from the model
    class _H:  # minimal stand-in giving concrete bytes
        def bytes(self, name, n):
            hx = model.get(name, "00" * n)
            return list(bytes.fromhex(hx))[:n] + [0] * max(0, n - len(hx) // 2)
        def byte(self, name):
            return model.get(name, 0)
    srv, cfgkw, T = _transcript(_H(), kind)
    T = [int(x) if isinstance(x, int) else 0 for x in T]
    c1 = ch.get("cut1", 0)
    cuts = [c1] + ([c1 + ch["cut2"]] if "cut2" in ch else [])
    role_s = "server" if srv else "client"
    stype = {"v3-null-server": "ROUTER", "v3-null-client": "DEALER", "v2-server": "ROUTER", "v3-plain-server": "REP"}[kind]
    extra = ""
    if kind == "v3-plain-server":
        extra = f" security=1 plain_user={model.get('user','00')} plain_pass={model.get('pass','00')}"
    def script(chunks):
        return "\n".join([f"engine {role_s} type={stype}{extra}", "start"] + [f"feed {bytes(c).hex()}" for c in chunks] + ["phase", ""])
    pts = [0] + cuts + [len(T)]
    chunks = [T[a:b] for a, b in zip(pts, pts[1:])]
    s_ref, s_cut = script([T]), script(chunks)
    def norm(out):
        return [l for l in out.splitlines() if l.startswith(("handshake_complete", "deliver", "peer_error", "phase"))]
    from ...mirsym_engine import run_replay
    def pred(out_cut):
        out_ref, _ = run_replay(s_ref)
        return norm(out_ref) != norm(out_cut)
    return s_cut, pred, f"{kind} transcript cut at {cuts} vs. delivered whole; expecting different deliveries/phase"


ACTOR = "sessionx::actor::SessionConnectionActorX"


def _contains_marker(v, marker, depth=0, seen=None):
    """does the value graph contain a byte sequence holding `marker`?"""
    seen = seen if seen is not None else set()
    if id(v) in seen or depth > 40:
        return False
    seen.add(id(v))
    if isinstance(v, Seq):
        if v.elem_ty == "u8" or (v.f and isinstance(v.f[0], int)):
            return marker in [x for x in v.f if isinstance(x, int)]
        return any(_contains_marker(x, marker, depth + 1, seen) for x in v.f)
    if isinstance(v, (Agg, Enum)):
        items = v.f.values() if isinstance(v.f, dict) else v.f
        return any(_contains_marker(x, marker, depth + 1, seen) for x in items)
    if isinstance(v, Ref):
        try:
            return _contains_marker(v.load(), marker, depth + 1, seen)
        except Exception:
            return False
    if isinstance(v, MapV):
        return any(_contains_marker(k, marker, depth + 1, seen) or _contains_marker(x, marker, depth + 1, seen) for k, x in v.items)
    return False


def actor_handshake_output(h):
    """The tokio session actor's handshake-phase output handler fed with what the real engine emits when
    the peer's last handshake bytes and its first data frame share a read: the delivered batch must be kept
    (the handler has no other way to pass it on than the actor's own state)."""
    from ..models import MapV as _MapV
    kind = ["v3-null-server", "v2-server"][h.choose(2, "transcript")]
    srv, cfgkw, T = _transcript(h, kind)
    # distinctive payload marker instead of symbolic bytes
    T = [0x77 if (is_sym(x) and "payload" in str(x)) else x for x in T]
    eng = mk_engine(h, srv, mk_config(h, **cfgkw))
    start(h, eng)
    out = feed(h, eng, T)
    acts = app_actions(out)
    h.check(any(a.vname == "HandshakeComplete" for a in acts) and any(a.vname == "DeliverMessage" for a in acts), "c04.actor.setup-engine-emits-handshake-and-data")
    fields = h.it.prog.struct_fields(ACTOR)
    ftypes = h.it.prog.struct_field_types(ACTOR)
    def default_for(f):
        t = ftypes.get(f, "")
        if t.startswith("Vec<"):
            return Seq("vec", [], "?")
        if t.startswith(("VecDeque<", "std::collections::VecDeque<")):
            return Seq("vecdeque", [], "?")
        if t.startswith("Option<"):
            return Enum("std::option::Option", 0, "None", [])
        if t == "bool":
            return False
        if t in ("usize", "u64", "u32"):
            return 0
        return Opaque(f)
    vals = [default_for(f) for f in fields]
    def setf(name, v):
        vals[fields.index(name)] = v
    setf("handle", 1)
    setf("parent_socket_id", 1)
    vs = h.it.prog.enum_variants("sessionx::states::ConnectionPhaseX") or []
    setf("current_phase", Enum("sessionx::states::ConnectionPhaseX", 0, vs[0] if vs else "Initializing", []))
    setf("zmtp_engine", eng.load())
    for nm in ("pending_peer_identity_from_handshake", "pending_peer_socket_type", "error_for_drop_guard", "handshake_deadline", "cork_info",
               "write_half", "read_half", "ping_check_timer", "incoming_pipe_sender", "_connection_permit"):
        if nm in fields:
            setf(nm, Enum("std::option::Option", 0, "None", []))
    actor = Ref(Cell(Agg(ACTOR, vals), "actor"), ())
    # the pipe manager is not attached yet during the handshake (ScaInitializePipes is still in the mailbox)
    for m_ in ("is_attached",):
        f_ = h.it.prog.resolve_method("", "sessionx::pipe_manager::CorePipeManagerX", m_, None)
        if f_:
            h.it.hooks[f_] = lambda it, a, d, f: False
    h.panic_role = "c04.actor"
    def extern(it, plain, args, dty, func):
        if plain.endswith("Future>::poll"):
            return NotImplemented
        return NotImplemented
    # NetAction::Send bytes go to the socket (I/O, not part of this obligation): hand over the app actions only
    out.f[0] = Seq("vec", [], "?")
    fn = h.it.prog.resolve_method("", ACTOR, "apply_engine_output_handshake", None)
    coro = h.it.run_body(h.it.prog.body(fn), [actor, out])
    r = h.it.run_body(h.it.prog.body(fn + "::{closure#0}"), [Ref(Cell(coro, "coro"), ()), Opaque("cx")])
    h.check(isinstance(r, Enum) and r.vname == "Ready", "c04.actor.handler-did-not-complete")
    kept = _contains_marker(actor.load(), 0x77)
    h.check(kept, "c04.actor.data-sharing-a-read-with-the-handshake-is-dropped",
            f"{kind}: the engine emitted HandshakeComplete followed by DeliverMessage for one read; after apply_engine_output_handshake the delivered frames are nowhere in the actor's state")
    h.cover("c04.actor.handler-ran")


def replay_actor_handshake_output(model, params, role):
    return "actor_early_data 0\n", (lambda out: "recv=Err(Timeout)" in out), \
        "public API: PULL socket on TCP, raw peer writes greeting+READY+data in one write; expecting the data never to be received"


# ------------------------------------------------------------------------------------------------
# reader + engine: what the session's read cycle hands to the engine must not depend on where the reads fall
MP = "sessionx::message_processor::ZmqMessageProcessor"


def read_cycles(h):
    """ZmqMessageProcessor::read_and_process (the tokio session's read cycle: one awaited read, then a greedy
    drain with try_read_chunk, then ZmtpEngine::on_network_bytes) driven over a scripted byte stream that ends
    with EOF: the peer's data frames are split over the awaited read and the greedy chunks at positions chosen by
    the exploration; EOF may be seen by the greedy drain or by the next awaited read."""
    from .d_c09 import Fut
    from ..models import _deref
    srv = h.choose(2, "is_server") == 1
    kw = dict(socket_type_name=string("PULL"))
    big = h.choose(2, "maxmsgsize_set") == 1
    if big:
        # MAXMSGSIZE set to any value that admits the peer's frames (2-byte payloads here; the handshake's own READY
        # frame needs 28): the frames are legal, so the segmentation must still not matter
        lim = h.bvar("maxmsgsize", 64)
        h.assume(z3.And(z3.UGE(lim, 28), z3.ULE(lim, 64)))
        kw["max_msg_size"] = lim
    eng = mk_engine(h, srv, mk_config(h, **kw))
    start(h, eng)
    feed(h, eng, greeting_v3(b"NULL", 0 if srv else 1) + ready_frame(b"PUSH"))
    h.check(phase(h, eng) == "Data", "c04.reader.setup-data-phase")
    if big:
        # one frame of 28 payload bytes: at or just below the limit, so its buffered residue approaches the limit
        nmsg, plen = 1, 28
    else:
        nmsg, plen = 1 + h.choose(2, "messages"), 2
    payload = [h.byte(f"p{i}") for i in range(nmsg)]
    stream = []
    for i in range(nmsg):
        stream += [0x00, plen, 0x6D, payload[i]] + [0x2E] * (plen - 2)
    flen = 2 + plen
    pos = {"i": 0, "eof_seen": False}
    cuts = h.params.get("max_chunks", 3)
    def take(limit):
        """next piece of the stream: 1..remaining bytes (choice), at most `limit`"""
        rem = len(stream) - pos["i"]
        if h.params.get("all_piece_sizes") and not big:         # the 28-byte frame keeps the cuts that matter at the size limit
            n = 1 + h.choose(min(rem, limit), f"piece@{pos['i']}")
        else:
            # one byte, up to the end of the current frame, or everything that is left
            if big:
                # the cuts that matter for a frame at the size limit: inside the header, one byte before the end, none
                opts = sorted({rem, max(1, rem - 1)} | ({1} if pos["i"] == 0 else set()))
            else:
                opts = sorted({1, min(rem, flen - pos["i"] % flen), rem})
            n = opts[h.choose(len(opts), f"piece@{pos['i']}")]
        out = stream[pos["i"]:pos["i"] + n]
        pos["i"] += n
        return out
    def read_buf(it, args, dty, func):
        return Agg("{future}", ["read_buf", args[1]])
    def try_read_chunk(it, args, dty, func):
        # greedy drain: more bytes, "would block", or (once everything was read) end of stream
        from ..models import err as _err
        rem = len(stream) - pos["i"]
        if rem > 0:
            if h.choose(2, f"greedy@{pos['i']}") == 0:
                return _err(Agg("std::io::Error", ["WouldBlock"]))
            piece = take(rem)
            dst = args[1]
            for k, b in enumerate(piece):
                dst.set(k, b)
            return ok(len(piece))
        if h.choose(2, "eof_in_greedy") == 1:
            pos["eof_seen"] = True
            return ok(0)
        return _err(Agg("std::io::Error", ["WouldBlock"]))
    h.it.hooks["tokio::io::AsyncReadExt::read_buf"] = read_buf
    def extern(it, plain, args, dty, func):
        if plain.endswith("AsyncReadExt>::read_buf") or plain.startswith("tokio::io::AsyncReadExt::read_buf"):
            return read_buf(it, args, dty, func)
        if plain.endswith("ZmtpReadHalf>::try_read_chunk") or plain.endswith("::try_read_chunk"):
            return try_read_chunk(it, args, dty, func)
        if plain.endswith("Future>::poll"):
            fut = _deref(args[0])
            if isinstance(fut, Agg) and fut.ty == "{future}" and fut.f[0] == "read_buf":
                buf = fut.f[1]
                while isinstance(buf, Ref) and not isinstance(buf.load(), Seq):
                    buf = buf.load()
                rem = len(stream) - pos["i"]
                if rem == 0:
                    pos["eof_seen"] = True
                    return Enum("std::task::Poll", 0, "Ready", [ok(0)])
                piece = take(rem)
                buf.load().f.extend(piece)
                return Enum("std::task::Poll", 0, "Ready", [ok(len(piece))])
            return NotImplemented
        if plain.endswith("IntoFuture>::into_future") or plain.startswith("std::pin::Pin::"):
            return args[0]
        if plain == "std::io::Error::kind":
            return Agg("std::io::ErrorKind::WouldBlock", [])      # the only error kind the scripted reader produces
        return NotImplemented
    h.it.extern = extern
    h.panic_role = "c04.reader"
    mp = Ref(Cell(Agg(MP, []), "mp"), ())
    reader = Ref(Cell(Agg("{reader}", []), "reader"), ())
    delivered = []
    closed = False
    for cycle in range(len(stream) + 2):        # at worst one byte per cycle, then the cycle that sees the end of the stream
        f = Fut(h, MP, "read_and_process", [mp, reader, eng])
        r = f.poll()
        h.check(r is not None, "c04.reader.cycle-did-not-complete")
        if r is None:
            return
        if r.idx == 1:
            closed = True
            break
        for a in app_actions(r.f[0]):
            if a.vname == "DeliverMessage":
                delivered.append(a)
    h.check(closed, "c04.reader.end-of-stream-not-reported")
    h.check(pos["i"] == len(stream), "c04.reader.setup-stream-consumed")
    got = []
    for a in delivered:
        for m in _frames(a.f[0]):
            d = m.f[0]
            got.append(list(d.f[0].f) if d.idx == 1 else [])
    ok_ = len(got) == nmsg and conj([bv(g[1], 8) == payload[i] for i, g in enumerate(got) if len(g) == plen]) if len(got) == nmsg and all(len(g) == plen for g in got) else False
    h.check(ok_, "c04.reader.bytes-read-before-end-of-stream-never-reached-the-engine",
            f"peer wrote {nmsg} complete, legal message(s) of {plen} payload bytes and closed; {len(got)} delivered with this split of the bytes over "
            f"awaited reads and greedy chunks (MAXMSGSIZE {'set' if big else 'unset'}, end of stream seen by the {'greedy drain' if pos['eof_seen'] else 'awaited read'}); "
            f"the same bytes in one read are delivered")
    h.cover("c04.reader.eof-seen-by-greedy-drain", pos["eof_seen"] and closed)
    h.cover("c04.reader.all-delivered", ok_ is not False)


def replay_read_cycles(model, params, role):
    ch = dict(map(tuple, model.get("_choices", [])))
    if ch.get("maxmsgsize_set", 0) == 1:
        # a legal frame of 28 payload bytes with MAXMSGSIZE = the model's limit, written in two TCP writes: everything
        # but the last byte, then (200 ms later) the last byte - the cut that leaves the longest residue
        lim = int(model.get("maxmsgsize", 28))
        return f"split_frame_maxmsg {lim} 28 29\n", (lambda out: "NOT delivered" in out), \
            f"PULL listener with MAXMSGSIZE={lim}; raw PUSH peer writes a 28-byte frame in two TCP writes cut one byte before its end; expecting it not to be delivered"
    n = 1 + ch.get("messages", 0)
    return f"last_message_then_close {n}\n", (lambda out: "LOST" in out), \
        f"raw PUSH peer writes {n} message(s) and closes at once (data and FIN reach the reader together); expecting the PULL socket not to deliver them"
