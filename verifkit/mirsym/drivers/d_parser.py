"""mirsym drivers for the frame decoders (cross-check of the Kani harnesses, C03/C07)."""
import z3
from ..values import *
from ..models import some, none
from ..interp import Panic

MP = "protocol::zmtp::manual_parser::ZmtpManualParser"


def _parser(h, maxv):
    # ZmtpManualParser { state: ReadHeader, max_msg_size }
    return Agg("protocol::zmtp::manual_parser::ZmtpManualParser",
               [Enum("protocol::zmtp::manual_parser::ManualDecodingState", 0, "ReadHeader", []), maxv])


def spec_parse(h, data, maxv):
    """reference parse over python list of byte terms with concrete length; returns
    ('incomplete',) | ('toobig-cond', cond, ...) ... expressed as z3 terms"""
    n = len(data)
    if n == 0:
        return None
    return None


def peek_frame_len(h):
    n = h.choose(13, "len")
    data = h.bytes("src", n)
    maxv = h.bvar("max", 64)
    cell = Cell(Seq("array", list(data)), "src")
    src = SliceRef(Ref(cell, ()), 0, n)
    p = Ref(Cell(_parser(h, maxv), "parser"), ())
    h.panic_role = "peek_frame_len"
    r = h.method(MP, "peek_frame_len", p, src)
    # reference
    if n == 0:
        h.check(r.idx == 0 and r.f[0].idx == 0, "peek.empty")
        return
    is_long = (data[0] & 2) != 0
    hl_long = h.ctx.branch(is_long)
    hl = 9 if hl_long else 2
    if n < hl:
        h.check(r.idx == 0 and r.f[0].idx == 0, "peek.short-header-none")
        return
    ln = z3.Concat(*data[1:9]) if hl_long else z3.ZeroExt(56, data[1])
    too_big = z3.And(maxv >= 0, z3.UGT(ln, maxv))
    if r.idx == 1:
        # Err: must be too big, or unrepresentable total
        h.check(z3.Or(too_big, z3.UGT(ln, z3.BitVecVal((1 << 64) - 1 - hl, 64))), "peek.err-only-when-too-big")
        h.cover("peek.err")
    else:
        h.check(z3.Not(too_big), "peek.ok-implies-within-limit")
        tot = r.f[0].f[0]
        h.check(bv(tot, 64) == ln + hl, "peek.total")
        h.cover("peek.long-ok", is_long)
