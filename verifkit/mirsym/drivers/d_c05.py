"""C05 — handshakes converge and agree; one compatibility verdict over v3 / v2 / inproc."""
import z3
from ..values import *
from ..models import some, none
from .common import *
from .d_c07 import greeting_v3, SIG

TYPES = ["PAIR", "PUB", "SUB", "REQ", "REP", "DEALER", "ROUTER", "PULL", "PUSH", "XPUB", "XSUB"]   # index = ZMTP/2.0 code
RFC = {("REQ", "REP"), ("REQ", "ROUTER"), ("DEALER", "REP"), ("DEALER", "DEALER"), ("DEALER", "ROUTER"), ("ROUTER", "ROUTER"),
       ("PUB", "SUB"), ("PUB", "XSUB"), ("XPUB", "SUB"), ("XPUB", "XSUB"), ("PUSH", "PULL"), ("PAIR", "PAIR")}
IMPLEMENTED = ["PUB", "SUB", "REQ", "REP", "DEALER", "ROUTER", "PULL", "PUSH"]


def rfc_ok(a, b):
    return (a, b) in RFC or (b, a) in RFC


def _ready(stype):
    body = list(b"\x05READY") + [11] + list(b"Socket-Type") + [0, 0, 0, len(stype)] + list(stype.encode())
    return [0x04, len(body)] + body


def compat_v3_vs_v2(h):
    """local socket type a (each of the 8 implemented types), peer announces type b (any of the 11 wire names):
    the ZMTP/3 READY path and the ZMTP/2.0 greeting path must give the same verdict, equal to the RFC pairing table."""
    a = IMPLEMENTED[h.choose(len(IMPLEMENTED), "local")]
    bi = h.choose(len(TYPES), "peer")
    b = TYPES[bi]
    h.panic_role = "c05.compat"
    e3 = mk_engine(h, True, mk_config(h, socket_type_name=string(a)))
    start(h, e3)
    feed(h, e3, greeting_v3(b"NULL", 0) + _ready(b))
    v3_ok = phase(h, e3) == "Data"
    e2 = mk_engine(h, True, mk_config(h, socket_type_name=string(a)))
    start(h, e2)
    feed(h, e2, SIG + [1, bi] + [0, 0])
    v2_ok = phase(h, e2) == "Data"
    h.check(v2_ok == rfc_ok(a, b), "c05.v2-verdict-differs-from-zeromq-pairing-table", f"local {a}, peer {b}: v2 accepts={v2_ok}, RFC={rfc_ok(a, b)}")
    h.check(v3_ok == v2_ok, f"c05.v3-verdict-differs-from-v2[{a}-{b}]", f"local {a}, peer {b}: ZMTP/3 accepts={v3_ok}, ZMTP/2 accepts={v2_ok}")
    h.cover("c05.compat.accepted", v3_ok and v2_ok)
    h.cover("c05.compat.refused", not v2_ok)


INPROC_ENUM = ["Pub", "Sub", "Req", "Rep", "Dealer", "Router", "Push", "Pull"]


def compat_inproc(h):
    i, j = h.choose(len(INPROC_ENUM), "connector"), h.choose(len(INPROC_ENUM), "binder")
    a, b = INPROC_ENUM[i], INPROC_ENUM[j]
    vs = h.it.prog.enum_variants("socket::types::SocketType")
    def st(n):
        return Enum("socket::types::SocketType", vs.index(n), n, [])
    r = h.call("transport::inproc::handshake::validate_socket_compatibility", st(a), st(b))
    ok = r.idx == 0
    h.check(ok == rfc_ok(a.upper(), b.upper()), f"c05.inproc-verdict-differs-from-zeromq-pairing-table[{a}-{b}]",
            f"inproc {a}<->{b}: accepts={ok}, RFC={rfc_ok(a.upper(), b.upper())}")
    h.cover("c05.inproc.accepted", ok)


def pair_convergence(h):
    """client and server engines wired back to back; the first `decisions` delivery steps are chosen freely
    (direction x {one byte, everything pending}), afterwards everything pending is delivered alternately."""
    nd = h.params.get("decisions", 5)
    mech = h.choose(3, "mechanism")            # 0 NULL, 1 PLAIN equal credentials, 2 PLAIN unequal
    id_lens = h.params.get("id_lens", [0, 1])
    mechs = h.params.get("mechs", [0, 1, 2])
    if mech not in mechs:
        from ..interp import PathAbort
        raise PathAbort("mechanism not in this obligation")
    idl = id_lens[h.choose(len(id_lens), "client_identity")]
    with_id = idl > 0
    ckw = dict(socket_type_name=string("DEALER"))
    skw = dict(socket_type_name=string("ROUTER"))
    idb = h.bytes("ident", idl) if with_id else []
    if with_id:
        ckw["routing_id"] = some(blob(idb))
    if mech:
        u, pw = h.bytes("user", 1), h.bytes("pass", 1)
        cu, cp, su, sp = list(u), list(pw), list(u), list(pw)       # client / server user and password
        if mech == 2:
            # the ways two credential pairs can be unequal: a differing byte at equal length, or one side's value
            # being a proper prefix of the other's (user or password, either direction) - all bytes symbolic
            shapes = h.params.get("uneq_shapes", [0, 1, 2, 3, 4])
            shape = shapes[h.choose(len(shapes), "uneq_shape")]
            extra = h.bytes("extra", 1)
            if shape == 0:
                sp = list(h.bytes("pass2", 1))
                h.assume(pw[0] != sp[0])
            elif shape == 1:
                cp = cp + list(extra)          # client sends the server's password plus one more byte
            elif shape == 2:
                sp = sp + list(extra)          # client sends a proper prefix of the server's password
            elif shape == 3:
                cu = cu + list(extra)
            else:
                su = su + list(extra)
            h.cover(f"c05.pair.uneq-shape-{shape}")
        for kw, uu, p in ((ckw, cu, cp), (skw, su, sp)):
            kw.update(security_enabled=True, use_plain=True, plain_username_for_engine=some(Seq("string", list(uu))),
                      plain_password_for_engine=some(Seq("string", list(p))))
    c = mk_engine(h, False, mk_config(h, **ckw))
    s = mk_engine(h, True, mk_config(h, **skw))
    h.panic_role = "c05.pair"
    to_s, to_c = list(sends(start(h, c))), list(sends(start(h, s)))
    capp, sapp = [], []
    def deliver(to_server, n):
        nonlocal to_s, to_c
        if to_server:
            chunk, to_s = to_s[:n], to_s[n:]
            o = feed(h, s, chunk)
            to_c += sends(o)
            sapp.extend(app_actions(o))
        else:
            chunk, to_c = to_c[:n], to_c[n:]
            o = feed(h, c, chunk)
            to_s += sends(o)
            capp.extend(app_actions(o))
    for i in range(nd):
        if not to_s and not to_c:
            break
        d = h.choose(2, f"dir{i}") == 1
        if d and not to_s or (not d and not to_c):
            d = bool(to_s)
        one = h.choose(2, f"one{i}") == 1
        deliver(d, 1 if one else len(to_s if d else to_c))
    for _ in range(40):
        if not to_s and not to_c:
            break
        if to_s:
            deliver(True, len(to_s))
        if to_c:
            deliver(False, len(to_c))
    pc, ps = phase(h, c), phase(h, s)
    h.check(not to_s and not to_c, "c05.pair.never-quiescent")
    if mech in (0, 1):
        h.check(pc == "Data" and ps == "Data", "c05.pair.compatible-endpoints-did-not-converge", f"client {pc}, server {ps}")
        hc = [a for a in capp if a.vname == "HandshakeComplete"]
        hs = [a for a in sapp if a.vname == "HandshakeComplete"]
        h.check(len(hc) == 1 and len(hs) == 1, "c05.pair.handshake-complete-count")
        if hc and hs:
            st_c = hc[0].f[1]
            st_s = hs[0].f[1]
            h.check(st_c.idx == 1 and bytes(st_c.f[0].f) == b"ROUTER", "c05.pair.client-sees-wrong-peer-type")
            h.check(st_s.idx == 1 and bytes(st_s.f[0].f) == b"DEALER", "c05.pair.server-sees-wrong-peer-type")
            ids = hs[0].f[0]
            if with_id:
                got = list(ids.f[0].f[0].f) if ids.idx == 1 else None
                from ..models import conj
                h.check(got is not None and len(got) == len(idb) and conj([bv(a, 8) == b for a, b in zip(got, idb)]), "c05.pair.server-sees-wrong-identity",
                        f"peer announced a {len(idb)}-byte routing id; HandshakeComplete carries {'none' if got is None else str(len(got)) + ' bytes'}")
            else:
                h.check(ids.idx == 0, "c05.pair.identity-invented")
        h.cover("c05.pair.converged")
    else:
        h.check(ps == "Closed" and any(a.vname == "PeerError" for a in sapp), "c05.pair.wrong-credentials-not-refused", f"server {ps}")
        h.check(not any(a.vname == "HandshakeComplete" for a in capp + sapp), "c05.pair.handshake-complete-despite-wrong-credentials")
        h.cover("c05.pair.refused")


def replay_pair_convergence(model, params, role):
    ch = dict(map(tuple, model.get("_choices", [])))
    def bs(name, n):
        v = model.get(name)
        if isinstance(v, str):
            return bytes.fromhex(v).ljust(n, b"\0")[:n]
        return bytes([int(model.get(f"{name}[{i}]", 0)) for i in range(n)])
    nd = params.get("decisions", 5)
    mech = ch.get("mechanism", 0)
    id_lens = params.get("id_lens", [0, 1])
    idl = id_lens[ch.get("client_identity", 0)]
    ckv, skv = ["type=DEALER"], ["type=ROUTER"]
    if idl:
        ckv.append("routing_id=" + bs("ident", idl).hex())
    if mech:
        u, pw, extra = bs("user", 1), bs("pass", 1), bs("extra", 1)
        cu, cp, su, sp = u, pw, u, pw
        if mech == 2:
            shapes = params.get("uneq_shapes", [0, 1, 2, 3, 4])
            shape = shapes[ch.get("uneq_shape", 0)]
            if shape == 0:
                sp = bs("pass2", 1)
            elif shape == 1:
                cp = cp + extra
            elif shape == 2:
                sp = sp + extra
            elif shape == 3:
                cu = cu + extra
            else:
                su = su + extra
        ckv += ["security=1", f"plain_user={cu.hex()}", f"plain_pass={cp.hex()}"]
        skv += ["security=1", f"plain_user={su.hex()}", f"plain_pass={sp.hex()}"]
    lines = ["pair " + " ".join(ckv) + " -- " + " ".join(skv)]
    for i in range(nd):
        if f"dir{i}" not in ch:
            break
        lines.append(f"pstep {ch.get(f'dir{i}', 0)} {ch.get(f'one{i}', 0)}")
    lines += ["pflush", ""]
    def last(out):
        l = [x for x in out.splitlines() if x.startswith("pair client_phase")]
        return l[-1] if l else ""
    if "wrong-credentials" in role:
        return "\n".join(lines), (lambda out: "hc_client=[]" not in last(out) or "hc_server=[]" not in last(out) or "server_phase=Closed" not in last(out)), \
            "two real engines, PLAIN with unequal credentials, delivery schedule from the solver; expecting a completed handshake or a server that is not closed"
    if "did-not-converge" in role or "handshake-complete-count" in role:
        return "\n".join(lines), (lambda out: bool(last(out)) and not ("client_phase=Data" in last(out) and "server_phase=Data" in last(out) and last(out).count("type=") == 2)), \
            "two real engines with compatible settings, delivery schedule from the solver; expecting them not to converge"
    if "wrong-identity" in role or "identity-invented" in role:
        want = "identity=" + (bs("ident", idl).hex() if idl else "none")
        return "\n".join(lines), (lambda out: bool(last(out)) and ("hc_server=[" + want) not in last(out)), \
            f"two real engines, client routing id of {idl} bytes; expecting the server to report a different identity"
    if "never-quiescent" in role:
        return "\n".join(lines), (lambda out: bool(last(out)) and "pending=0/0" not in last(out)), "expecting bytes still in flight after 40 rounds"
    return "\n".join(lines), (lambda out: "PANIC" in out or "panicked" in out), "expecting a panic"


def replay_compat_inproc(model, params, role):
    ch = dict(map(tuple, model.get("_choices", [])))
    a, b = INPROC_ENUM[ch.get("connector", 0)], INPROC_ENUM[ch.get("binder", 0)]
    want = rfc_ok(a.upper(), b.upper())
    return f"inproc {a} {b}\n", (lambda out: ("inproc ok" in out) != want), f"inproc pairing {a}<->{b}: expecting a verdict different from the ZeroMQ table ({want})"


def replay_compat_v3_vs_v2(model, params, role):
    ch = dict(map(tuple, model.get("_choices", [])))
    a, bi = IMPLEMENTED[ch.get("local", 0)], ch.get("peer", 0)
    b = TYPES[bi]
    s = "\n".join([f"engine server type={a}", "start", "feed " + bytes(greeting_v3(b"NULL", 0) + _ready(b)).hex(), "phase",
                   f"engine server type={a}", "start", "feed " + bytes(SIG + [1, bi, 0, 0]).hex(), "phase", ""])
    def pred(out):
        ph = [l for l in out.splitlines() if l.startswith("phase")]
        return len(ph) == 2 and (("Data" in ph[0]) != ("Data" in ph[1]))
    return s, pred, f"local {a}, peer {b}: v3 READY vs v2 greeting; expecting different verdicts"
