"""C16 kernels on the receive side: a recv that is parked on an empty queue when the socket shuts down is released
with an error, and calls made afterwards fail at their first poll.

The shutdown, as the socket core performs it, reaches the ingress engine in two steps: `close()` on the engine
(ReadyPipeQueue::close: the pipe table is cleared and the queue's own handle of the ready list is closed) and the
end of the sessions, each of which drops its PipeMessageSender (and with it its handle of the ready list). fibre
wakes a parked receiver only when the LAST sender handle is gone; the model of the channel counts handles
(models._ChanM.senders) and the driver retires a session's handle where the real code drops the sender."""
import z3
from ..values import *
from ..models import ok, err, some, none, dur_ns, _deref
from .common import *
from .d_c09 import Fut

ANON = "socket::patterns::anonymous_ingress::AnonymousIngressEngine"
ADDR = "socket::patterns::addressed_ingress::AddressedIngressEngine"
PMS = "socket::patterns::ready_pipe_queue::PipeMessageSender"


def _retire(sender):
    """Drop for fibre's AsyncSender: close_internal() unless the handle was closed before"""
    v = _deref(sender)
    inner = v.f[0] if isinstance(v, Enum) else v            # PipeMessageSender::{DirectAnonymous(s) | DirectAddressed{sender}}
    tx = None
    for fld in getattr(inner, "f", []):
        if isinstance(fld, Agg) and fld.ty == "{chan.tx}":
            tx = fld
    assert tx is not None, repr(inner)[:200]
    if len(tx.f) > 1 and tx.f[1]:
        return
    tx.f.append(True) if len(tx.f) == 1 else tx.f.__setitem__(1, True)
    ch = tx.f[0]
    ch.senders -= 1
    if ch.senders <= 0:
        ch.closed = True


def blocked_recv_released(h):
    """{AnonymousIngressEngine::recv, recv_multipart, AddressedIngressEngine::recv_logical_message, pop} with
    RCVTIMEO -1 (or a positive value whose timer never fires) parked on an empty queue fed by 1..2 connections;
    then the engine is closed and the connections' senders are dropped, in either order, with a poll of the parked
    call in between. Once both have happened the call must be Ready with an error; a new call then fails at its
    first poll; a sender that outlives the close cannot enqueue."""
    from .d_c02 import _mk_msg
    prog = h.it.prog
    kind = h.choose(4, "operation")
    ty = ANON if kind < 2 else ADDR
    name = ["recv", "recv_multipart", "recv_logical_message", "pop"][kind]
    positive = h.choose(2, "rcvtimeo_positive") == 1 if kind != 3 else False
    n = 1 + h.choose(2, "connections")
    eng = Ref(Cell(h.method(ty, "new", 4), "ingress"), ())
    snd = [Ref(Cell(h.method(ty, "register_pipe", eng, p, 2, 1), f"s{p}"), ()) for p in range(n)]
    pop_fn = prog.resolve_method("", "socket::patterns::ready_pipe_queue::ReadyPipeQueue", "pop", None)
    def timeout_fn(it, args, dty, func):
        return Agg("{timeout}", [args[0], args[1]])
    h.it.hooks["tokio::time::timeout"] = timeout_fn
    def extern(it, plain, args, dty, func):
        if plain.startswith("tokio::time::timeout"):
            return timeout_fn(it, args, dty, func)
        if plain.endswith("Future>::poll"):
            fut = _deref(args[0])
            if isinstance(fut, Agg) and fut.ty == "{timeout}":
                inner = it.run_body(prog.body(pop_fn + "::{closure#0}"), [Ref(Cell(fut.f[1], "inner"), ()) if not isinstance(fut.f[1], Ref) else fut.f[1], args[1]])
                if inner.vname == "Ready":
                    return Enum("std::task::Poll", 0, "Ready", [ok(inner.f[0])])
                return Enum("std::task::Poll", 1, "Pending", [])        # the timer does not fire in this kernel
            return NotImplemented
        if plain.endswith("IntoFuture>::into_future") or plain.startswith("std::pin::Pin::"):
            return args[0]
        return NotImplemented
    h.it.extern = extern
    h.panic_role = "c16.recv"
    def call():
        if kind == 3:
            return Fut(h, ty, name, [eng])
        return Fut(h, ty, name, [eng, some(dur_ns(5_000_000_000)) if positive else none()])
    f = call()
    r = f.poll()
    h.check(r is None, "c16.recv.setup-recv-on-empty-queue-did-not-park", repr(r)[:100])
    if r is not None:
        return
    # shutdown: close() and the end of every session, in a solver-chosen order, the parked call polled in between
    steps = ["close"] + [f"drop{p}" for p in range(n)]
    order = []
    remaining = list(steps)
    while remaining:
        i = h.choose(len(remaining), f"step{len(order)}") if len(remaining) > 1 else 0
        s = remaining.pop(i)
        order.append(s)
        if s == "close":
            h.method(ty, "close", eng)
        else:
            _retire(snd[int(s[4:])])
        if remaining:
            r = f.poll()
            if r is None and "close" in order:
                h.cover("c16.recv.still-parked-after-close-while-a-session-lives")
            if r is not None:
                h.check(r.idx == 1, "c16.recv.parked-recv-completed-with-a-message-during-shutdown", repr(r)[:100])
                h.cover("c16.recv.released-before-the-last-step")
                break
    if r is None:
        r = f.poll()
    h.check(r is not None, "c16.recv.recv-still-parked-after-close-and-end-of-all-sessions",
            f"{name} (RCVTIMEO {'positive' if positive else '-1'}) after {order}: still Pending - nothing will wake it again")
    if r is None:
        return
    h.check(r.idx == 1, "c16.recv.released-recv-returned-ok", repr(r)[:100])
    h.cover("c16.recv.released-with-error")
    # afterwards: a new call fails at once
    if not remaining:
        f2 = call()
        r2 = f2.poll()
        h.check(r2 is not None and r2.idx == 1, "c16.recv.call-after-shutdown-did-not-fail-at-once", "pending" if r2 is None else repr(r2)[:100])
        h.cover("c16.recv.call-after-shutdown-fails")


SC = "socket::core::state::ShutdownCoordinator"
CSTATE = "socket::core::state::CoreState"
EPI = "socket::core::state::EndpointInfo"


def shutdown_bookkeeping(h):
    """ShutdownCoordinator::{begin_shutdown_sequence, record_child_actor_stopped, record_connection_closed}: the
    socket core's list of what it waits for at shutdown. 0..3 endpoints (listener with a task, listener without one,
    session), then stop reports in every order, with duplicates and with ids the core never tracked. The report that
    empties both lists - and only that one - must return true (it moves the socket on to lingering); an untracked or
    repeated id returns false and changes nothing; with nothing to wait for both lists are empty at once."""
    from ..models import MapV
    prog = h.it.prog
    phases = prog.enum_variants("socket::core::state::ShutdownPhase")
    scf = prog.struct_fields(SC)
    sc_vals = [Opaque(f) for f in scf]
    sc_vals[scf.index("state")] = Enum("socket::core::state::ShutdownPhase", phases.index("Running"), "Running", [])
    sc_vals[scf.index("pending_child_actors")] = MapV("HashMap", [])
    sc_vals[scf.index("pending_connections_to_close")] = MapV("HashMap", [])
    if "inproc_connections_to_cleanup" in scf:
        sc_vals[scf.index("inproc_connections_to_cleanup")] = Seq("vec", [], "?")
    sc_vals[scf.index("linger_deadline")] = none()
    coord = Ref(Cell(Agg(SC, sc_vals), "coordinator"), ())
    n = h.choose(h.params.get("max_endpoints", 3) + 1, "endpoints")
    ef = prog.struct_fields(EPI)
    ets = prog.enum_variants("socket::core::state::EndpointType")
    eps, tracked = [], {}           # tracked: id -> "listener" | "session"
    for i in range(n):
        kind = h.choose(3, f"endpoint{i}")          # 0 listener with a task handle, 1 listener without, 2 session
        v = [Opaque(f) for f in ef]
        hid = 40 + i
        v[ef.index("endpoint_type")] = Enum("socket::core::state::EndpointType", ets.index("Listener" if kind < 2 else "Session"), "Listener" if kind < 2 else "Session", [])
        v[ef.index("task_handle")] = some(Opaque("join_handle")) if kind == 0 else none()
        v[ef.index("handle_id")] = hid
        v[ef.index("connection_iface")] = BoxV(Cell(Agg("{peer}", [i]), f"conn{i}"), (), "{peer}")
        v[ef.index("is_outbound_connection")] = True
        v[ef.index("pipe_ids")] = none()
        uri = string("tcp://e%d" % i)
        v[ef.index("endpoint_uri")] = clone_val(uri)
        eps.append((uri, Agg(EPI, v)))
        if kind == 0:
            tracked[hid] = "listener"
        elif kind == 2:
            tracked[hid] = "session"
    csf = prog.struct_fields(CSTATE)
    cs_vals = [Opaque(f) for f in csf]
    cs_vals[csf.index("endpoints")] = MapV("HashMap", eps)
    core_state = Ref(Cell(Agg(CSTATE, cs_vals), "core_state"), ())
    h.panic_role = "c16.bookkeeping"
    r = h.method(SC, "begin_shutdown_sequence", coord, 1, core_state)
    h.check(r is True, "c16.bookkeeping.shutdown-not-initiated")
    def pending():
        c = coord.load()
        return ({k for k, _ in c.f[scf.index("pending_child_actors")].items}, {k for k, _ in c.f[scf.index("pending_connections_to_close")].items})
    pa, pc = pending()
    h.check(pa == {k for k, v in tracked.items() if v == "listener"} and pc == {k for k, v in tracked.items() if v == "session"},
            "c16.bookkeeping.waiting-list-differs-from-the-running-endpoints", f"listeners {sorted(pa)}, connections {sorted(pc)}, reference {tracked}")
    # the shutdown sequence moves on to stopping children; reports arrive in any order
    left = dict(tracked)
    done_reported = 0
    for j in range(h.params.get("reports", 4)):
        ids = sorted(tracked) + [99]                    # 99: an id the core never tracked
        if not ids:
            break
        hid = ids[h.choose(len(ids), f"report{j}")]
        as_listener = h.choose(2, f"report{j}_as_listener") == 1
        before = pending()
        r = h.method(SC, "record_child_actor_stopped" if as_listener else "record_connection_closed", coord, hid, 1)
        known = left.get(hid) == ("listener" if as_listener else "session")
        if known:
            del left[hid]
            h.check(r is (not left), "c16.bookkeeping.last-report-not-recognised-or-recognised-early",
                    f"report for {hid}: returned {r} with {sorted(left)} still outstanding")
            if r is True:
                done_reported += 1
        else:
            h.check(r is False, "c16.bookkeeping.untracked-or-repeated-report-completed-the-shutdown", f"report for {hid} ({'listener' if as_listener else 'connection'}) returned {r}")
            h.check(pending() == before, "c16.bookkeeping.untracked-or-repeated-report-changed-the-lists")
        pa, pc = pending()
        h.check(pa | pc == set(left), "c16.bookkeeping.lists-differ-from-outstanding-endpoints", f"{sorted(pa | pc)} vs {sorted(left)}")
    h.check(done_reported <= 1, "c16.bookkeeping.completion-reported-twice")
    h.cover("c16.bookkeeping.completed", done_reported == 1)
    h.cover("c16.bookkeeping.nothing-to-wait-for", not tracked)
