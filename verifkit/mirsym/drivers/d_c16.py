"""C16 kernels on the receive side: a recv that is parked on an empty queue when the socket shuts down is released
with an error, and calls made afterwards fail at their first poll.

The shutdown, as the socket core performs it, reaches the ingress engine in two steps: `close()` on the engine
(ReadyPipeQueue::close: the pipe table is cleared and the queue's own handle of the ready list is closed) and the
end of the sessions, each of which drops its PipeMessageSender (and with it its handle of the ready list). fibre
wakes a parked receiver only when the LAST sender handle is gone; the model of the channel counts handles
(models._ChanM.senders) and the driver retires a session's handle where the real code drops the sender."""
import z3
from ..values import *
from ..models import ok, err, some, none, dur_ns, _deref
from .common import *
from .d_c09 import Fut

ANON = "socket::patterns::anonymous_ingress::AnonymousIngressEngine"
ADDR = "socket::patterns::addressed_ingress::AddressedIngressEngine"
PMS = "socket::patterns::ready_pipe_queue::PipeMessageSender"


def _retire(sender):
    """Drop for fibre's AsyncSender: close_internal() unless the handle was closed before"""
    v = _deref(sender)
    inner = v.f[0] if isinstance(v, Enum) else v            # PipeMessageSender::{DirectAnonymous(s) | DirectAddressed{sender}}
    tx = None
    for fld in getattr(inner, "f", []):
        if isinstance(fld, Agg) and fld.ty == "{chan.tx}":
            tx = fld
    assert tx is not None, repr(inner)[:200]
    if len(tx.f) > 1 and tx.f[1]:
        return
    tx.f.append(True) if len(tx.f) == 1 else tx.f.__setitem__(1, True)
    ch = tx.f[0]
    ch.senders -= 1
    if ch.senders <= 0:
        ch.closed = True


def blocked_recv_released(h):
    """{AnonymousIngressEngine::recv, recv_multipart, AddressedIngressEngine::recv_logical_message, pop} with
    RCVTIMEO -1 (or a positive value whose timer never fires) parked on an empty queue fed by 1..2 connections;
    then the engine is closed and the connections' senders are dropped, in either order, with a poll of the parked
    call in between. Once both have happened the call must be Ready with an error; a new call then fails at its
    first poll; a sender that outlives the close cannot enqueue."""
    from .d_c02 import _mk_msg
    prog = h.it.prog
    kind = h.choose(4, "operation")
    ty = ANON if kind < 2 else ADDR
    name = ["recv", "recv_multipart", "recv_logical_message", "pop"][kind]
    positive = h.choose(2, "rcvtimeo_positive") == 1 if kind != 3 else False
    n = 1 + h.choose(2, "connections")
    eng = Ref(Cell(h.method(ty, "new", 4), "ingress"), ())
    snd = [Ref(Cell(h.method(ty, "register_pipe", eng, p, 2, 1), f"s{p}"), ()) for p in range(n)]
    pop_fn = prog.resolve_method("", "socket::patterns::ready_pipe_queue::ReadyPipeQueue", "pop", None)
    def timeout_fn(it, args, dty, func):
        return Agg("{timeout}", [args[0], args[1]])
    h.it.hooks["tokio::time::timeout"] = timeout_fn
    def extern(it, plain, args, dty, func):
        if plain.startswith("tokio::time::timeout"):
            return timeout_fn(it, args, dty, func)
        if plain.endswith("Future>::poll"):
            fut = _deref(args[0])
            if isinstance(fut, Agg) and fut.ty == "{timeout}":
                inner = it.run_body(prog.body(pop_fn + "::{closure#0}"), [Ref(Cell(fut.f[1], "inner"), ()) if not isinstance(fut.f[1], Ref) else fut.f[1], args[1]])
                if inner.vname == "Ready":
                    return Enum("std::task::Poll", 0, "Ready", [ok(inner.f[0])])
                return Enum("std::task::Poll", 1, "Pending", [])        # the timer does not fire in this kernel
            return NotImplemented
        if plain.endswith("IntoFuture>::into_future") or plain.startswith("std::pin::Pin::"):
            return args[0]
        return NotImplemented
    h.it.extern = extern
    h.panic_role = "c16.recv"
    def call():
        if kind == 3:
            return Fut(h, ty, name, [eng])
        return Fut(h, ty, name, [eng, some(dur_ns(5_000_000_000)) if positive else none()])
    f = call()
    r = f.poll()
    h.check(r is None, "c16.recv.setup-recv-on-empty-queue-did-not-park", repr(r)[:100])
    if r is not None:
        return
    # shutdown: close() and the end of every session, in a solver-chosen order, the parked call polled in between
    steps = ["close"] + [f"drop{p}" for p in range(n)]
    order = []
    remaining = list(steps)
    while remaining:
        i = h.choose(len(remaining), f"step{len(order)}") if len(remaining) > 1 else 0
        s = remaining.pop(i)
        order.append(s)
        if s == "close":
            h.method(ty, "close", eng)
        else:
            _retire(snd[int(s[4:])])
        if remaining:
            r = f.poll()
            if r is None and "close" in order:
                h.cover("c16.recv.still-parked-after-close-while-a-session-lives")
            if r is not None:
                h.check(r.idx == 1, "c16.recv.parked-recv-completed-with-a-message-during-shutdown", repr(r)[:100])
                h.cover("c16.recv.released-before-the-last-step")
                break
    if r is None:
        r = f.poll()
    h.check(r is not None, "c16.recv.recv-still-parked-after-close-and-end-of-all-sessions",
            f"{name} (RCVTIMEO {'positive' if positive else '-1'}) after {order}: still Pending - nothing will wake it again")
    if r is None:
        return
    h.check(r.idx == 1, "c16.recv.released-recv-returned-ok", repr(r)[:100])
    h.cover("c16.recv.released-with-error")
    # afterwards: a new call fails at once
    if not remaining:
        f2 = call()
        r2 = f2.poll()
        h.check(r2 is not None and r2.idx == 1, "c16.recv.call-after-shutdown-did-not-fail-at-once", "pending" if r2 is None else repr(r2)[:100])
        h.cover("c16.recv.call-after-shutdown-fails")
