"""C07 — no peer byte stream can crash the engine: one step of on_network_bytes with arbitrary
bytes from every protocol phase (the phase is reached by replaying an honest concrete prefix
through the real engine first). Also decides C02's receiver-side clauses in the Data phase."""
import re
import z3
from ..values import *
from ..models import conj
from .common import *

SIG = [0xFF] + [0] * 8 + [0x7F]


def greeting_v3(mech=b"NULL", as_server=0):
    g = SIG + [3, 1] + list(mech.ljust(20, b"\0")) + [as_server] + [0] * 31
    assert len(g) == 64
    return g


def ready_frame(socket_type=b"PUSH"):
    body = list(b"\x05READY") + [11] + list(b"Socket-Type") + [0, 0, 0, len(socket_type)] + list(socket_type)
    return [0x04, len(body)] + body


def _null_engine(h, is_server, stype="PULL", maxmsg=-1):
    return mk_engine(h, is_server, mk_config(h, socket_type_name=string(stype), max_msg_size=mask(maxmsg, 64)))


def _no_panic_step(h, eng, data, role):
    h.panic_role = role
    out = feed(h, eng, data)
    acts = app_actions(out)
    ph = phase(h, eng)
    # every fatal outcome closes the engine and reports it
    if any(a.vname == "PeerError" and a.f[0].vname not in ("Internal",) for a in acts):
        h.cover(role + ".peer-error")
    return out, acts, ph


def greeting_phase(h):
    """fresh engine (either role, ALLOW_ZMTP2 either), n arbitrary bytes in one read"""
    n = h.params.get("n", 70)
    srv = h.choose(2, "is_server") == 1
    allow = h.choose(2, "allow_zmtp2") == 1
    eng = mk_engine(h, srv, mk_config(h, socket_type_name=string("DEALER"), allow_zmtp2=allow))
    _stop_data(h)
    start(h, eng)
    data = h.bytes("peer", n)
    out, acts, ph = _no_panic_step(h, eng, data, "c07.greeting")
    h.check(ph != "Greeting" or not acts, "c07.greeting.stays-quiet-while-waiting")
    h.cover("c07.greeting.reached-ready-or-data", ph in ("Ready", "Data"))
    h.cover("c07.greeting.closed", ph == "Closed")
    # Closed is absorbing
    if ph == "Closed":
        out2 = feed(h, eng, [h.byte("more0"), h.byte("more1")])
        h.check(not app_actions(out2) and not sends(out2) and phase(h, eng) == "Closed", "c07.closed-is-absorbing")


def _stop_data(h):
    fn = h.it.prog.resolve_method("", ENGINE, "process_data", None)
    h.it.hooks[fn] = lambda it, args, dty, func: UNIT


def ready_phase(h):
    """after an honest NULL greeting, n arbitrary bytes (the READY command and what follows)"""
    n = h.params.get("n", 20)
    srv = h.choose(2, "is_server") == 1
    eng = _null_engine(h, srv)
    _stop_data(h)
    start(h, eng)
    feed(h, eng, greeting_v3(b"NULL", 0 if srv else 1))
    h.check(phase(h, eng) == "Ready", "c07.setup.ready-phase-reached")
    data = h.bytes("peer", n)
    out, acts, ph = _no_panic_step(h, eng, data, "c07.ready")
    h.cover("c07.ready.handshake-complete", any(a.vname == "HandshakeComplete" for a in acts))
    h.cover("c07.ready.closed", ph == "Closed")
    if any(a.vname == "PeerError" for a in acts):
        h.check(ph == "Closed", "c07.ready.error-closes")


def _data_engine(h, srv, maxmsg=-1, v2=False):
    eng = _null_engine(h, srv, "PULL", maxmsg)
    start(h, eng)
    if v2:
        feed(h, eng, SIG + [1, 8] + [0, 0])   # v2 greeting from a PUSH peer + empty identity frame
    else:
        feed(h, eng, greeting_v3(b"NULL", 0 if srv else 1) + ready_frame(b"PUSH"))
    h.check(phase(h, eng) == "Data", "c07.setup.data-phase-reached")
    return eng


def data_phase(h):
    """Data phase with a partially received multipart message of L frames, then n arbitrary bytes.
    C07: no panic for any L; C02: only whole, correctly flagged messages are delivered, commands
    never end up in a delivered message."""
    n = h.params.get("n", 5)
    Ls = h.params.get("partial_lens", [0, 2, 255])
    srv = h.choose(2, "is_server") == 1
    v2 = h.choose(2, "v2") == 1
    L = Ls[h.choose(len(Ls), "partial_len")]
    eng = _data_engine(h, srv, -1, v2)
    # L frames with MORE set, fed concretely through the real engine
    if L:
        pre = []
        for i in range(L):
            pre += [0x01, 0x01, i & 0xFF]
        o = feed(h, eng, pre)
        h.check(not app_actions(o), "c07.setup.partial-frames-not-delivered")
    h.check(len(_frames(efield(h, eng, "partial_batch"))) == L, "c07.setup.partial-len")
    data = h.bytes("peer", n)
    out, acts, ph = _no_panic_step(h, eng, data, "c07.data")
    for a in acts:
        if a.vname == "DeliverMessage":
            frames = _frames(a.f[0])
            for i, m in enumerate(frames):
                more = _flag(m, 1)
                cmd = _flag(m, 2)
                h.check(z3.Not(bl(cmd)) if is_sym(cmd) else (not cmd), "c02.engine.command-frame-delivered-as-data")
                if i < len(frames) - 1:
                    h.check(more, "c02.engine.inner-frame-without-MORE")
                else:
                    h.check(z3.Not(bl(more)) if is_sym(more) else (not more), "c02.engine.last-frame-has-MORE")
            h.cover("c07.data.delivered")
    if any(a.vname == "PeerError" for a in acts):
        h.check(ph == "Closed", "c07.data.error-closes")
        h.cover("c07.data.closed")


def _frames(fb):
    """frames of a FrameBatch value"""
    inner = fb.f[0]
    if inner.vname == "Empty":
        return []
    if inner.vname in ("Single", "Two"):
        return list(inner.f)
    return list(inner.f[0].f)      # Many(VecU8) -> Seq


def _flag(msg, bit):
    bits = msg.f[1].f[0].f[0]          # Msg.flags: MsgFlags(InternalBitFlags(u8))
    if isinstance(bits, int):
        return bool(bits & bit)
    return simp((bits & bit) != 0)


def maxmsgsize_limit(h):
    """MAXMSGSIZE = limit: a frame of exactly `limit` bytes is accepted (or awaited), limit+1 is
    refused before its body is buffered; for every limit >= 0 and every announced length."""
    srv = h.choose(2, "is_server") == 1
    # where the oversized frame arrives: 0 Data phase of a ZMTP/3 session, 1 Data phase of a ZMTP/2.0 session,
    # 2 before the peer's READY (ZMTP/3 NULL), 3 before the peer's HELLO/WELCOME (ZMTP/3 PLAIN)
    stages = h.params.get("stages", [0, 1, 2, 3])
    stage = stages[h.choose(len(stages), "stage")]
    limit = h.bvar("limit", 64)
    h.assume(limit >= 28)           # the handshake's own READY frame (28 bytes) must fit; smaller limits: Kani parser harnesses
    h.assume(z3.ULT(limit, z3.BitVecVal(1 << 63, 64)))          # the option is an i64 >= 0
    kw = dict(socket_type_name=string("PULL"), max_msg_size=limit)
    if stage == 3:
        kw.update(security_enabled=True, use_plain=True, plain_username_for_engine=some(Seq("string", list(b"u"))),
                  plain_password_for_engine=some(Seq("string", list(b"p"))))
    eng = mk_engine(h, srv, mk_config(h, **kw))
    start(h, eng)
    if stage == 0:
        feed(h, eng, greeting_v3(b"NULL", 0 if srv else 1) + ready_frame(b"PUSH"))
        h.check(phase(h, eng) == "Data", "c07.setup.data-phase-reached")
    elif stage == 1:
        feed(h, eng, SIG + [1, 8, 0, 0])
        h.check(phase(h, eng) == "Data", "c07.setup.v2-data-phase-reached")
    elif stage == 2:
        feed(h, eng, greeting_v3(b"NULL", 0 if srv else 1))
        h.check(phase(h, eng) == "Ready", "c07.setup.ready-phase-reached")
    else:
        feed(h, eng, greeting_v3(b"PLAIN", 0 if srv else 1))
        h.check(phase(h, eng) == "Security", "c07.setup.security-phase-reached")
    h.cover(f"c07.maxmsgsize.stage-{stage}")
    long = h.choose(2, "long_header") == 1
    flags = h.byte("flags")
    h.assume((flags & 0xFA) == 0 if not long else (flags & 0xF8) == 2)
    if stage == 1:
        h.assume((flags & 0x04) == 0)      # ZMTP/2.0 has no command frames: such a frame is refused for that reason, whatever its size
    if long:
        lb = h.bytes("lenbytes", 8)
        hdr = [flags] + lb
        ln = z3.Concat(*lb)
    else:
        l1 = h.byte("len8")
        hdr = [flags, l1]
        ln = z3.ZeroExt(56, l1)
    h.panic_role = "c07.maxmsgsize"
    out = feed(h, eng, hdr)
    acts = app_actions(out)
    too_big = z3.UGT(ln, limit)
    refused = any(a.vname == "PeerError" for a in acts)
    if refused:
        if stage in (0, 1):
            h.check(too_big, "c07.maxmsgsize.frame-within-limit-refused")
        # (during the handshake a complete zero-length non-command frame is refused for a different, valid reason)
        h.check(phase(h, eng) == "Closed", "c07.maxmsgsize.refusal-closes")
        h.cover("c07.maxmsgsize.limit-plus-one-refused", ln == limit + 1)
    else:
        h.check(z3.Not(too_big), "c07.maxmsgsize.oversized-frame-not-refused")
        h.cover("c07.maxmsgsize.exact-limit-accepted", ln == limit)
        acc = efield(h, eng, "network_read_accumulator")
        h.check(len(acc.f) <= 9, "c07.maxmsgsize.header-only-buffered")


def replay_maxmsgsize_limit(model, params, role):
    ch = dict(map(tuple, model.get("_choices", [])))
    srv = ch.get("is_server", 0) == 1
    stages = params.get("stages", [0, 1, 2, 3])
    stage = stages[ch.get("stage", 0)]
    limit = int(model.get("limit", 28))
    flags = int(model.get("flags", 0))
    if ch.get("long_header", 0):
        lb = model.get("lenbytes", "")
        lb = bytes.fromhex(lb) if isinstance(lb, str) else bytes(lb)
        hdr = bytes([flags]) + lb.ljust(8, b"\0")
    else:
        hdr = bytes([flags, int(model.get("len8", 0))])
    setup = {0: greeting_v3(b"NULL", 0 if srv else 1) + ready_frame(b"PUSH"), 1: SIG + [1, 8, 0, 0],
             2: greeting_v3(b"NULL", 0 if srv else 1), 3: greeting_v3(b"PLAIN", 0 if srv else 1)}[stage]
    eng = f"engine {'server' if srv else 'client'} type=PULL maxmsg={limit}" + (" security=1 plain_user=75 plain_pass=70" if stage == 3 else "")
    script = "\n".join([eng, "start", "feed " + bytes(setup).hex(), "feed " + hdr.hex(), "phase", ""])
    def closed(out):
        ph = [l for l in out.splitlines() if l.startswith("phase")]
        return bool(ph) and "Closed" in ph[-1]
    if "oversized-frame-not-refused" in role:
        return script, (lambda out: not closed(out) and "PANIC" not in out), f"MAXMSGSIZE={limit}, stage {stage}: a header announcing more than the limit; expecting the engine NOT to refuse it"
    if "frame-within-limit-refused" in role:
        return script, closed, f"MAXMSGSIZE={limit}, stage {stage}: a header announcing a frame within the limit; expecting a refusal"
    return script, (lambda out: "PANIC" in out), "expecting a panic"


def replay_generic(model, params, role, setup_lines):
    script = "\n".join(setup_lines + [f"feed {model.get('peer', '')}", "phase", ""])
    return script, (lambda out: "PANIC" in out), "arbitrary peer bytes; expecting a panic"


def replay_data_phase(model, params, role):
    ch = dict(map(tuple, model.get("_choices", [])))
    srv = ch.get("is_server", 0) == 1
    Ls = params.get("partial_lens", [0, 2, 255])
    L = Ls[ch.get("partial_len", 0)]
    g = bytes(SIG + [1, 8, 0, 0]).hex() if ch.get("v2") else bytes(greeting_v3(b"NULL", 0 if srv else 1) + ready_frame(b"PUSH")).hex()
    pre = "".join(f"0101{i & 0xFF:02x}" for i in range(L))
    lines = [f"engine {'server' if srv else 'client'} type=PULL", "start", f"feed {g}"] + ([f"feed {pre}"] if pre else [])
    script = "\n".join(lines + [f"feed {model.get('peer', '')}", "phase", ""])
    if "panic" in role or role.startswith("c07.data|"):
        return script, (lambda out: "PANIC" in out), f"Data phase with {L} pending MORE frames, then peer bytes; expecting a panic"
    return script, (lambda out: "deliver" in out), "expecting a malformed delivery"


def replay_ready_phase(model, params, role):
    ch = dict(map(tuple, model.get("_choices", [])))
    srv = ch.get("is_server", 0) == 1
    g = bytes(greeting_v3(b"NULL", 0 if srv else 1)).hex()
    return replay_generic(model, params, role, [f"engine {'server' if srv else 'client'} type=PULL", "start", f"feed {g}"])


def replay_greeting_phase(model, params, role):
    ch = dict(map(tuple, model.get("_choices", [])))
    srv = ch.get("is_server", 0) == 1
    return replay_generic(model, params, role, [f"engine {'server' if srv else 'client'} type=DEALER allow_zmtp2={ch.get('allow_zmtp2', 1)}", "start"])


# ------------------------------------------------------------------------------------------------
# CURVE (feature `curve`, MIR dump built with --features curve,noise_xx): the metadata parser that the
# handshake commands run on peer bytes BEFORE any cryptographic check
def curve_metadata(h):
    """security::curve::handshake::decode_metadata on n arbitrary bytes (what follows the HELLO / WELCOME /
    INITIATE prefix of a peer's command, or the decrypted INITIATE metadata)"""
    lens = h.params.get("lens", [0, 1, 2, 3, 5, 6, 7, 8, 12])
    n = lens[h.choose(len(lens), "len")]
    data = h.bytes("meta", n)
    h.panic_role = "c07.curve-metadata"
    fn = h.it.resolve_fn("security::curve::handshake::decode_metadata", "")
    h.check(fn is not None, "c07.setup.decode_metadata-in-the-full-feature-dump")
    r = h.it.run_body(h.it.prog.body(fn), [SliceRef(Seq("array", list(data)), 0, n)])
    h.cover("c07.curve-metadata.accepted", r.idx == 0)
    h.cover("c07.curve-metadata.refused", r.idx == 1)


def replay_curve_metadata(model, params, role):
    ch = dict(map(tuple, model.get("_choices", [])))
    lens = params.get("lens", [0, 1, 2, 3, 5, 6, 7, 8, 12])
    n = lens[ch.get("len", 0)]
    meta = model.get("meta", "")
    meta = (bytes.fromhex(meta) if isinstance(meta, str) else bytes(meta)).ljust(n, b"\0")[:n]
    greet = bytes([0xFF] + [0] * 8 + [0x7F, 3, 0]) + b"CURVE".ljust(20, b"\0") + bytes([0]) + bytes(31)
    hello = b"\x05HELLO" + meta
    frame = (bytes([0x04, len(hello)]) if len(hello) < 256 else bytes([0x06]) + len(hello).to_bytes(8, "big")) + hello
    script = "engine server type=REP curve_sk=" + "11" * 32 + "\nstart\nfeed " + (greet + frame).hex() + "\nphase\n"
    return script, (lambda out: "PANIC" in out), "CURVE listener fed a greeting and a HELLO command whose metadata are the counterexample bytes; expecting a panic"


CURVE_HS = "security::curve::handshake::CurveHandshake"


def curve_command_tokens(h):
    """CurveHandshake::process_server_welcome (connector) / process_client_initiate (listener) on a peer command whose
    metadata carry a Cookie / Ciphertext value of L arbitrary bytes. The cryptographic primitives (dryoc) are opaque:
    opening a box either fails or yields arbitrary bytes. Only the parsing in front of and behind them is checked."""
    from ..models import some, none, ok, err
    prog = h.it.prog
    which = h.choose(2, "command")                   # 0 WELCOME seen by the connector, 1 INITIATE seen by the listener
    lens = h.params.get("value_lens", [0, 1, 15, 16, 17, 48])
    L = lens[h.choose(len(lens), "value_len")]
    val = h.bytes("value", L)
    key = b"Cookie" if which == 0 else b"Ciphertext"
    prefix = b"\x07WELCOME" if which == 0 else b"\x08INITIATE"
    token = list(prefix) + [len(key)] + list(key) + list(L.to_bytes(4, "big")) + list(val)
    fields = prog.struct_fields(CURVE_HS)
    kp = Agg("{keypair}", [Opaque("pk"), Opaque("sk")])
    vals = {"phase": Opaque("phase"), "is_server": which == 1, "local_static_keypair": kp, "remote_static_public_key": some(Opaque("pk")),
            "local_ephemeral_keypair": kp, "remote_ephemeral_public_key": some(Opaque("pk")), "precomputed_key": none(), "send_nonce": 1, "recv_nonce": 1}
    hs = Ref(Cell(Agg(CURVE_HS, [vals.get(f, Opaque(f)) for f in fields]), "hs"), ())
    opened = {"n": 0}
    def extern(it, plain, args, dty, func):
        if "dryoc::" in plain:
            if "crypto_box_open" in plain:
                opened["n"] += 1
                # authentication of attacker-chosen bytes fails (the attacker has no key): error result
                return err(Opaque("dryoc::Error"))
            if plain.endswith("::try_from") or plain.endswith("TryFrom>::try_from"):
                return ok(Opaque("dryoc-value"))
            m = re.match(r"^<\[u8; (\d+)\] as dryoc::.*>::new_byte_array$", plain)
            if m:
                return Seq("array", [0] * int(m.group(1)))
            m = re.search(r"StackByteArray::<(\d+)>::new$", func) or re.search(r"StackByteArray<(\d+)>::new$", func)
            if m or plain.endswith("StackByteArray::new"):
                n_ = int(m.group(1)) if m else int(re.search(r"StackByteArray<(\d+)>", dty or "StackByteArray<24>").group(1))
                return Seq("array", [0] * n_)
            if plain.endswith(("::as_mut_slice", "::as_slice", "::as_array", "::as_mut_array")) and args:
                a = args[0]
                t = a.load() if isinstance(a, Ref) else a
                if isinstance(t, Seq):
                    return SliceRef(a, 0, len(t.f)) if "slice" in plain else a
                return Opaque("dryoc-bytes")
            return Opaque("dryoc")
        return NotImplemented
    h.it.extern = extern
    h.panic_role = "c07.curve-command"
    name = "process_server_welcome" if which == 0 else "process_client_initiate"
    r = h.method(CURVE_HS, name, hs, SliceRef(Seq("array", token), 0, len(token)))
    h.check(isinstance(r, Enum), "c07.curve-command.returned")
    h.cover("c07.curve-command.reached-the-box-opening", opened["n"] > 0)
    h.cover("c07.curve-command.refused", r.idx == 1)


def replay_curve_command_tokens(model, params, role):
    ch = dict(map(tuple, model.get("_choices", [])))
    lens = params.get("value_lens", [0, 1, 15, 16, 17, 48])
    L = lens[ch.get("value_len", 0)]
    v = model.get("value", "")
    v = (bytes.fromhex(v) if isinstance(v, str) else bytes(v)).ljust(L, b"\0")[:L]
    def md(k, val):
        return bytes([len(k)]) + k + len(val).to_bytes(4, "big") + val
    def frame(body):
        return (bytes([0x04, len(body)]) if len(body) < 256 else bytes([0x06]) + len(body).to_bytes(8, "big")) + body
    if ch.get("command", 0) == 1:
        greet = bytes([0xFF] + [0] * 8 + [0x7F, 3, 0]) + b"CURVE".ljust(20, b"\0") + bytes([0]) + bytes(31)
        hello = (b"\x05HELLO" + md(b"Public-Key-Client", bytes(range(1, 33)))).ljust(198, b"\0")
        init = b"\x08INITIATE" + md(b"Ciphertext", v)
        script = "engine server type=REP curve_sk=" + "11" * 32 + "\nstart\nfeed " + (greet + frame(hello)).hex() + "\nfeed " + frame(init).hex() + "\nphase\n"
        return script, (lambda out: "PANIC" in out), f"CURVE listener: valid-looking HELLO, then INITIATE whose Ciphertext value has {L} bytes; expecting a panic"
    return None


# ------------------------------------------------------------------------------------------------
# handshake interval: a peer that paces its bytes must not keep the handshake alive beyond HANDSHAKE_IVL
ACTOR = "sessionx::actor::SessionConnectionActorX"


class _StopRegion(Exception):
    pass


def handshake_deadline(h):
    """The tokio session actor's handshake loop (run_loop, region mode from `self.read_half.take()` of the handshake
    block): a slow peer delivers ONE byte per read, each read completing just before the timer that guards it would
    fire. Timers are recording objects on a symbolic, monotone clock: every timer armed inside the loop must expire
    no later than (time the loop was entered + HANDSHAKE_IVL)."""
    import re as _re
    from ..models import some, none, ok, err, dur_ns, instant_ns, _deref
    from .d_c01 import _debug_places
    prog = h.it.prog
    fn = prog.resolve_method("", ACTOR, "run_loop", None)
    clo = fn + "::{closure#0}"
    body = prog.body(clo)
    dbg = _debug_places(prog, clo)
    W = 128
    ivl = h.bvar("handshake_ivl_ns", W)
    h.assume(z3.And(z3.UGE(ivl, 1_000_000), z3.ULE(ivl, z3.BitVecVal(3_600_000_000_000, W))))         # 1 ms .. 1 h
    # engine of a listener in the Greeting phase
    cfg = mk_config(h, socket_type_name=string("PULL"), handshake_timeout=some(dur_ns(ivl)))
    eng = mk_engine(h, True, cfg)
    start(h, eng)
    # symbolic monotone clock shared by Instant::now() and by the arming of timers
    clock = {"last": None, "n": 0}
    def tick():
        t = h.bvar(f"t{clock['n']}", W)
        clock["n"] += 1
        h.assume(z3.ULE(t, z3.BitVecVal(1 << 70, W)))
        if clock["last"] is not None:
            h.assume(z3.UGE(t, clock["last"]))
        clock["last"] = t
        return t
    t_enter = tick()
    armed = []           # (arming time, expiry)
    reads = {"n": 0}
    peer = list(SIG)     # an honest signature, one byte per read
    def read_buf(it, args, dty, func):
        return Agg("{future}", ["read_buf", args[1]])
    def timeout_fn(it, args, dty, func):
        now = tick()
        if armed:
            # the previous read completed before its timer fired
            h.assume(z3.ULT(now, armed[-1][1]))
        d = args[0].f[0]
        armed.append((now, simp(now + bv(d, W))))
        return Agg("{timeout}", [args[0], args[1]])
    def timeout_at_fn(it, args, dty, func):
        now = tick()
        if armed:
            h.assume(z3.ULT(now, armed[-1][1]))
        armed.append((now, bv(args[0].f[0], W)))
        return Agg("{timeout}", [args[0], args[1]])
    def extern(it, plain, args, dty, func):
        if plain.endswith("AsyncReadExt>::read_buf"):
            return read_buf(it, args, dty, func)
        if plain.startswith("tokio::time::timeout_at"):
            return timeout_at_fn(it, args, dty, func)
        if plain.startswith("tokio::time::timeout"):
            return timeout_fn(it, args, dty, func)
        if plain in ("tokio::time::Instant::now", "std::time::Instant::now"):
            return instant_ns(tick())
        if plain.endswith("Future>::poll"):
            fut = _deref(args[0])
            if isinstance(fut, Agg) and fut.ty == "{timeout}":
                inner = fut.f[1]
                buf = inner.f[1]
                while isinstance(buf, Ref) and not isinstance(buf.load(), Seq):
                    buf = buf.load()
                if reads["n"] >= h.params.get("reads", 3):
                    raise _StopRegion()
                buf.load().f.append(peer[reads["n"]])
                reads["n"] += 1
                return Enum("std::task::Poll", 0, "Ready", [ok(ok(1))])
            if isinstance(fut, Agg) and fut.ty == "{future}":
                return Enum("std::task::Poll", 0, "Ready", [UNIT])
            return NotImplemented
        if plain.endswith("IntoFuture>::into_future") or plain.startswith("std::pin::Pin::"):
            return args[0]
        return NotImplemented
    h.it.extern = extern
    for nm in ("tokio::time::timeout", "tokio::time::timeout_at"):
        h.it.hooks[nm] = timeout_fn if nm.endswith("timeout") else timeout_at_fn
    # what the engine emits during the handshake goes to the socket / the actor's own state: not part of this obligation
    h.it.hooks[prog.resolve_method("", ACTOR, "apply_engine_output_handshake", None)] = lambda it, a, d, f: Agg("{future}", ["noop"])
    fields = prog.struct_fields(ACTOR)
    vals = [Opaque(f) for f in fields]
    def setf(name, v):
        vals[fields.index(name)] = v
    vs = prog.enum_variants("sessionx::states::ConnectionPhaseX")
    setf("current_phase", Enum("sessionx::states::ConnectionPhaseX", 0, vs[0], []))
    setf("zmtp_engine", eng.load())
    setf("read_half", some(Agg("{reader}", [])))
    setf("handshake_read_buf", Seq("bytesmut", []))
    setf("handle", 1)
    if "handshake_deadline" in fields:
        setf("handshake_deadline", some(instant_ns(simp(t_enter + ivl))))
    actor = Agg(ACTOR, vals)
    sf = SparseF([actor])
    i0 = prog.fn_index[clo]
    mm = None
    for ln in prog.lines[i0:i0 + 20000]:
        mm = _re.search(r"\(\(\(\*_(\d+)\) as variant#(\d+)\)\.(\d+): sessionx::actor::SessionConnectionActorX<S>\)", ln)
        if mm or ln.startswith("}"):
            break
    h.check(mm is not None, "c07.handshake-ivl.setup-actor-place")
    sf[(int(mm.group(2)) + 1) * 1000 + int(mm.group(3))] = actor
    coro = Ref(Cell(Agg("{coroutine@run_loop}", sf), "coro"), ())
    # entry: the first `Option<ReadHalf>::take` in source order (start of the handshake block)
    best = None
    for bb, raw in body.blocks.items():
        if "ReadHalf>::take(" in raw[-1][0]:
            m2 = _re.search(r"actor\.rs:(\d+):", raw[-1][1] or "")
            line = int(m2.group(1)) if m2 else 10 ** 9
            if best is None or line < best[0]:
                best = (line, bb)
    h.check(best is not None, "c07.handshake-ivl.setup-entry-block")
    h.panic_role = "c07.handshake-ivl"
    try:
        h.it.run_body(body, [], start_bb=best[1], preset={int(mm.group(1)): coro, 2: Opaque("cx")})
    except _StopRegion:
        pass
    h.check(len(armed) >= 2, "c07.handshake-ivl.setup-several-reads", str(len(armed)))
    # nothing suspends between entering the loop and arming the first timer: that instant is the start of the interval
    deadline = simp(armed[0][0] + ivl)
    for i, (now, exp) in enumerate(armed):
        h.check(z3.ULE(exp, deadline), "c07.handshake-ivl.timer-extends-the-handshake-beyond-the-interval",
                f"read #{i + 1} of a peer that sends one byte per read is guarded by a timer that expires after (loop entry + HANDSHAKE_IVL): "
                f"the interval restarts with every read, so a slow-dripping peer is never disconnected")
    h.cover("c07.handshake-ivl.three-slow-reads", len(armed) >= 3)


def replay_handshake_deadline(model, params, role):
    if "timer-extends-the-handshake" in role:
        return "handshake_drip 500 100 30\n", (lambda out: "STILL OPEN" in out), \
            "PULL listener with HANDSHAKE_IVL=500 ms, raw peer sends one greeting byte every 100 ms for 3 s; expecting the connection to stay open"
    return None
