"""C07 — no peer byte stream can crash the engine: one step of on_network_bytes with arbitrary
bytes from every protocol phase (the phase is reached by replaying an honest concrete prefix
through the real engine first). Also decides C02's receiver-side clauses in the Data phase."""
import z3
from ..values import *
from ..models import conj
from .common import *

SIG = [0xFF] + [0] * 8 + [0x7F]


def greeting_v3(mech=b"NULL", as_server=0):
    g = SIG + [3, 1] + list(mech.ljust(20, b"\0")) + [as_server] + [0] * 31
    assert len(g) == 64
    return g


def ready_frame(socket_type=b"PUSH"):
    body = list(b"\x05READY") + [11] + list(b"Socket-Type") + [0, 0, 0, len(socket_type)] + list(socket_type)
    return [0x04, len(body)] + body


def _null_engine(h, is_server, stype="PULL", maxmsg=-1):
    return mk_engine(h, is_server, mk_config(h, socket_type_name=string(stype), max_msg_size=mask(maxmsg, 64)))


def _no_panic_step(h, eng, data, role):
    h.panic_role = role
    out = feed(h, eng, data)
    acts = app_actions(out)
    ph = phase(h, eng)
    # every fatal outcome closes the engine and reports it
    if any(a.vname == "PeerError" and a.f[0].vname not in ("Internal",) for a in acts):
        h.cover(role + ".peer-error")
    return out, acts, ph


def greeting_phase(h):
    """fresh engine (either role, ALLOW_ZMTP2 either), n arbitrary bytes in one read"""
    n = h.params.get("n", 70)
    srv = h.choose(2, "is_server") == 1
    allow = h.choose(2, "allow_zmtp2") == 1
    eng = mk_engine(h, srv, mk_config(h, socket_type_name=string("DEALER"), allow_zmtp2=allow))
    _stop_data(h)
    start(h, eng)
    data = h.bytes("peer", n)
    out, acts, ph = _no_panic_step(h, eng, data, "c07.greeting")
    h.check(ph != "Greeting" or not acts, "c07.greeting.stays-quiet-while-waiting")
    h.cover("c07.greeting.reached-ready-or-data", ph in ("Ready", "Data"))
    h.cover("c07.greeting.closed", ph == "Closed")
    # Closed is absorbing
    if ph == "Closed":
        out2 = feed(h, eng, [h.byte("more0"), h.byte("more1")])
        h.check(not app_actions(out2) and not sends(out2) and phase(h, eng) == "Closed", "c07.closed-is-absorbing")


def _stop_data(h):
    fn = h.it.prog.resolve_method("", ENGINE, "process_data", None)
    h.it.hooks[fn] = lambda it, args, dty, func: UNIT


def ready_phase(h):
    """after an honest NULL greeting, n arbitrary bytes (the READY command and what follows)"""
    n = h.params.get("n", 20)
    srv = h.choose(2, "is_server") == 1
    eng = _null_engine(h, srv)
    _stop_data(h)
    start(h, eng)
    feed(h, eng, greeting_v3(b"NULL", 0 if srv else 1))
    h.check(phase(h, eng) == "Ready", "c07.setup.ready-phase-reached")
    data = h.bytes("peer", n)
    out, acts, ph = _no_panic_step(h, eng, data, "c07.ready")
    h.cover("c07.ready.handshake-complete", any(a.vname == "HandshakeComplete" for a in acts))
    h.cover("c07.ready.closed", ph == "Closed")
    if any(a.vname == "PeerError" for a in acts):
        h.check(ph == "Closed", "c07.ready.error-closes")


def _data_engine(h, srv, maxmsg=-1, v2=False):
    eng = _null_engine(h, srv, "PULL", maxmsg)
    start(h, eng)
    if v2:
        feed(h, eng, SIG + [1, 8] + [0, 0])   # v2 greeting from a PUSH peer + empty identity frame
    else:
        feed(h, eng, greeting_v3(b"NULL", 0 if srv else 1) + ready_frame(b"PUSH"))
    h.check(phase(h, eng) == "Data", "c07.setup.data-phase-reached")
    return eng


def data_phase(h):
    """Data phase with a partially received multipart message of L frames, then n arbitrary bytes.
    C07: no panic for any L; C02: only whole, correctly flagged messages are delivered, commands
    never end up in a delivered message."""
    n = h.params.get("n", 5)
    Ls = h.params.get("partial_lens", [0, 2, 255])
    srv = h.choose(2, "is_server") == 1
    v2 = h.choose(2, "v2") == 1
    L = Ls[h.choose(len(Ls), "partial_len")]
    eng = _data_engine(h, srv, -1, v2)
    # L frames with MORE set, fed concretely through the real engine
    if L:
        pre = []
        for i in range(L):
            pre += [0x01, 0x01, i & 0xFF]
        o = feed(h, eng, pre)
        h.check(not app_actions(o), "c07.setup.partial-frames-not-delivered")
    h.check(len(_frames(efield(h, eng, "partial_batch"))) == L, "c07.setup.partial-len")
    data = h.bytes("peer", n)
    out, acts, ph = _no_panic_step(h, eng, data, "c07.data")
    for a in acts:
        if a.vname == "DeliverMessage":
            frames = _frames(a.f[0])
            for i, m in enumerate(frames):
                more = _flag(m, 1)
                cmd = _flag(m, 2)
                h.check(z3.Not(bl(cmd)) if is_sym(cmd) else (not cmd), "c02.engine.command-frame-delivered-as-data")
                if i < len(frames) - 1:
                    h.check(more, "c02.engine.inner-frame-without-MORE")
                else:
                    h.check(z3.Not(bl(more)) if is_sym(more) else (not more), "c02.engine.last-frame-has-MORE")
            h.cover("c07.data.delivered")
    if any(a.vname == "PeerError" for a in acts):
        h.check(ph == "Closed", "c07.data.error-closes")
        h.cover("c07.data.closed")


def _frames(fb):
    """frames of a FrameBatch value"""
    inner = fb.f[0]
    if inner.vname == "Empty":
        return []
    if inner.vname in ("Single", "Two"):
        return list(inner.f)
    return list(inner.f[0].f)      # Many(VecU8) -> Seq


def _flag(msg, bit):
    bits = msg.f[1].f[0].f[0]          # Msg.flags: MsgFlags(InternalBitFlags(u8))
    if isinstance(bits, int):
        return bool(bits & bit)
    return simp((bits & bit) != 0)


def maxmsgsize_limit(h):
    """MAXMSGSIZE = limit: a frame of exactly `limit` bytes is accepted (or awaited), limit+1 is
    refused before its body is buffered; for every limit >= 0 and every announced length."""
    srv = h.choose(2, "is_server") == 1
    # where the oversized frame arrives: 0 Data phase of a ZMTP/3 session, 1 Data phase of a ZMTP/2.0 session,
    # 2 before the peer's READY (ZMTP/3 NULL), 3 before the peer's HELLO/WELCOME (ZMTP/3 PLAIN)
    stages = h.params.get("stages", [0, 1, 2, 3])
    stage = stages[h.choose(len(stages), "stage")]
    limit = h.bvar("limit", 64)
    h.assume(limit >= 28)           # the handshake's own READY frame (28 bytes) must fit; smaller limits: Kani parser harnesses
    h.assume(z3.ULT(limit, z3.BitVecVal(1 << 63, 64)))          # the option is an i64 >= 0
    kw = dict(socket_type_name=string("PULL"), max_msg_size=limit)
    if stage == 3:
        kw.update(security_enabled=True, use_plain=True, plain_username_for_engine=some(Seq("string", list(b"u"))),
                  plain_password_for_engine=some(Seq("string", list(b"p"))))
    eng = mk_engine(h, srv, mk_config(h, **kw))
    start(h, eng)
    if stage == 0:
        feed(h, eng, greeting_v3(b"NULL", 0 if srv else 1) + ready_frame(b"PUSH"))
        h.check(phase(h, eng) == "Data", "c07.setup.data-phase-reached")
    elif stage == 1:
        feed(h, eng, SIG + [1, 8, 0, 0])
        h.check(phase(h, eng) == "Data", "c07.setup.v2-data-phase-reached")
    elif stage == 2:
        feed(h, eng, greeting_v3(b"NULL", 0 if srv else 1))
        h.check(phase(h, eng) == "Ready", "c07.setup.ready-phase-reached")
    else:
        feed(h, eng, greeting_v3(b"PLAIN", 0 if srv else 1))
        h.check(phase(h, eng) == "Security", "c07.setup.security-phase-reached")
    h.cover(f"c07.maxmsgsize.stage-{stage}")
    long = h.choose(2, "long_header") == 1
    flags = h.byte("flags")
    h.assume((flags & 0xFA) == 0 if not long else (flags & 0xF8) == 2)
    if stage == 1:
        h.assume((flags & 0x04) == 0)      # ZMTP/2.0 has no command frames: such a frame is refused for that reason, whatever its size
    if long:
        lb = h.bytes("lenbytes", 8)
        hdr = [flags] + lb
        ln = z3.Concat(*lb)
    else:
        l1 = h.byte("len8")
        hdr = [flags, l1]
        ln = z3.ZeroExt(56, l1)
    h.panic_role = "c07.maxmsgsize"
    out = feed(h, eng, hdr)
    acts = app_actions(out)
    too_big = z3.UGT(ln, limit)
    refused = any(a.vname == "PeerError" for a in acts)
    if refused:
        if stage in (0, 1):
            h.check(too_big, "c07.maxmsgsize.frame-within-limit-refused")
        # (during the handshake a complete zero-length non-command frame is refused for a different, valid reason)
        h.check(phase(h, eng) == "Closed", "c07.maxmsgsize.refusal-closes")
        h.cover("c07.maxmsgsize.limit-plus-one-refused", ln == limit + 1)
    else:
        h.check(z3.Not(too_big), "c07.maxmsgsize.oversized-frame-not-refused")
        h.cover("c07.maxmsgsize.exact-limit-accepted", ln == limit)
        acc = efield(h, eng, "network_read_accumulator")
        h.check(len(acc.f) <= 9, "c07.maxmsgsize.header-only-buffered")


def replay_maxmsgsize_limit(model, params, role):
    ch = dict(map(tuple, model.get("_choices", [])))
    srv = ch.get("is_server", 0) == 1
    stages = params.get("stages", [0, 1, 2, 3])
    stage = stages[ch.get("stage", 0)]
    limit = int(model.get("limit", 28))
    flags = int(model.get("flags", 0))
    if ch.get("long_header", 0):
        lb = model.get("lenbytes", "")
        lb = bytes.fromhex(lb) if isinstance(lb, str) else bytes(lb)
        hdr = bytes([flags]) + lb.ljust(8, b"\0")
    else:
        hdr = bytes([flags, int(model.get("len8", 0))])
    setup = {0: greeting_v3(b"NULL", 0 if srv else 1) + ready_frame(b"PUSH"), 1: SIG + [1, 8, 0, 0],
             2: greeting_v3(b"NULL", 0 if srv else 1), 3: greeting_v3(b"PLAIN", 0 if srv else 1)}[stage]
    eng = f"engine {'server' if srv else 'client'} type=PULL maxmsg={limit}" + (" security=1 plain_user=75 plain_pass=70" if stage == 3 else "")
    script = "\n".join([eng, "start", "feed " + bytes(setup).hex(), "feed " + hdr.hex(), "phase", ""])
    def closed(out):
        ph = [l for l in out.splitlines() if l.startswith("phase")]
        return bool(ph) and "Closed" in ph[-1]
    if "oversized-frame-not-refused" in role:
        return script, (lambda out: not closed(out) and "PANIC" not in out), f"MAXMSGSIZE={limit}, stage {stage}: a header announcing more than the limit; expecting the engine NOT to refuse it"
    if "frame-within-limit-refused" in role:
        return script, closed, f"MAXMSGSIZE={limit}, stage {stage}: a header announcing a frame within the limit; expecting a refusal"
    return script, (lambda out: "PANIC" in out), "expecting a panic"


def replay_generic(model, params, role, setup_lines):
    script = "\n".join(setup_lines + [f"feed {model.get('peer', '')}", "phase", ""])
    return script, (lambda out: "PANIC" in out), "arbitrary peer bytes; expecting a panic"


def replay_data_phase(model, params, role):
    ch = dict(map(tuple, model.get("_choices", [])))
    srv = ch.get("is_server", 0) == 1
    Ls = params.get("partial_lens", [0, 2, 255])
    L = Ls[ch.get("partial_len", 0)]
    g = bytes(SIG + [1, 8, 0, 0]).hex() if ch.get("v2") else bytes(greeting_v3(b"NULL", 0 if srv else 1) + ready_frame(b"PUSH")).hex()
    pre = "".join(f"0101{i & 0xFF:02x}" for i in range(L))
    lines = [f"engine {'server' if srv else 'client'} type=PULL", "start", f"feed {g}"] + ([f"feed {pre}"] if pre else [])
    script = "\n".join(lines + [f"feed {model.get('peer', '')}", "phase", ""])
    if "panic" in role or role.startswith("c07.data|"):
        return script, (lambda out: "PANIC" in out), f"Data phase with {L} pending MORE frames, then peer bytes; expecting a panic"
    return script, (lambda out: "deliver" in out), "expecting a malformed delivery"


def replay_ready_phase(model, params, role):
    ch = dict(map(tuple, model.get("_choices", [])))
    srv = ch.get("is_server", 0) == 1
    g = bytes(greeting_v3(b"NULL", 0 if srv else 1)).hex()
    return replay_generic(model, params, role, [f"engine {'server' if srv else 'client'} type=PULL", "start", f"feed {g}"])


def replay_greeting_phase(model, params, role):
    ch = dict(map(tuple, model.get("_choices", [])))
    srv = ch.get("is_server", 0) == 1
    return replay_generic(model, params, role, [f"engine {'server' if srv else 'client'} type=DEALER allow_zmtp2={ch.get('allow_zmtp2', 1)}", "start"])
