"""C01 kernel 2: the session actor's outgoing batch assembly (the carry-over branch of the operational loop in
SessionConnectionActorX::run_loop). The loop lives in the middle of a long-lived coroutine, so it is executed in
REGION MODE: the coroutine object is assembled by the driver (the places of the loop's variables are read from
the coroutine's own debug-info lines in the MIR dump), execution starts at the basic block of the loop's
`if !core_carryover.is_empty()` test and stops at the call that hands the finished batch to the framer
(AdaptiveThrottle::begin_work_bulk, the first call after the assembly).
Message sizes, the batch options and the high-water mark are symbolic; the solver decides every size comparison."""
import re
import z3
from ..values import *
from ..models import ok, err, some, none
from ..interp import PathAbort
from .common import *

ACTOR = "sessionx::actor::SessionConnectionActorX"


class _Stop(Exception):
    pass


def _debug_places(prog, fn):
    """name -> (variant, field) | local number, from the `debug x => ...` lines of the coroutine body"""
    i = prog.fn_index[fn]
    out = {}
    while not prog.lines[i].lstrip().startswith("bb0:"):
        ln = prog.lines[i]
        m = re.match(r"^\s*debug (\w+) => \(\(\(\*_(\d+)\) as variant#(\d+)\)\.(\d+): ", ln)
        if m:
            out.setdefault(m.group(1), ("field", int(m.group(2)), int(m.group(3)), int(m.group(4))))
        else:
            m = re.match(r"^\s*debug (\w+) => _(\d+);", ln)
            if m:
                out.setdefault(m.group(1), ("local", int(m.group(2))))
        i += 1
    return out


def _entry_block(body, place_text):
    """the block that takes `&core_carryover` and calls is_empty() on it first in source order"""
    best = None
    for bb, raw in body.blocks.items():
        term = raw[-1][0]
        if "VecDeque::<message::FrameBatch>::is_empty(" not in term:
            continue
        if not any(place_text in code for code, _ in raw[:-1]):
            continue
        m = re.search(r"actor\.rs:(\d+):", raw[-1][1] or "")
        line = int(m.group(1)) if m else 10 ** 9
        if best is None or line < best[0]:
            best = (line, bb)
    return best[1] if best else None


def first_batch_path(h):
    """the other batch assembly of the operational loop: the select! arm that received `first_msgs` from the socket
    core (carry-over empty by the arm's guard) and tops the batch up from the pipe"""
    return carryover_branch(h, first_path=True)


def carryover_branch(h, first_path=False):
    prog = h.it.prog
    fn = prog.resolve_method("", ACTOR, "run_loop", None)
    clo = fn + "::{closure#0}"
    body = prog.body(clo)
    dbg = _debug_places(prog, clo)
    need = ["core_carryover", "outgoing_batch", "egress_buffer", "use_owned_write", "sndhwm", "pending_vectored", "self"]
    h.check(all(n in dbg for n in need), "c01.setup.debug-places", str({n: dbg.get(n) for n in need}))
    n_carry = 1 + h.choose(h.params.get("max_carry", 3), "carry") if not first_path else 1      # first path: the message just received
    n_pipe = h.choose(h.params.get("max_pipe", 3) + 1, "pipe")
    # messages: tag i (1-based, send order); wire size symbolic
    W = 64
    sizes = {}
    def mk(tag):
        fb = Ref(Cell(h.method("message::FrameBatch", "new"), "fb"), ())
        h.method("message::FrameBatch", "push", fb, h.method("message::msg::Msg", "from_vec", Seq("vec", [tag])))
        s = h.bvar(f"size{tag}", W)
        h.assume(z3.ULT(s, z3.BitVecVal(1 << 20, W)))
        sizes[tag] = s
        return fb.load()
    carry = [mk(t) for t in range(1, n_carry + 1)]
    pipe = [mk(t) for t in range(n_carry + 1, n_carry + n_pipe + 1)]
    def tag_of(fb):
        m = fb.f[0].f[0] if isinstance(fb.f[0], Agg) and not isinstance(fb.f[0], Enum) else None
        return _tag_of_batch(h, fb)
    # options
    cnt, byts, phys, hwm = h.bvar("sndbatch_count", W), h.bvar("sndbatch_bytes", W), h.bvar("sndbatch_bytes_physical", W), h.bvar("sndhwm", W)
    h.assume(z3.And(z3.UGE(cnt, 1), z3.ULE(cnt, 8), z3.UGE(byts, 1), z3.ULT(byts, 1 << 20), z3.UGE(phys, byts), z3.ULT(phys, 1 << 21), z3.UGE(hwm, 1), z3.ULE(hwm, 8)))
    cfg_fields = prog.struct_fields("protocol::zmtp::engine::ZmtpEngineConfig")
    cfg_vals = [Opaque(f) for f in cfg_fields]
    for nme, v in (("sndbatch_count", cnt), ("sndbatch_bytes", byts), ("sndbatch_bytes_physical", phys), ("sndhwm", hwm)):
        cfg_vals[cfg_fields.index(nme)] = v
    cfg = Ref(Cell(Agg("protocol::zmtp::engine::ZmtpEngineConfig", cfg_vals), "cfg"), ())
    h.it.hooks[prog.resolve_method("", "protocol::zmtp::engine::ZmtpEngine", "config", None)] = lambda it, a, d, f: cfg
    # Msg::size of our tagged messages is the symbolic size (wire_size adds the 9 header bytes itself)
    size_fn = prog.resolve_method("", "message::msg::Msg", "size", None)
    def msg_size(it, args, dty, func):
        from ..models import _deref
        m = _deref(args[0])
        return sizes[_msg_tag(m)]
    h.it.hooks[size_fn] = msg_size
    # the pipe from the socket core: hands out the oldest queued messages
    def try_recv_batch(it, args, dty, func):
        out, mx = args[1], args[2]
        vec = out.load()
        avail = len(pipe)
        k = 0
        if is_sym(mx):
            while k < avail and it.ctx.branch(z3.UGT(mx, k)):
                k += 1
        else:
            k = min(avail, mx)
        for _ in range(k):
            vec.f.append(pipe.pop(0))
        return k
    h.it.hooks[prog.resolve_method("", "sessionx::pipe_manager::CorePipeManagerX", "try_recv_batch_from_core", None)] = try_recv_batch
    def stop(it, args, dty, func):
        raise _Stop()
    h.it.hooks[prog.resolve_method("", "throttle::AdaptiveThrottle", "begin_work_bulk", None)] = stop
    # the actor (only current_phase, zmtp_engine, core_pipe_manager are touched by the region)
    fields = prog.struct_fields(ACTOR)
    vals = [Opaque(f) for f in fields]
    vs = prog.enum_variants("sessionx::states::ConnectionPhaseX")
    vals[fields.index("current_phase")] = Enum("sessionx::states::ConnectionPhaseX", vs.index("Operational"), "Operational", [])
    vals[fields.index("handle")] = 1
    actor = Agg(ACTOR, vals)
    coro_ty = "{coroutine@run_loop}"
    sf = SparseF([actor])
    def put(name, v):
        kind = dbg[name]
        assert kind[0] == "field", (name, kind)
        sf[(kind[2] + 1) * 1000 + kind[3]] = v
    # `self` is moved out of the upvar into a saved local: find its place by its type in the region's own code
    i0 = prog.fn_index[clo]
    mm = None
    for ln in prog.lines[i0:i0 + 20000]:
        mm = re.search(r"\(\(\(\*_\d+\) as variant#(\d+)\)\.(\d+): sessionx::actor::SessionConnectionActorX<S>\)", ln)
        if mm or ln.startswith("}"):
            break
    h.check(mm is not None, "c01.setup.actor-place")
    sf[(int(mm.group(1)) + 1) * 1000 + int(mm.group(2))] = actor
    eb = h.method("sessionx::egress_buffer::EgressBuffer", "new")
    hwm_bound = h.params.get("hwm_bound", False)
    owned = True
    pend = 0
    if hwm_bound:
        # C14 (buffering bound): the buffered-write mode, whose gate and batch budget depend on the number of framed
        # messages still waiting in the EgressBuffer (symbolic, below SNDHWM: otherwise the branch is not entered);
        # inductive hypothesis on the carry-over: fewer than SNDBATCH_COUNT messages
        owned = h.choose(2, "write_mode") == 0
        if not owned:
            pend = h.bvar("egress_pending_messages", W)
            h.assume(z3.ULT(pend, hwm))
            ebf = prog.struct_fields("sessionx::egress_buffer::EgressBuffer")
            eb.f[ebf.index("message_count")] = pend
        if not first_path:
            h.assume(z3.UGT(cnt, n_carry) if n_carry > 1 else z3.BoolVal(True))
    put("core_carryover", Seq("vecdeque", [] if first_path else list(carry), "message::FrameBatch"))
    put("outgoing_batch", Seq("vec", [], "message::FrameBatch"))
    put("egress_buffer", eb)
    put("use_owned_write", owned)
    put("sndhwm", hwm)
    put("pending_vectored", Seq("vecdeque", [], "?"))
    if "sndbatch_count" in dbg and dbg["sndbatch_count"][0] == "field":
        put("sndbatch_count", cnt)
    if "adaptive_throttle" in dbg and dbg["adaptive_throttle"][0] == "field":
        put("adaptive_throttle", Opaque("throttle"))
    coro = Ref(Cell(Agg(coro_ty, sf), "coro"), ())
    k = dbg["core_carryover"]
    preset = {k[1]: coro, 2: Opaque("cx")}
    # every local through which the body reaches the coroutine object (`(*_N) as variant#..`) points to it
    for nm, kind in dbg.items():
        if kind[0] == "field":
            preset[kind[1]] = coro
    for ln in prog.lines[prog.fn_index[clo]:prog.fn_index[clo] + 12000]:
        for mb in re.finditer(r"\(\(\*_(\d+)\) as variant#\d+\)", ln):
            preset[int(mb.group(1))] = coro
        if ln.startswith("}"):
            break
    if first_path:
        # entry: the `outgoing_batch.clear()` of the select! arm = the LAST Vec::<FrameBatch>::clear call in source order
        h.check("first_msgs" in dbg, "c01.setup.first-msgs-place", str(dbg.get("first_msgs")))
        if dbg["first_msgs"][0] == "field":
            put("first_msgs", carry[0])
        else:
            preset[dbg["first_msgs"][1]] = carry[0]
        # the arm binds `first_msgs` by moving it out of `maybe_msgs_from_core: Result<FrameBatch, _>`
        if "maybe_msgs_from_core" in dbg and dbg["maybe_msgs_from_core"][0] == "field":
            put("maybe_msgs_from_core", ok(carry[0]))
        best = None
        for bb, raw in body.blocks.items():
            if "Vec::<message::FrameBatch>::clear(" in raw[-1][0]:
                m4 = re.search(r"actor\.rs:(\d+):", raw[-1][1] or "")
                line = int(m4.group(1)) if m4 else -1
                if best is None or line > best[0]:
                    best = (line, bb)
        entry = best[1] if best else None
    else:
        entry = _entry_block(body, f"variant#{k[2]}).{k[3]}:")
    h.check(entry is not None, "c01.setup.entry-block")
    order_before = [_tag_of_batch(h, b) for b in carry + pipe]
    h.panic_role = "c01.batch"
    try:
        h.it.run_body(body, [], start_bb=entry, preset=preset)
        h.check(False, "c01.setup.region-did-not-reach-the-framer")
        return
    except _Stop:
        pass
    batch = [_tag_of_batch(h, b) for b in sf[(dbg["outgoing_batch"][2] + 1) * 1000 + dbg["outgoing_batch"][3]].f]
    left = [_tag_of_batch(h, b) for b in sf[(k[2] + 1) * 1000 + k[3]].f]
    rest = [_tag_of_batch(h, b) for b in pipe]
    after = batch + left + rest
    h.check(sorted(after) == sorted(order_before), "c01.batch.message-lost-or-duplicated-by-batch-assembly", f"before {order_before}, batch {batch} + carry-over {left} + pipe {rest}")
    h.check(after == order_before, "c01.batch.batch-assembly-reorders-messages",
            f"send order {order_before}; this cycle's batch {batch}, still in carry-over {left}, still in the pipe {rest}: a younger message is framed before an older one")
    h.check(len(batch) >= 1, "c01.batch.empty-batch-with-carry-over-pending")
    if hwm_bound:
        nb, nl = len(batch), len(left)
        if not owned:
            # framed messages after this batch is pushed: pending + batch <= SNDHWM (a budget of at least one message
            # is always granted, and pending < SNDHWM here)
            h.check(z3.ULE(pend + nb, hwm), "c14.buffer.batch-exceeds-the-room-left-below-sndhwm",
                    f"batch of {nb} message(s) although SNDHWM minus the framed messages still pending leaves less room")
            h.cover("c14.buffer.budget-limited-by-hwm", nb < n_carry + n_pipe)
        h.check(z3.ULE(z3.BitVecVal(nb, W), cnt), "c14.buffer.batch-larger-than-sndbatch-count", f"batch of {nb}")
        # inductive step for the carry-over: it never holds SNDBATCH_COUNT or more messages
        h.check(z3.ULT(z3.BitVecVal(nl, W), cnt) if nl > 0 else True, "c14.buffer.carry-over-reaches-sndbatch-count",
                f"{nl} message(s) left in the carry-over after a cycle that started with {0 if first_path else n_carry}")
        h.cover("c14.buffer.carry-over-from-pipe-overflow", nl > 0 and len(rest) < n_pipe)
    h.cover("c01.batch.assembled")
    h.cover("c01.batch.topped-up-from-pipe", len(rest) < n_pipe)
    h.cover("c01.batch.left-carry-over", len(left) > 0)


def _msg_tag(m):
    d = m.f[0]                                   # Msg.data: Option<Bytes>
    return d.f[0].f[0] if isinstance(d, Enum) and d.idx == 1 else None


def _tag_of_batch(h, fb):
    from .d_c07 import _frames
    ms = _frames(fb)
    return _msg_tag(ms[0])


def replay_carryover_branch(model, params, role):
    if "reorders" in role or "lost-or-duplicated" in role:
        # The counterexample lives at the level of the loop's variables; natively the same branch is driven through the
        # public API with a workload that leaves [small, HUGE] in the carry-over while small messages wait in the
        # pipe (SNDBATCH_COUNT 4, SNDBATCH_BYTES 8192; sizes 8, 13000, 100, 13000, 100 x5 sent back to back)
        return "batch_order 4 8192 8 13000 100 13000 100 100 100 100 100\n", (lambda out: "REORDERED" in out or "received=[" in out and out.count(",") < 8), \
            "PUSH -> PULL over tcp, burst of mixed sizes with small batch options; expecting the messages to arrive out of order (or not all)"
    return None


# ------------------------------------------------------------------------------------------------
# DEALER: messages accepted while no peer was connected wait in the pending queue; a background task
# (DealerSocketOutgoingProcessor::run, a loop around two nested tokio::select!) must deliver them all
DPROC = "socket::dealer_socket::DealerSocketOutgoingProcessor"
LB = "socket::patterns::load_balancer::LoadBalancer"
ORCH = "socket::patterns::outgoing_orchestrator::OutgoingMessageOrchestrator"
DYN = "<dyn socket::connection_iface::ISocketConnection as socket::connection_iface::ISocketConnection>::"


def dealer_pending_drain(h):
    """n messages were queued (each with queue_activity_notifier.notify_one()) while no peer was attached; then a
    peer with room attaches (peer_availability_notifier.notify_one()). The processor task is polled until it
    parks. Every queued message must have been handed to the peer."""
    from .d_c09 import Fut
    from ..models import _deref
    prog = h.it.prog
    opts_n = h.params.get("queued_options", [1, 2, 3, 4, 17, 33])
    n = opts_n[h.choose(len(opts_n), "queued")]
    attach_first = h.choose(2, "peer_attached_before_the_task_first_runs") == 1
    # the unbiased inner select! picks its start branch at random: explored for the first wake-ups, then fixed (branch 0),
    # which keeps long backlogs tractable
    rng = {"n": 0}
    def thread_rng_n(it, args, dty, func):
        rng["n"] += 1
        if rng["n"] <= h.params.get("explored_rng_draws", 3):
            return h.choose(2, f"select_start{rng['n']}")
        return 0
    h.it.hooks["tokio::macros::support::thread_rng_n"] = thread_rng_n
    def notify():
        return BoxV(Cell(Agg("{notify}", [0, False]), "notify"), ())
    qn, pn, stop = notify(), notify(), notify()
    def mk(tag):
        fb = Ref(Cell(h.method("message::FrameBatch", "new"), "fb"), ())
        h.method("message::FrameBatch", "push", fb, h.method("message::msg::Msg", "from_vec", Seq("vec", [tag])))
        return fb.load()
    queue = Seq("vecdeque", [], "message::FrameBatch")
    qm = BoxV(Cell(Agg("{amutex}", [False, queue]), "pending_queue"), ())
    lb = Ref(Cell(h.method(LB, "new"), "lb"), ())
    orch = BoxV(Cell(Agg(ORCH, [lb.load()]), "orch"), ())
    delivered = []
    def try_send(it, args, dty, func):
        delivered.append(_tag_of_batch(h, args[1]))
        return ok(UNIT)
    h.it.hooks[DYN + "try_send_multipart_owned_sync"] = try_send
    fields = prog.struct_fields(DPROC)
    vals = {"core_handle": 1, "pending_queue": qm, "outgoing_orchestrator": orch, "queue_activity_notifier": qn,
            "peer_availability_notifier": pn, "stop_signal": stop}
    proc = Agg(DPROC, [vals[f] for f in fields])
    def notify_one(nb):
        nb.load().f[1] = True
    # the application sends n messages while no peer is connected: DealerSocket::queue_message_or_error pushes and notifies
    for t in range(1, n + 1):
        queue.f.append(mk(t))
        notify_one(qn)
    def attach():
        h.method(LB, "add_connection", Ref(Cell(orch.load().f[0], "lb2"), ()), string("peer"), BoxV(Cell(Agg("{peer}", [0]), "peer0"), (), "{peer}"))
        notify_one(pn)
    h.panic_role = "c01.dealer-drain"
    f = Fut(h, DPROC, "run", [proc])
    if attach_first:
        attach()
    for step in range(4 * n + 8):
        r = f.poll()
        h.check(r is None, "c01.dealer-drain.processor-task-exited")
        if r is not None:
            return
        if not attach_first and step == 0:
            attach()            # the connection is established after the task looked at the queue for the first time
            continue
        # parked: polled again only if a notification is pending
        if not (qn.load().f[1] or pn.load().f[1]):
            break
    left = [_tag_of_batch(h, b) for b in queue.f]
    h.check(not left, "c01.dealer-drain.messages-stay-in-the-pending-queue-although-a-peer-has-room",
            f"{n} message(s) queued before the peer attached; delivered {delivered}; still queued {left} with the processor task parked and no notification pending")
    h.check(delivered == list(range(1, n + 1 - len(left))), "c01.dealer-drain.order", str(delivered))
    h.cover("c01.dealer-drain.drained", not left)
    h.cover("c01.dealer-drain.several-queued", n >= 3)
    h.cover("c01.dealer-drain.long-backlog", n >= 17)


def replay_dealer_pending_drain(model, params, role):
    ch = dict(map(tuple, model.get("_choices", [])))
    opts_n = params.get("queued_options", [1, 2, 3, 4, 17, 33])
    n = opts_n[ch.get("queued", 0)]
    if "messages-stay-in-the-pending-queue" in role:
        if n >= 17:
            # a long backlog built while no peer exists at all: all sends before connect()
            return f"dealer_burst {4 * n} pre\n", (lambda out: "STUCK" in out), \
                f"DEALER sends {4 * n} messages, then connects to a ROUTER; expecting some of them never to arrive"
        # public API: the messages are sent right after connect(), i.e. while the connection is still being established
        return "dealer_burst 5\n", (lambda out: "STUCK" in out), \
            "DEALER connects to a ROUTER and sends 5 messages at once; expecting some of them never to arrive"
    return None


# ------------------------------------------------------------------------------------------------
# C15 kernel: what the session holds when it is told to stop gracefully
def graceful_stop_with_pending_output(h):
    """The session actor has just processed Command::Stop without error (phase ShuttingDownStream) while it still
    holds accepted messages: k framed chunks in its egress buffer and m messages in the carry-over. Region mode from
    the head of the operational loop to perform_graceful_shutdown (which shuts the write half down)."""
    prog = h.it.prog
    fn = prog.resolve_method("", ACTOR, "run_loop", None)
    clo = fn + "::{closure#0}"
    body = prog.body(clo)
    dbg = _debug_places(prog, clo)
    k = h.choose(3, "framed_chunks")
    m = h.choose(3, "carryover_messages")
    if k + m == 0:
        raise PathAbort("nothing pending")
    fields = prog.struct_fields(ACTOR)
    vals = [Opaque(f) for f in fields]
    vs = prog.enum_variants("sessionx::states::ConnectionPhaseX")
    vals[fields.index("current_phase")] = Enum("sessionx::states::ConnectionPhaseX", vs.index("ShuttingDownStream"), "ShuttingDownStream", [])
    vals[fields.index("handle")] = 1
    for nm in ("read_half", "write_half"):
        vals[fields.index(nm)] = none()
    actor = Agg(ACTOR, vals)
    sf = SparseF([actor])
    i0 = prog.fn_index[clo]
    mm = None
    for ln in prog.lines[i0:i0 + 20000]:
        mm = re.search(r"\(\(\(\*_(\d+)\) as variant#(\d+)\)\.(\d+): sessionx::actor::SessionConnectionActorX<S>\)", ln)
        if mm or ln.startswith("}"):
            break
    sf[(int(mm.group(2)) + 1) * 1000 + int(mm.group(3))] = actor
    def put(name, v):
        kind = dbg[name]
        sf[(kind[2] + 1) * 1000 + kind[3]] = v
    eb = Ref(Cell(h.method("sessionx::egress_buffer::EgressBuffer", "new"), "eb"), ())
    for i in range(k):
        h.method("sessionx::egress_buffer::EgressBuffer", "push", eb, Seq("bytes", [h.byte(f"chunk{i}")]), 1)
    def mk(tag):
        fb = Ref(Cell(h.method("message::FrameBatch", "new"), "fb"), ())
        h.method("message::FrameBatch", "push", fb, h.method("message::msg::Msg", "from_vec", Seq("vec", [tag])))
        return fb.load()
    put("egress_buffer", eb.load())
    put("core_carryover", Seq("vecdeque", [mk(t) for t in range(1, m + 1)], "message::FrameBatch"))
    put("outgoing_batch", Seq("vec", [], "message::FrameBatch"))
    put("pending_vectored", Seq("vecdeque", [], "?"))
    put("use_owned_write", False)
    put("sndhwm", 8)
    for nm in ("read_half", "write_half"):
        if nm in dbg and dbg[nm][0] == "field":
            put(nm, Agg("{" + nm + "}", []))
    if "ingress_buffer" in dbg and dbg["ingress_buffer"][0] == "field":
        put("ingress_buffer", Seq("vecdeque", [], "message::FrameBatch"))
    coro = Ref(Cell(Agg("{coroutine@run_loop}", sf), "coro"), ())
    # entry: the `while self.current_phase == Operational` test = the first comparison of current_phase after the
    # declaration of core_carryover, in source order
    decl = None
    i = i0
    while not prog.lines[i].lstrip().startswith("bb0:"):
        m2 = re.match(r"^\s*debug core_carryover => .*actor\.rs:(\d+):", prog.lines[i])
        if m2:
            decl = int(m2.group(1))
        i += 1
    best = None
    for bb, raw in body.blocks.items():
        if "ConnectionPhaseX as std::cmp::PartialEq>::eq(" in raw[-1][0]:
            m3 = re.search(r"actor\.rs:(\d+):", raw[-1][1] or "")
            line = int(m3.group(1)) if m3 else 10 ** 9
            if decl is not None and line > decl and (best is None or line < best[0]):
                best = (line, bb)
    h.check(best is not None, "c15.setup.entry-block")
    written = []
    def stop(it, args, dty, func):
        raise _Stop()
    h.it.hooks[prog.resolve_method("", ACTOR, "perform_graceful_shutdown", None)] = stop
    def extern(it, plain, args, dty, func):
        # anything written to the stream on the way out counts as flushed
        if "write_all" in plain or "write_vectored" in plain or plain.endswith("::write") or "poll_write" in plain:
            written.append(plain)
            return Agg("{future}", ["write"])
        if plain.endswith("Future>::poll"):
            return Enum("std::task::Poll", 0, "Ready", [ok(UNIT)])
        if plain.endswith("IntoFuture>::into_future") or plain.startswith("std::pin::Pin::"):
            return args[0]
        return NotImplemented
    h.it.extern = extern
    h.panic_role = "c15.graceful-stop"
    try:
        h.it.run_body(body, [], start_bb=best[1], preset={dbg["core_carryover"][1]: coro, 2: Opaque("cx")})
    except _Stop:
        pass
    ebv = sf[(dbg["egress_buffer"][2] + 1) * 1000 + dbg["egress_buffer"][3]]
    left_bytes = h.method("sessionx::egress_buffer::EgressBuffer", "total_pending_bytes", Ref(Cell(ebv, "eb2"), ()))
    left_msgs = len(sf[(dbg["core_carryover"][2] + 1) * 1000 + dbg["core_carryover"][3]].f)
    h.check(left_bytes == 0 and left_msgs == 0 or bool(written), "c15.graceful-stop.accepted-output-discarded-when-the-session-stops",
            f"graceful Stop with {k} framed chunk(s) in the egress buffer and {m} message(s) in the carry-over: the operational loop exits and "
            f"perform_graceful_shutdown is reached with {left_bytes} framed byte(s) and {left_msgs} message(s) still held and nothing written - they are dropped with the loop's locals")
    h.cover("c15.graceful-stop.reached-shutdown")


def replay_graceful_stop_with_pending_output(model, params, role):
    if "accepted-output-discarded" in role:
        return "linger_flush 5000 4096 10000\n", (lambda out: "DISCARDED" in out), \
            "PUSH with LINGER=10 s, 5000 x 4 KiB messages accepted, then close() + term(); expecting term to return at once and the peer to receive only part of them"
    return None
