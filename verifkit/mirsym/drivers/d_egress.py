"""EgressBuffer (session write queue): byte-stream integrity under every partial-write split and
priority (PING/PONG) insertion at chunk boundaries only. Serves C01 (kernel 1) and C19 (PONG placement)."""
import z3
from ..values import *
from ..models import conj
from .common import *

EB = "sessionx::egress_buffer::EgressBuffer"


def op_sequences(h):
    k = h.params.get("ops", 5)
    maxlen = h.params.get("chunk_len", 3)
    eb = Ref(Cell(h.method(EB, "new"), "egress"), ())
    h.panic_role = "egress"
    ref = []          # reference queue: [bytes(list), msg_count, written]
    uid = 0
    for step in range(k):
        op = h.choose(3, f"op{step}")
        if op in (0, 1):
            n = 1 + h.choose(maxlen, f"len{step}")
            data = h.bytes(f"c{step}", n)
            if op == 0:
                cnt = h.choose(3, f"cnt{step}")
                h.method(EB, "push", eb, Seq("bytes", list(data)), cnt)
                ref.append([list(data), cnt, 0])
            else:
                h.method(EB, "push_priority", eb, Seq("bytes", list(data)))
                # spec: ahead of queued data, but never inside a chunk that is already partly on the wire
                pos = 1 if (ref and ref[0][2] > 0) else 0
                ref.insert(pos, [list(data), 0, 0])
                h.cover("egress.priority-behind-partial-head", pos == 1)
        else:
            avail = sum(len(c[0]) - c[2] for c in ref)
            if avail == 0:
                sl = h.method(EB, "current_slice", eb)
                h.check(sl.idx == 0, "egress.slice-on-empty")
                continue
            n = 1 + h.choose(min(avail, 4), f"w{step}")
            # what the writer is shown: current_slice must be exactly the unwritten rest of the head chunk
            sl = h.method(EB, "current_slice", eb)
            h.check(sl.idx == 1, "egress.no-slice-although-pending")
            head = ref[0]
            shown = list(sl.f[0].items())
            want = head[0][head[2]:]
            h.check(len(shown) == len(want) and conj([bv(a, 8) == bv(b, 8) for a, b in zip(shown, want)]),
                    "egress.current-slice-differs-from-unwritten-head",
                    "the bytes offered to the writer are not the unwritten remainder of the oldest chunk (a chunk was split or reordered)")
            popped = h.method(EB, "advance", eb, n)
            # reference advance
            left, exp_popped = n, 0
            while left > 0 and ref:
                rem = len(ref[0][0]) - ref[0][2]
                if left >= rem:
                    left -= rem
                    exp_popped += ref[0][1]
                    ref.pop(0)
                else:
                    ref[0][2] += left
                    left = 0
            h.check(popped == exp_popped, "egress.advance-popped-count")
            h.cover("egress.partial-write", bool(ref) and ref[0][2] > 0)
        pm = h.method(EB, "pending_messages", eb)
        tb = h.method(EB, "total_pending_bytes", eb)
        h.check(pm == sum(c[1] for c in ref), "egress.pending-messages", f"pending_messages={pm} expected {sum(c[1] for c in ref)}")
        h.check(tb == sum(len(c[0]) - c[2] for c in ref), "egress.total-pending-bytes")
        h.check(h.method(EB, "is_empty", eb) == (not ref), "egress.is-empty")
    # whatever the history was, the next bytes offered to the writer are the unwritten rest of the oldest chunk
    sl = h.method(EB, "current_slice", eb)
    if ref:
        shown = list(sl.f[0].items()) if sl.idx == 1 else None
        want = ref[0][0][ref[0][2]:]
        h.check(shown is not None and len(shown) == len(want) and conj([bv(a, 8) == bv(b, 8) for a, b in zip(shown, want)]),
                "egress.final-slice-differs-from-unwritten-head",
                "after the history the bytes offered next are not the unwritten remainder of the oldest chunk")
    else:
        h.check(sl.idx == 0, "egress.slice-on-empty")


def replay_op_sequences(model, params, role):
    d = dict(map(tuple, model.get("_choices", [])))
    k = params.get("ops", 5)
    lines, ref, want = ["eb_new"], [], []
    for step in range(k):
        if f"op{step}" not in d:
            break
        op = d[f"op{step}"]
        if op in (0, 1):
            n = 1 + d.get(f"len{step}", 0)
            hx = model.get(f"c{step}", "")
            data = (bytes.fromhex(hx) if isinstance(hx, str) else b"")[:n]
            data = data + bytes(n - len(data))
            if op == 0:
                cnt = d.get(f"cnt{step}", 0)
                lines.append(f"eb_push {data.hex()} {cnt}")
                ref.append([data, cnt, 0])
            else:
                lines.append(f"eb_prio {data.hex()}")
                ref.insert(1 if (ref and ref[0][2] > 0) else 0, [data, 0, 0])
        else:
            avail = sum(len(c[0]) - c[2] for c in ref)
            if avail == 0:
                continue
            n = 1 + d.get(f"w{step}", 0)
            lines.append(f"eb_write {n}")
            want.append("slice " + ref[0][0][ref[0][2]:].hex())
            left, popped = n, 0
            while left > 0 and ref:
                rem = len(ref[0][0]) - ref[0][2]
                if left >= rem:
                    left -= rem
                    popped += ref[0][1]
                    ref.pop(0)
                else:
                    ref[0][2] += left
                    left = 0
            want.append(f"advanced popped={popped} pending={sum(c[1] for c in ref)} bytes={sum(len(c[0]) - c[2] for c in ref)}")
    lines.append("eb_write 0")
    want.append("slice " + (ref[0][0][ref[0][2]:].hex() if ref else "none"))
    def pred(out):
        got = [l.strip() for l in out.splitlines() if l.startswith(("slice ", "advanced "))]
        got = [g for g in got if not (g.startswith("advanced") and got.index(g) == len(got) - 1)]
        return got[:len(want)] != want
    return "\n".join(lines) + "\n", pred, "operation sequence replayed natively against the reference byte stream"
