"""C10 kernel: the REQ state machine under peer-detach events (ReqSocket::pipe_detached executed from MIR
on a hand-assembled ReqSocket value; everything outside the state handling is stubbed)."""
import z3
from ..values import *
from ..models import MapV
from .common import *

REQ = "socket::req_socket::ReqSocket"


def _lock(v):
    return Agg("{lock}", [v])


def req_pipe_detached(h):
    st = h.choose(2, "state")                  # 0 ReadyToSend, 1 ExpectingReply{peer A}
    pipe = 1 + h.choose(3, "detached_pipe")    # 1 = peer A (holds the request), 2 = peer B, 3 = unknown pipe
    lb = h.method("socket::patterns::load_balancer::LoadBalancer", "new")
    lbref = Ref(Cell(lb, "lb"), ())
    for u in ("uA", "uB"):
        h.method("socket::patterns::load_balancer::LoadBalancer", "add_connection", lbref, string(u), BoxV(Cell(Opaque("iface"), "iface"), ()))
    variants = h.it.prog.enum_variants("socket::req_socket::ReqState")      # from the current source
    ex = variants.index("ExpectingReply")
    state = Enum("socket::req_socket::ReqState", ex, "ExpectingReply", [string("uA")]) if st else Enum("socket::req_socket::ReqState", variants.index("ReadyToSend"), "ReadyToSend", [])
    uris = MapV("HashMap", [(1, string("uA")), (2, string("uB"))])
    vals = {"core": BoxV(Cell(Opaque("core"), "core"), ()), "load_balancer": lbref.load(), "ingress_engine": Opaque("ingress"),
            "pending_pipe_senders": _lock(MapV("HashMap", [])), "state": _lock(state),
            "reply_available_notifier": BoxV(Cell(Agg("{notify}", []), "notify"), ()), "pipe_read_to_endpoint_uri": _lock(uris)}
    sock = Agg(REQ, [vals.get(f, Opaque(f)) for f in h.it.prog.struct_fields(REQ)])
    sref = Ref(Cell(sock, "req"), ())
    # everything that is not REQ state handling is a no-op here
    h.it.hooks["socket::patterns::addressed_ingress::AddressedIngressEngine::deregister_pipe"] = lambda it, a, d, f: UNIT
    fn0 = h.it.prog.resolve_method("", "socket::patterns::addressed_ingress::AddressedIngressEngine", "deregister_pipe", None)
    if fn0:
        h.it.hooks[fn0] = lambda it, a, d, f: UNIT
    h.panic_role = "c10.req-detach"
    fn = h.it.prog.resolve_method("", REQ, "pipe_detached", "ISocket")
    fut = h.it.run_body(h.it.prog.body(fn), [sref, pipe])
    coro = fut
    while isinstance(coro, Ref) and not (isinstance(coro.load(), Agg) and str(coro.load().ty).startswith("{coroutine")):
        coro = coro.load()
    r = h.it.run_body(h.it.prog.body(fn + "::{closure#0}"), [coro, Opaque("cx")])
    h.check(isinstance(r, Enum) and r.vname == "Ready", "c10.req-detach.did-not-complete")
    after = sref.load().f[4].f[0]
    if st == 1 and pipe == 1:
        h.check(after.vname == "ReadyToSend", "c10.req-detach.request-holder-left-but-socket-still-expects-reply")
        h.cover("c10.req-detach.holder-left")
    else:
        want = "ExpectingReply" if st else "ReadyToSend"
        h.check(after.vname == want, "c10.req-detach.unrelated-detach-changed-the-request-state",
                f"state was {want}, pipe {pipe} (not the request holder) detached, state is now {after.vname}")
        h.cover("c10.req-detach.unrelated")


# ------------------------------------------------------------------------------------------------
# REQ: alternation over call histories (single caller), through the real send() and recv() coroutines
def req_history(h):
    """ReqSocket::{send, recv} (coroutine MIR; recv contains a biased tokio::select! over the reply notifier and the
    ingress engine) on a hand-assembled socket with one peer and the real AddressedIngressEngine; RCVTIMEO = 0.
    All histories of k operations from {send, recv, a reply arrives}. Successful operations must alternate
    send, recv, send, ...; a refused call is an InvalidState error and changes nothing."""
    from .d_c09 import Fut, _req_socket, DYN
    from .d_c02 import _mk_msg, _tag
    from ..models import some, none, ok, err, dur_ns, _deref
    prog = h.it.prog
    k = h.params.get("ops", 4)
    sock, lb, fields, variants = _req_socket(h, peers=1)
    AIE2 = "socket::patterns::addressed_ingress::AddressedIngressEngine"
    PMS = "socket::patterns::ready_pipe_queue::PipeMessageSender"
    eng = Ref(Cell(h.method(AIE2, "new", 4), "ingress"), ())
    snd = Ref(Cell(h.method(AIE2, "register_pipe", eng, 0, 4, 1), "s0"), ())
    sock.load().f[fields.index("ingress_engine")] = eng.load()
    # RCVTIMEO = 0 in the core's options
    core = sock.load().f[fields.index("core")].load()
    cf = prog.struct_fields("socket::core::SocketCore")
    cs = core.f[cf.index("core_state")].f[0]
    csf = prog.struct_fields("socket::core::state::CoreState")
    opts = cs.f[csf.index("options")]
    of = prog.struct_fields("socket::options::SocketOptions")
    opts.f[of.index("rcvtimeo")] = some(dur_ns(0))
    sent = {"n": 0}
    def iface_send(it, args, dty, func):
        return Agg("{future}", ["peer_send"])
    h.it.hooks[DYN + "send_multipart"] = iface_send
    def extern(it, plain, args, dty, func):
        if plain.endswith("Future>::poll"):
            fut = _deref(args[0])
            while isinstance(fut, BoxV):
                fut = _deref(fut.load())
            if isinstance(fut, Agg) and fut.ty == "{future}":
                sent["n"] += 1
                return Enum("std::task::Poll", 0, "Ready", [ok(UNIT)])
            return NotImplemented
        if plain.endswith("BoundedAsyncSender::is_closed"):
            return False
        if plain.endswith("IntoFuture>::into_future") or plain.startswith("std::pin::Pin::"):
            return args[0]
        return NotImplemented
    h.it.extern = extern
    h.panic_role = "c10.req-history"
    def state_name():
        return sock.load().f[fields.index("state")].f[0].vname
    expecting = False
    queued = []             # replies waiting in the ingress engine
    nxt = 0x30
    last_ok = None
    for i in range(k):
        op = h.choose(3, f"op{i}")        # 0 send, 1 recv, 2 a reply arrives
        if op == 2:
            fb = Ref(Cell(h.method("message::FrameBatch", "new"), "fb"), ())
            # REP's empty delimiter frame (MORE), then the reply
            d0 = Ref(Cell(h.method("message::msg::Msg", "new"), "delim"), ())
            fl = h.it.run_body(prog.body(h.it.resolve_fn("message::flags::_::<impl message::flags::MsgFlags>::from_bits_retain", "")), [1])
            h.method("message::msg::Msg", "set_flags", d0, fl)
            h.method("message::FrameBatch", "push", fb, d0.load())
            m = _mk_msg(h, nxt, False)
            h.method("message::FrameBatch", "push", fb, m)
            # the delimiter frame is empty: rebuild it without payload
            r = h.method(PMS, "try_send_sync", snd, fb.load())
            h.check(r.idx == 0, "c10.req-history.setup-enqueue")
            queued.append(nxt)
            nxt += 1
            continue
        before = state_name()
        if op == 0:
            f = Fut(h, "socket::req_socket::ReqSocket", "send", [sock, h.method("message::msg::Msg", "new")], trait="ISocket")
            r = f.poll()
            h.check(r is not None, "c10.req-history.send-parked")
            if r is None:
                return
            if expecting:
                h.check(r.idx == 1 and r.f[0].vname == "InvalidState", "c10.req-history.second-send-without-recv-not-refused", repr(r)[:80])
                h.check(state_name() == before, "c10.req-history.refused-call-changed-the-state")
            else:
                h.check(r.idx == 0, "c10.req-history.valid-send-refused", repr(r)[:80])
                expecting = True
                h.check(last_ok != "send", "c10.req-history.two-sends-in-a-row")
                last_ok = "send"
        else:
            f = Fut(h, "socket::req_socket::ReqSocket", "recv", [sock], trait="ISocket")
            r = f.poll()
            h.check(r is not None, "c10.req-history.nonblocking-recv-parked")
            if r is None:
                return
            if not expecting:
                h.check(r.idx == 1 and r.f[0].vname == "InvalidState", "c10.req-history.recv-without-request-not-refused", repr(r)[:80])
                h.check(state_name() == before, "c10.req-history.refused-call-changed-the-state")
            elif not queued:
                h.check(r.idx == 1, "c10.req-history.recv-succeeded-without-a-reply")
                h.check(state_name() == "ExpectingReply", "c10.req-history.failed-recv-changed-the-state", state_name())
            else:
                h.check(r.idx == 0, "c10.req-history.reply-not-returned", repr(r)[:80])
                if r.idx == 0:
                    h.check(_tag(r.f[0]) == queued[0], "c10.req-history.wrong-reply", f"{_tag(r.f[0])} vs {queued}")
                    queued.pop(0)
                    expecting = False
                    h.check(last_ok == "send", "c10.req-history.recv-without-preceding-send")
                    last_ok = "recv"
                    h.cover("c10.req-history.request-reply-cycle")
        h.check(state_name() == ("ExpectingReply" if expecting else "ReadyToSend"), "c10.req-history.state-differs-from-reference", f"{state_name()} expecting={expecting}")


def replay_req_history(model, params, role):
    if any(x in role for x in ("failed-recv-changed-the-state", "second-send-without-recv-not-refused", "state-differs-from-reference", "two-sends-in-a-row", "refused-call-changed-the-state")):
        return "req_timeout_then_send\n", (lambda out: "SECOND SEND ACCEPTED" in out), \
            "REQ with RCVTIMEO=100 ms against a REP that never answers: send, recv (times out), send; expecting the second send to be accepted"
    return None
