"""C10 kernel: the REQ state machine under peer-detach events (ReqSocket::pipe_detached executed from MIR
on a hand-assembled ReqSocket value; everything outside the state handling is stubbed)."""
import z3
from ..values import *
from ..models import MapV
from .common import *

REQ = "socket::req_socket::ReqSocket"


def _lock(v):
    return Agg("{lock}", [v])


def req_pipe_detached(h):
    st = h.choose(2, "state")                  # 0 ReadyToSend, 1 ExpectingReply{peer A}
    pipe = 1 + h.choose(3, "detached_pipe")    # 1 = peer A (holds the request), 2 = peer B, 3 = unknown pipe
    lb = h.method("socket::patterns::load_balancer::LoadBalancer", "new")
    lbref = Ref(Cell(lb, "lb"), ())
    for u in ("uA", "uB"):
        h.method("socket::patterns::load_balancer::LoadBalancer", "add_connection", lbref, string(u), BoxV(Cell(Opaque("iface"), "iface"), ()))
    variants = h.it.prog.enum_variants("socket::req_socket::ReqState")      # from the current source
    ex = variants.index("ExpectingReply")
    state = Enum("socket::req_socket::ReqState", ex, "ExpectingReply", [string("uA")]) if st else Enum("socket::req_socket::ReqState", variants.index("ReadyToSend"), "ReadyToSend", [])
    uris = MapV("HashMap", [(1, string("uA")), (2, string("uB"))])
    vals = {"core": BoxV(Cell(Opaque("core"), "core"), ()), "load_balancer": lbref.load(), "ingress_engine": Opaque("ingress"),
            "pending_pipe_senders": _lock(MapV("HashMap", [])), "state": _lock(state),
            "reply_available_notifier": BoxV(Cell(Agg("{notify}", []), "notify"), ()), "pipe_read_to_endpoint_uri": _lock(uris)}
    sock = Agg(REQ, [vals.get(f, Opaque(f)) for f in h.it.prog.struct_fields(REQ)])
    sref = Ref(Cell(sock, "req"), ())
    # everything that is not REQ state handling is a no-op here
    h.it.hooks["socket::patterns::addressed_ingress::AddressedIngressEngine::deregister_pipe"] = lambda it, a, d, f: UNIT
    fn0 = h.it.prog.resolve_method("", "socket::patterns::addressed_ingress::AddressedIngressEngine", "deregister_pipe", None)
    if fn0:
        h.it.hooks[fn0] = lambda it, a, d, f: UNIT
    h.panic_role = "c10.req-detach"
    fn = h.it.prog.resolve_method("", REQ, "pipe_detached", "ISocket")
    fut = h.it.run_body(h.it.prog.body(fn), [sref, pipe])
    coro = fut
    while isinstance(coro, Ref) and not (isinstance(coro.load(), Agg) and str(coro.load().ty).startswith("{coroutine")):
        coro = coro.load()
    r = h.it.run_body(h.it.prog.body(fn + "::{closure#0}"), [coro, Opaque("cx")])
    h.check(isinstance(r, Enum) and r.vname == "Ready", "c10.req-detach.did-not-complete")
    after = sref.load().f[4].f[0]
    if st == 1 and pipe == 1:
        h.check(after.vname == "ReadyToSend", "c10.req-detach.request-holder-left-but-socket-still-expects-reply")
        h.cover("c10.req-detach.holder-left")
    else:
        want = "ExpectingReply" if st else "ReadyToSend"
        h.check(after.vname == want, "c10.req-detach.unrelated-detach-changed-the-request-state",
                f"state was {want}, pipe {pipe} (not the request holder) detached, state is now {after.vname}")
        h.cover("c10.req-detach.unrelated")
