"""C10 kernel: the REQ state machine under peer-detach events (ReqSocket::pipe_detached executed from MIR
on a hand-assembled ReqSocket value; everything outside the state handling is stubbed)."""
import z3
from ..values import *
from ..models import MapV
from .common import *

REQ = "socket::req_socket::ReqSocket"


def _lock(v):
    return Agg("{lock}", [v])


def req_pipe_detached(h):
    st = h.choose(2, "state")                  # 0 ReadyToSend, 1 ExpectingReply{peer A}
    pipe = 1 + h.choose(3, "detached_pipe")    # 1 = peer A (holds the request), 2 = peer B, 3 = unknown pipe
    lb = h.method("socket::patterns::load_balancer::LoadBalancer", "new")
    lbref = Ref(Cell(lb, "lb"), ())
    for u in ("uA", "uB"):
        h.method("socket::patterns::load_balancer::LoadBalancer", "add_connection", lbref, string(u), BoxV(Cell(Opaque("iface"), "iface"), ()))
    variants = h.it.prog.enum_variants("socket::req_socket::ReqState")      # from the current source
    ex = variants.index("ExpectingReply")
    state = Enum("socket::req_socket::ReqState", ex, "ExpectingReply", [string("uA")]) if st else Enum("socket::req_socket::ReqState", variants.index("ReadyToSend"), "ReadyToSend", [])
    uris = MapV("HashMap", [(1, string("uA")), (2, string("uB"))])
    vals = {"core": BoxV(Cell(Opaque("core"), "core"), ()), "load_balancer": lbref.load(), "ingress_engine": Opaque("ingress"),
            "pending_pipe_senders": _lock(MapV("HashMap", [])), "state": _lock(state),
            "reply_available_notifier": BoxV(Cell(Agg("{notify}", []), "notify"), ()), "pipe_read_to_endpoint_uri": _lock(uris)}
    sock = Agg(REQ, [vals.get(f, Opaque(f)) for f in h.it.prog.struct_fields(REQ)])
    sref = Ref(Cell(sock, "req"), ())
    # everything that is not REQ state handling is a no-op here
    h.it.hooks["socket::patterns::addressed_ingress::AddressedIngressEngine::deregister_pipe"] = lambda it, a, d, f: UNIT
    fn0 = h.it.prog.resolve_method("", "socket::patterns::addressed_ingress::AddressedIngressEngine", "deregister_pipe", None)
    if fn0:
        h.it.hooks[fn0] = lambda it, a, d, f: UNIT
    h.panic_role = "c10.req-detach"
    fn = h.it.prog.resolve_method("", REQ, "pipe_detached", "ISocket")
    fut = h.it.run_body(h.it.prog.body(fn), [sref, pipe])
    coro = fut
    while isinstance(coro, Ref) and not (isinstance(coro.load(), Agg) and str(coro.load().ty).startswith("{coroutine")):
        coro = coro.load()
    r = h.it.run_body(h.it.prog.body(fn + "::{closure#0}"), [coro, Opaque("cx")])
    h.check(isinstance(r, Enum) and r.vname == "Ready", "c10.req-detach.did-not-complete")
    after = sref.load().f[4].f[0]
    if st == 1 and pipe == 1:
        h.check(after.vname == "ReadyToSend", "c10.req-detach.request-holder-left-but-socket-still-expects-reply")
        h.cover("c10.req-detach.holder-left")
    else:
        want = "ExpectingReply" if st else "ReadyToSend"
        h.check(after.vname == want, "c10.req-detach.unrelated-detach-changed-the-request-state",
                f"state was {want}, pipe {pipe} (not the request holder) detached, state is now {after.vname}")
        h.cover("c10.req-detach.unrelated")


# ------------------------------------------------------------------------------------------------
# REQ: alternation over call histories (single caller), through the real send() and recv() coroutines
def req_history(h):
    """ReqSocket::{send, recv} (coroutine MIR; recv contains a biased tokio::select! over the reply notifier and the
    ingress engine) on a hand-assembled socket with one peer and the real AddressedIngressEngine; RCVTIMEO = 0.
    All histories of k operations from {send, recv, a reply arrives}. Successful operations must alternate
    send, recv, send, ...; a refused call is an InvalidState error and changes nothing."""
    from .d_c09 import Fut, _req_socket, DYN
    from .d_c02 import _mk_msg, _tag
    from .d_c07 import _frames
    from ..models import some, none, ok, err, dur_ns, _deref
    prog = h.it.prog
    k = h.params.get("ops", 4)
    sock, lb, fields, variants = _req_socket(h, peers=1)
    AIE2 = "socket::patterns::addressed_ingress::AddressedIngressEngine"
    PMS = "socket::patterns::ready_pipe_queue::PipeMessageSender"
    eng = Ref(Cell(h.method(AIE2, "new", max(4, k)), "ingress"), ())
    snd = Ref(Cell(h.method(AIE2, "register_pipe", eng, 0, max(4, k), 1), "s0"), ())
    sock.load().f[fields.index("ingress_engine")] = eng.load()
    # RCVTIMEO = 0 in the core's options
    core = sock.load().f[fields.index("core")].load()
    cf = prog.struct_fields("socket::core::SocketCore")
    cs = core.f[cf.index("core_state")].f[0]
    csf = prog.struct_fields("socket::core::state::CoreState")
    opts = cs.f[csf.index("options")]
    of = prog.struct_fields("socket::options::SocketOptions")
    opts.f[of.index("rcvtimeo")] = some(dur_ns(0))
    sent = {"n": 0, "wire": []}
    def iface_send(it, args, dty, func):
        from .d_c07 import _flag
        sent["wire"].append([(_tag(m), bool(_flag(m, 1))) for m in _frames(args[1])])
        return Agg("{future}", ["peer_send"])
    h.it.hooks[DYN + "send_multipart"] = iface_send
    def extern(it, plain, args, dty, func):
        if plain.endswith("Future>::poll"):
            fut = _deref(args[0])
            while isinstance(fut, BoxV):
                fut = _deref(fut.load())
            if isinstance(fut, Agg) and fut.ty == "{future}":
                sent["n"] += 1
                return Enum("std::task::Poll", 0, "Ready", [ok(UNIT)])
            return NotImplemented
        if plain.endswith("BoundedAsyncSender::is_closed"):
            return False
        if plain.endswith("IntoFuture>::into_future") or plain.startswith("std::pin::Pin::"):
            return args[0]
        return NotImplemented
    h.it.extern = extern
    h.panic_role = "c10.req-history"
    def state_name():
        return sock.load().f[fields.index("state")].f[0].vname
    expecting = False
    queued = []             # replies waiting in the ingress engine
    nxt = 0x30
    last_ok = None
    for i in range(k):
        op = h.choose(3, f"op{i}")        # 0 send, 1 recv, 2 a reply arrives
        if op == 2:
            fb = Ref(Cell(h.method("message::FrameBatch", "new"), "fb"), ())
            # REP's empty delimiter frame (MORE), then the reply
            d0 = Ref(Cell(h.method("message::msg::Msg", "new"), "delim"), ())
            fl = h.it.run_body(prog.body(h.it.resolve_fn("message::flags::_::<impl message::flags::MsgFlags>::from_bits_retain", "")), [1])
            h.method("message::msg::Msg", "set_flags", d0, fl)
            h.method("message::FrameBatch", "push", fb, d0.load())
            m = _mk_msg(h, nxt, False)
            h.method("message::FrameBatch", "push", fb, m)
            # the delimiter frame is empty: rebuild it without payload
            r = h.method(PMS, "try_send_sync", snd, fb.load())
            h.check(r.idx == 0, "c10.req-history.setup-enqueue")
            queued.append(nxt)
            nxt += 1
            continue
        before = state_name()
        if op == 0:
            req_more = h.choose(2, f"request_more_flag{i}") == 1        # the application may leave MORE set on the request frame
            n_wire = len(sent["wire"])
            f = Fut(h, "socket::req_socket::ReqSocket", "send", [sock, _mk_msg(h, 0x51, req_more)], trait="ISocket")
            r = f.poll()
            h.check(r is not None, "c10.req-history.send-parked")
            if r is not None and r.idx == 0:
                # C02 clause on the REQ path: the request reaches the connection as [empty delimiter (MORE), request (no MORE)]
                h.check(sent["wire"][n_wire:] == [[(None, True), (0x51, False)]], "c10.req-history.request-envelope-or-flags-wrong-on-the-wire", str(sent["wire"][n_wire:]))
            if r is None:
                return
            if expecting:
                h.check(r.idx == 1 and r.f[0].vname == "InvalidState", "c10.req-history.second-send-without-recv-not-refused", repr(r)[:80])
                h.check(state_name() == before, "c10.req-history.refused-call-changed-the-state")
            else:
                h.check(r.idx == 0, "c10.req-history.valid-send-refused", repr(r)[:80])
                expecting = True
                h.check(last_ok != "send", "c10.req-history.two-sends-in-a-row")
                last_ok = "send"
        else:
            f = Fut(h, "socket::req_socket::ReqSocket", "recv", [sock], trait="ISocket")
            r = f.poll()
            h.check(r is not None, "c10.req-history.nonblocking-recv-parked")
            if r is None:
                return
            if not expecting:
                h.check(r.idx == 1 and r.f[0].vname == "InvalidState", "c10.req-history.recv-without-request-not-refused", repr(r)[:80])
                h.check(state_name() == before, "c10.req-history.refused-call-changed-the-state")
            elif not queued:
                h.check(r.idx == 1, "c10.req-history.recv-succeeded-without-a-reply")
                h.check(state_name() == "ExpectingReply", "c10.req-history.failed-recv-changed-the-state", state_name())
            else:
                h.check(r.idx == 0, "c10.req-history.reply-not-returned", repr(r)[:80])
                if r.idx == 0:
                    h.check(_tag(r.f[0]) == queued[0], "c10.req-history.wrong-reply", f"{_tag(r.f[0])} vs {queued}")
                    queued.pop(0)
                    expecting = False
                    h.check(last_ok == "send", "c10.req-history.recv-without-preceding-send")
                    last_ok = "recv"
                    h.cover("c10.req-history.request-reply-cycle")
        h.check(state_name() == ("ExpectingReply" if expecting else "ReadyToSend"), "c10.req-history.state-differs-from-reference", f"{state_name()} expecting={expecting}")


def replay_req_history(model, params, role):
    if any(x in role for x in ("failed-recv-changed-the-state", "second-send-without-recv-not-refused", "state-differs-from-reference", "two-sends-in-a-row", "refused-call-changed-the-state")):
        return "req_timeout_then_send\n", (lambda out: "SECOND SEND ACCEPTED" in out), \
            "REQ with RCVTIMEO=100 ms against a REP that never answers: send, recv (times out), send; expecting the second send to be accepted"
    return None


# ------------------------------------------------------------------------------------------------
# REP: alternation and reply routing over call histories (single caller)
REPS = "socket::rep_socket::RepSocket"


def _rep_socket(h, k):
    """RepSocket assembled field by field over the real AddressedIngressEngine with two connections; the peers' send_multipart
    is a hook that records (connection, tags of the wire frames, MORE flags of the wire frames)"""
    from .d_c09 import Fut
    from .d_c02 import _mk_msg, _tag
    from .d_c07 import _frames, _flag
    from ..models import some, none, ok, err, dur_ns, _deref, MapV
    prog = h.it.prog
    AIE2 = "socket::patterns::addressed_ingress::AddressedIngressEngine"
    PMS = "socket::patterns::ready_pipe_queue::PipeMessageSender"
    eng = Ref(Cell(h.method(AIE2, "new", max(4, k)), "ingress"), ())
    snd = [Ref(Cell(h.method(AIE2, "register_pipe", eng, p, max(4, k), 1), f"s{p}"), ()) for p in range(2)]
    uris = [string("uA"), string("uB")]
    # core: is_running, options.rcvtimeo = 0, pipe_read_id_to_endpoint_uri, endpoints
    cf = prog.struct_fields("socket::core::SocketCore")
    core_vals = [Opaque(f) for f in cf]
    csf = prog.struct_fields("socket::core::state::CoreState")
    cs_vals = [Opaque(f) for f in csf]
    of = prog.struct_fields("socket::options::SocketOptions")
    o_vals = [Opaque(f) for f in of]
    o_vals[of.index("rcvtimeo")] = some(dur_ns(0))
    cs_vals[csf.index("options")] = Agg("socket::options::SocketOptions", o_vals)
    cs_vals[csf.index("pipe_read_id_to_endpoint_uri")] = MapV("HashMap", [(p, clone_val(uris[p])) for p in range(2)])
    ef = prog.struct_fields("socket::core::state::EndpointInfo")
    def endpoint(p):
        v = [Opaque(f) for f in ef]
        v[ef.index("connection_iface")] = BoxV(Cell(Agg("{peer}", [p]), f"peer{p}"), (), "{peer}")
        v[ef.index("endpoint_uri")] = clone_val(uris[p])
        return Agg("socket::core::state::EndpointInfo", v)
    cs_vals[csf.index("endpoints")] = MapV("HashMap", [(clone_val(uris[p]), endpoint(p)) for p in range(2)])
    core_vals[cf.index("core_state")] = Agg("{lock}", [Agg("socket::core::state::CoreState", cs_vals)])
    core_vals[cf.index("handle")] = 1
    core = BoxV(Cell(Agg("socket::core::SocketCore", core_vals), "core"), ())
    h.it.hooks["socket::core::SocketCore::is_running"] = lambda it2, a, d, f: True
    variants = prog.enum_variants("socket::rep_socket::RepState")
    state = Enum("socket::rep_socket::RepState", variants.index("ReadyToReceive"), "ReadyToReceive", [])
    fields = prog.struct_fields(REPS)
    ftypes = prog.struct_field_types(REPS) or {}
    vals = {"core": core, "ingress_engine": eng.load(), "pending_pipe_senders": Agg("{lock}", [MapV("HashMap", [])]),
            "state": Agg("{lock}", [state]), "pipe_read_id_to_endpoint_uri": Agg("{lock}", [MapV("HashMap", [])])}
    for f in fields:
        if f not in vals:
            vals[f] = Agg("{amutex}", [False, UNIT]) if "Mutex" in str(ftypes.get(f, "")) else Opaque(f)
    sock = Ref(Cell(Agg(REPS, [vals[f] for f in fields]), "rep"), ())
    sent = []            # (peer, [tags of the wire frames])
    sent_flags = []      # MORE flags of the same frames
    DYN = "<dyn socket::connection_iface::ISocketConnection as socket::connection_iface::ISocketConnection>::"
    def conn_send(it, args, dty, func):
        p = _deref(args[0])
        while isinstance(p, BoxV):
            p = _deref(p.load())
        sent.append((p.f[0], [_tag(m) for m in _frames(args[1])]))
        sent_flags.append([bool(_flag(m, 1)) for m in _frames(args[1])])
        return Agg("{future}", ["peer_send"])
    h.it.hooks[DYN + "send_multipart"] = conn_send
    def extern(it, plain, args, dty, func):
        if plain.endswith("Future>::poll"):
            fut = _deref(args[0])
            while isinstance(fut, BoxV):
                fut = _deref(fut.load())
            if isinstance(fut, Agg) and fut.ty == "{future}":
                return Enum("std::task::Poll", 0, "Ready", [ok(UNIT)])
            return NotImplemented
        if plain.endswith("IntoFuture>::into_future") or plain.startswith("std::pin::Pin::"):
            return args[0]
        return NotImplemented
    h.it.extern = extern
    return dict(sock=sock, eng=eng, snd=snd, fields=fields, sent=sent, flags=sent_flags)


def rep_history(h):
    """RepSocket::{recv, send} (coroutine MIR) on a hand-assembled socket with two peers (connections A, B), the real
    AddressedIngressEngine and RCVTIMEO = 0. All histories of k operations from {a request from A arrives, a request
    from B arrives, recv, send}. Successful operations alternate recv, send, ...; a refused call is InvalidState and
    changes nothing; every reply goes to the connection whose request was received last, with that request's
    routing prefix in front."""
    from .d_c09 import Fut
    from .d_c02 import _mk_msg, _tag
    from .d_c07 import _frames
    from ..models import some, none, ok, err, dur_ns, _deref, MapV
    prog = h.it.prog
    k = h.params.get("ops", 4)
    rs = _rep_socket(h, k)
    sock, eng, snd, fields, sent = rs["sock"], rs["eng"], rs["snd"], rs["fields"], rs["sent"]
    PMS = "socket::patterns::ready_pipe_queue::PipeMessageSender"
    h.panic_role = "c10.rep-history"
    def state_name():
        return sock.load().f[fields.index("state")].f[0].vname
    queued = []          # (peer, envelope tag, request tag) waiting in the ingress engine, arrival order
    pending = None       # request received and not yet answered
    nxt = 0x40
    last_ok = None
    from_bits = prog.body(h.it.resolve_fn("message::flags::_::<impl message::flags::MsgFlags>::from_bits_retain", ""))
    for i in range(k):
        op = h.choose(4, f"op{i}")          # 0/1 a request from A/B arrives, 2 recv, 3 send
        if op in (0, 1):
            p = op
            fb = Ref(Cell(h.method("message::FrameBatch", "new"), "fb"), ())
            env = 0xE0 + p                   # one routing-prefix frame in front of the delimiter (as a ROUTER hop would add)
            h.method("message::FrameBatch", "push", fb, _mk_msg(h, env, True))
            d0 = Ref(Cell(h.method("message::msg::Msg", "new"), "delim"), ())
            h.method("message::msg::Msg", "set_flags", d0, h.it.run_body(from_bits, [1]))
            h.method("message::FrameBatch", "push", fb, d0.load())
            h.method("message::FrameBatch", "push", fb, _mk_msg(h, nxt, False))
            h.check(h.method(PMS, "try_send_sync", snd[p], fb.load()).idx == 0, "c10.rep-history.setup-enqueue")
            queued.append((p, env, nxt))
            nxt += 1
            continue
        before = state_name()
        if op == 2:
            f = Fut(h, REPS, "recv", [sock], trait="ISocket")
            r = f.poll()
            h.check(r is not None, "c10.rep-history.nonblocking-recv-parked")
            if r is None:
                return
            if pending is not None:
                h.check(r.idx == 1 and r.f[0].vname == "InvalidState", "c10.rep-history.second-recv-without-send-not-refused", repr(r)[:80])
                h.check(state_name() == before, "c10.rep-history.refused-call-changed-the-state")
            elif not queued:
                h.check(r.idx == 1, "c10.rep-history.recv-succeeded-without-a-request")
                h.check(state_name() == "ReadyToReceive", "c10.rep-history.failed-recv-changed-the-state", state_name())
            else:
                h.check(r.idx == 0, "c10.rep-history.request-not-returned", repr(r)[:80])
                if r.idx == 0:
                    # requests of one peer come in order; across peers the ready list decides
                    tag = _tag(r.f[0])
                    cand = [q for q in queued if q[2] == tag]
                    h.check(bool(cand) and all(q[2] >= tag for q in queued if q[0] == cand[0][0]), "c10.rep-history.wrong-request", f"{tag} vs {queued}")
                    if cand:
                        queued.remove(cand[0])
                        pending = cand[0]
                    h.check(last_ok != "recv", "c10.rep-history.two-recvs-in-a-row")
                    last_ok = "recv"
        else:
            n_before = len(sent)
            f = Fut(h, REPS, "send", [sock, _mk_msg(h, 0x99, False)], trait="ISocket")
            r = f.poll()
            h.check(r is not None, "c10.rep-history.send-parked")
            if r is None:
                return
            if pending is None:
                h.check(r.idx == 1 and r.f[0].vname == "InvalidState", "c10.rep-history.send-without-request-not-refused", repr(r)[:80])
                h.check(state_name() == before and len(sent) == n_before, "c10.rep-history.refused-call-changed-the-state")
            else:
                h.check(r.idx == 0 and len(sent) == n_before + 1, "c10.rep-history.valid-reply-refused", repr(r)[:80])
                if len(sent) == n_before + 1:
                    peer, frames = sent[-1]
                    h.check(peer == pending[0], "c10.rep-history.reply-sent-to-another-peer",
                            f"the request received last came from connection {pending[0]}; the reply went to connection {peer}")
                    h.check(frames == [pending[1], None, 0x99], "c10.rep-history.reply-envelope-wrong",
                            f"wire frames {frames}, expected routing prefix {hex(pending[1])}, empty delimiter, payload")
                    h.cover("c10.rep-history.request-reply-cycle")
                pending = None
                h.check(last_ok == "recv", "c10.rep-history.send-without-preceding-recv")
                last_ok = "send"
        h.check(state_name() == ("ReceivedRequest" if pending is not None else "ReadyToReceive"), "c10.rep-history.state-differs-from-reference", f"{state_name()} pending={pending}")


def rep_reply_flags(h):
    """C02 on the REP reply path: a request of every envelope shape (0..1 routing-prefix frames, the empty delimiter,
    0..2 body frames - i.e. also a request that ends with the delimiter) is received, then the application replies
    with send(msg) or send_multipart(1..3 frames) whose MORE flags are arbitrary. What is handed to the connection
    must be: the request's routing prefix, the delimiter, the reply frames - in that order, with MORE on every frame
    but the last."""
    from .d_c09 import Fut
    from .d_c02 import _mk_msg, _tag
    from .d_c07 import _frames
    from ..models import some, none, ok, err, dur_ns, _deref, MapV
    prog = h.it.prog
    rs = _rep_socket(h, 4)
    sock, eng, snd, fields, sent, flags = rs["sock"], rs["eng"], rs["snd"], rs["fields"], rs["sent"], rs["flags"]
    PMS = "socket::patterns::ready_pipe_queue::PipeMessageSender"
    from_bits = prog.body(h.it.resolve_fn("message::flags::_::<impl message::flags::MsgFlags>::from_bits_retain", ""))
    h.panic_role = "c02.rep-reply"
    n_prefix = h.choose(2, "routing_prefix_frames")
    n_body = h.choose(3, "request_body_frames")
    fb = Ref(Cell(h.method("message::FrameBatch", "new"), "fb"), ())
    prefix = []
    for i in range(n_prefix):
        h.method("message::FrameBatch", "push", fb, _mk_msg(h, 0xE0 + i, True))
        prefix.append(0xE0 + i)
    d0 = Ref(Cell(h.method("message::msg::Msg", "new"), "delim"), ())
    h.method("message::msg::Msg", "set_flags", d0, h.it.run_body(from_bits, [1 if n_body > 0 else 0]))
    h.method("message::FrameBatch", "push", fb, d0.load())
    for i in range(n_body):
        h.method("message::FrameBatch", "push", fb, _mk_msg(h, 0x30 + i, i + 1 < n_body))
    h.check(h.method(PMS, "try_send_sync", snd[0], fb.load()).idx == 0, "c02.rep-reply.setup-enqueue")
    f = Fut(h, REPS, "recv_multipart", [sock], trait="ISocket")
    r = f.poll()
    h.check(r is not None and r.idx == 0, "c02.rep-reply.setup-request-not-received", "pending" if r is None else repr(r)[:100])
    if r is None or r.idx != 0:
        return
    got = [_tag(m) for m in _frames(r.f[0])]
    h.check([g for g in got if g is not None] == [0x30 + i for i in range(n_body)], "c02.rep-reply.request-body-differs", str(got))
    single = h.choose(2, "reply_with") == 0
    if single:
        more = h.choose(2, "reply_more_flag") == 1
        reply = [0x90]
        f2 = Fut(h, REPS, "send", [sock, _mk_msg(h, 0x90, more)], trait="ISocket")
        # REP (like REQ) treats every send() as one complete single-frame message: a MORE flag on it is cleared
    else:
        n_reply = 1 + h.choose(3, "reply_frames")
        rb = Ref(Cell(h.method("message::FrameBatch", "new"), "rb"), ())
        reply = []
        for i in range(n_reply):
            h.method("message::FrameBatch", "push", rb, _mk_msg(h, 0x90 + i, h.choose(2, f"reply_more{i}") == 1))
            reply.append(0x90 + i)
        f2 = Fut(h, REPS, "send_multipart", [sock, rb.load()], trait="ISocket")
    n0 = len(sent)
    r2 = f2.poll()
    h.check(r2 is not None and r2.idx == 0, "c02.rep-reply.reply-refused", "pending" if r2 is None else repr(r2)[:100])
    if r2 is None or r2.idx != 0:
        return
    wire = [t for _, ts in sent[n0:] for t in ts]
    wflags = [b for fl in flags[n0:] for b in fl]
    h.check(len(sent) - n0 == 1, "c02.rep-reply.reply-handed-over-in-several-pieces", f"{len(sent) - n0} hand-overs: a reply must reach the connection as one unit")
    h.check(wire == prefix + [None] + reply, "c02.rep-reply.wire-frames-differ-from-prefix-delimiter-reply",
            f"wire {wire}, expected {prefix + [None] + reply}")
    h.check(wflags == [True] * (len(wire) - 1) + [False], "c02.rep-reply.more-flags-wrong-on-the-wire",
            f"request = {n_prefix} prefix frame(s) + delimiter + {n_body} body frame(s); wire MORE flags {wflags}: the peer sees the reply split into {wflags[:-1].count(False) + 1} messages")
    h.cover("c02.rep-reply.envelope-only-request", n_body == 0)
    h.cover("c02.rep-reply.multi-frame-reply", len(reply) > 1)
