"""helpers shared by engine-level drivers"""
import z3
from ..values import *
from ..models import some, none, Seq

ENGINE = "protocol::zmtp::engine::ZmtpEngine"
CFG = "socket::options::ZmtpEngineConfig"
PHASES = ["Greeting", "Security", "Ready", "V2Identity", "Data", "Closed"]


def string(s):
    return Seq("string", list(s.encode() if isinstance(s, str) else s))


def mk_config(h, **kw):
    cfg = h.method(CFG, "default", trait="Default")
    fields = h.it.prog.struct_fields(CFG)
    for k, v in kw.items():
        cfg.f[fields.index(k)] = v
    return cfg


def mk_engine(h, is_server, cfg):
    arc = BoxV(Cell(cfg, "cfg"), ())
    eng = h.method(ENGINE, "new", is_server, arc)
    return Ref(Cell(eng, "engine"), ())


def efield(h, eng, name):
    fields = h.it.prog.struct_fields(ENGINE)
    return eng.load().f[fields.index(name)]


def phase(h, eng):
    return efield(h, eng, "phase").vname


def start(h, eng):
    return h.method(ENGINE, "start", eng)


def feed(h, eng, items):
    return h.method(ENGINE, "on_network_bytes", eng, Seq("bytes", list(items)))


def sends(out):
    """concatenated bytes of NetAction::Send in an EngineOutput"""
    res = []
    for a in out.f[0].f:
        if isinstance(a, Enum) and a.vname == "Send":
            res.extend(a.f[0].f)
    return res


def app_actions(out):
    return list(out.f[1].f)


def blob(items):
    """crate::message::Blob from bytes (Blob { inner: Bytes })"""
    return Agg("message::blob::Blob", [Seq("bytes", list(items))])
