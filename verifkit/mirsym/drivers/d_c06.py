"""C06 — a configured mechanism cannot be bypassed: PLAIN, arbitrary peer byte stream."""
import z3
from ..values import *
from ..models import conj
from .common import *

HELLO = list(b"\x05HELLO")
WELCOME = list(b"\x07WELCOME")


def _record_tokens(h):
    """wrap PlainMechanism::process_token: remember every token handed to the mechanism"""
    fn = h.it.prog.resolve_method("", "security::plain::PlainMechanism", "process_token", "Mechanism")
    toks = []
    def hook(it, args, dty, func):
        toks.append(list(args[1].items()))
        return it.run_body(it.prog.body(fn), args)
    h.it.hooks[fn] = hook
    return toks


def _stop_at_data_phase(h):
    """C06's verdict is fixed once the engine enters the Data phase (process_data is only ever
    called with phase == Data and is the only place that emits DeliverMessage): do not explore the
    parsing of the remaining bytes as data frames."""
    fn = h.it.prog.resolve_method("", ENGINE, "process_data", None)
    h.it.hooks[fn] = lambda it, args, dty, func: UNIT


def _authenticated(out_actions):
    return [a for a in out_actions if a.vname in ("HandshakeComplete", "DeliverMessage")]


def plain_server_arbitrary_stream(h, allow_v2=None):
    """server configured with PLAIN; the peer sends n arbitrary bytes (one read)."""
    n = h.params.get("n", 84)
    cl = h.params.get("cred_len", 1)
    user = h.bytes("cfg_user", cl)
    pw = h.bytes("cfg_pass", cl)
    allow = h.choose(2, "allow_zmtp2") == 1 if allow_v2 is None else allow_v2
    cfg = mk_config(h, socket_type_name=string("REP"), security_enabled=True, use_plain=True, allow_zmtp2=allow,
                    plain_username_for_engine=some(Seq("string", list(user))),
                    plain_password_for_engine=some(Seq("string", list(pw))))
    eng = mk_engine(h, True, cfg)
    toks = _record_tokens(h)
    _stop_at_data_phase(h)
    h.panic_role = "c06.plain-server.panic"
    start(h, eng)
    data = h.bytes("peer", n)
    out = feed(h, eng, data)
    acts = app_actions(out)
    ph = phase(h, eng)
    # a listener never plays the PLAIN client: it must not emit HELLO (which carries its configured credentials)
    sent = list(sends(out))
    hello_at = [i for i in range(len(sent) - 5) if all(isinstance(sent[i + k], int) and sent[i + k] == HELLO[k] for k in range(6))]
    h.check(not hello_at, "c06.plain-server.listener-sent-hello", "the PLAIN listener emitted a HELLO command (its own credentials) towards the peer")
    if _authenticated(acts) or ph in ("Data", "Ready"):
        # the Security phase was left: some token handed to the mechanism must be HELLO with exactly the configured credentials
        want = HELLO + [cl] + user + [cl] + pw
        conds = []
        for t in toks:
            # the token must carry exactly the configured user name and password (their length bytes are part of
            # `want`); bytes after the password field are ignored by the parser and do not weaken the check
            if len(t) >= len(want):
                conds.append(conj([bv(a, 8) == bv(b, 8) for a, b in zip(t, want)]))
        ok = False
        for c in conds:
            ok = c if ok is False else simp(z3.Or(bl(ok), bl(c)))
        h.check(ok, "c06.plain-server.authenticated-without-valid-hello",
                f"HandshakeComplete/DeliverMessage/Data phase reached (phase={ph}) by a peer that did not send HELLO with the configured credentials")
        h.cover("c06.plain-server.handshake-complete-with-valid-hello", ok)
    else:
        h.cover("c06.plain-server.rejected")


def plain_client_arbitrary_stream(h):
    """connector configured with PLAIN; the peer (a would-be listener) sends n arbitrary bytes (one read). The connector
    may report a completed handshake / deliver a message only if the peer's greeting named the PLAIN mechanism and a
    WELCOME command reached the mechanism (the listener's acceptance of the credentials); it never sends WELCOME
    itself (that would be playing the listener)."""
    n = h.params.get("n", 84)
    cl = h.params.get("cred_len", 1)
    user = h.bytes("cfg_user", cl)
    pw = h.bytes("cfg_pass", cl)
    allow = h.choose(2, "allow_zmtp2") == 1
    cfg = mk_config(h, socket_type_name=string("REQ"), security_enabled=True, use_plain=True, allow_zmtp2=allow,
                    plain_username_for_engine=some(Seq("string", list(user))),
                    plain_password_for_engine=some(Seq("string", list(pw))))
    eng = mk_engine(h, False, cfg)
    toks = _record_tokens(h)
    _stop_at_data_phase(h)
    h.panic_role = "c06.plain-client.panic"
    start(h, eng)
    data = h.bytes("peer", n)
    out = feed(h, eng, data)
    acts = app_actions(out)
    ph = phase(h, eng)
    sent = list(sends(out))
    welcome_at = [i for i in range(len(sent) - 7) if all(isinstance(sent[i + k], int) and sent[i + k] == WELCOME[k] for k in range(8))]
    h.check(not welcome_at, "c06.plain-client.connector-sent-welcome", "the PLAIN connector emitted a WELCOME command")
    if _authenticated(acts) or ph in ("Data", "Ready"):
        # some token handed to the mechanism must be the listener's WELCOME, and the greeting must have named PLAIN
        conds = [conj([bv(a, 8) == bv(b, 8) for a, b in zip(t, WELCOME)]) for t in toks if len(t) >= len(WELCOME)]
        ok = False
        for c in conds:
            ok = c if ok is False else simp(z3.Or(bl(ok), bl(c)))
        h.check(ok, "c06.plain-client.authenticated-without-welcome",
                f"HandshakeComplete/DeliverMessage/Data phase reached (phase={ph}) although no WELCOME command reached the PLAIN mechanism")
        mech = list(b"PLAIN") + [0] * 15
        named = conj([bv(data[12 + i], 8) == mech[i] for i in range(20)])
        h.check(named, "c06.plain-client.authenticated-with-a-peer-that-named-another-mechanism",
                "handshake completed although the peer's greeting does not name the PLAIN mechanism")
        h.cover("c06.plain-client.handshake-complete-after-welcome", ok)
    else:
        h.cover("c06.plain-client.rejected")


def replay_plain_server_arbitrary_stream(model, params, role):
    script = (f"engine server type=REP security=1 plain_user={model.get('cfg_user','')} plain_pass={model.get('cfg_pass','')} "
              f"allow_zmtp2={1 if dict(map(tuple, model.get('_choices', []))).get('allow_zmtp2', 1) else 0}\nstart\nfeed {model.get('peer','')}\nphase\n")
    if "panic" in role:
        return script, (lambda out: "PANIC" in out), "peer bytes fed to a PLAIN server engine; expecting a panic"
    if "listener-sent-hello" in role:
        return script, (lambda out: any(l.startswith("send ") and "0548454c4c4f" in l for l in out.splitlines())), "peer bytes fed to a PLAIN server engine; expecting it to emit HELLO"
    return script, (lambda out: "handshake_complete" in out or "deliver" in out or "phase Data" in out or "phase Ready" in out), \
        "peer bytes fed to a PLAIN server engine; expecting it to leave the Security phase (Ready/Data/handshake_complete/deliver) without valid HELLO"


def gate_without_available_mechanism(h):
    """A listener configured with a mechanism other than NULL/PLAIN (the situation of a CURVE or NOISE_XX
    socket as far as greeting, mechanism negotiation and the ZMTP/2.0 gate are concerned): security_enabled
    is set, PLAIN is not. No peer byte stream may complete the handshake: NULL, PLAIN, unknown mechanism
    names and ZMTP/2.0 greetings must all be refused."""
    n = h.params.get("n", 84)
    srv = h.choose(2, "is_server") == 1
    allow = h.choose(2, "allow_zmtp2") == 1
    cfg = mk_config(h, socket_type_name=string("REP"), security_enabled=True, use_plain=False, allow_zmtp2=allow)
    eng = mk_engine(h, srv, cfg)
    _stop_at_data_phase(h)
    h.panic_role = "c06.gate.panic"
    start(h, eng)
    out = feed(h, eng, h.bytes("peer", n))
    acts = app_actions(out)
    ph = phase(h, eng)
    h.check(not _authenticated(acts) and ph not in ("Data", "Ready"), "c06.gate.handshake-progressed-without-the-configured-mechanism",
            f"phase {ph} reached although neither NULL nor PLAIN is acceptable for this socket")
    h.cover("c06.gate.refused", ph == "Closed")
    h.cover("c06.gate.still-waiting", ph == "Greeting")


def replay_gate_without_available_mechanism(model, params, role):
    ch = dict(map(tuple, model.get("_choices", [])))
    script = (f"engine {'server' if ch.get('is_server') else 'client'} type=REP security=1 use_plain=0 allow_zmtp2={ch.get('allow_zmtp2', 1)}\n"
              f"start\nfeed {model.get('peer', '')}\nphase\n")
    return script, (lambda out: "handshake_complete" in out or "phase Data" in out or "phase Ready" in out or "PANIC" in out), \
        "arbitrary peer bytes against an engine whose configured mechanism is neither NULL nor PLAIN"
