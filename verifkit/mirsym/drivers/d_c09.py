"""C09 kernels: dropping the future of an enqueue / dequeue / send at an await point. The future is polled from
its coroutine MIR until it returns Pending, then the compiler-generated drop shim of that coroutine
(-Zdump-mir=coroutine_drop, appended to the MIR dump) is executed - exactly the code that runs when the
application drops the future - and the data structure is inspected and used again."""
import z3
from ..values import *
from ..models import ok, err, some, none
from .common import *

RPQ = "socket::patterns::ready_pipe_queue::ReadyPipeQueue"
SND = "socket::patterns::ready_pipe_queue::ReadyPipeSender"


class Fut:
    """a crate `async fn` call: coroutine object + its resume and drop functions"""

    def __init__(self, h, ty, name, args, trait=None):
        self.h = h
        self.fn = h.it.prog.resolve_method("", ty, name, trait)
        assert self.fn, (ty, name)
        c = Ref(Cell(h.it.run_body(h.it.prog.body(self.fn), list(args)), "coro"), ())
        # #[async_trait] methods return Pin<Box<coroutine>>: step through the box
        while isinstance(c, Ref) and not (isinstance(c.load(), Agg) and str(c.load().ty).startswith("{coroutine")):
            c = c.load()
        self.ref = c
        self.done = False

    def poll(self):
        r = self.h.it.run_body(self.h.it.prog.body(self.fn + "::{closure#0}"), [self.ref, Opaque("cx")])
        if r.vname == "Ready":
            self.done = True
            return r.f[0]
        return None

    def cancel(self):
        shim = self.fn.split("@")[0] + "::{closure#0}::{coroutine_drop}"
        self.h.check(shim in self.h.it.prog.fn_index, "c09.setup.drop-shim-present", shim)
        self.h.it.drop_coroutine(self.ref, shim)


def _counts(h, snd):
    return h.method(SND, "reserved_count", snd), h.method(SND, "queued_count", snd)


def _drain(h, q):
    out = []
    for _ in range(8):
        r = h.method(RPQ, "try_pop", q)          # Option<(pipe id, item)>
        if r.idx != 1:
            break
        out.append(r.f[0].f[1])
    return out


def rpq_send_cancel(h):
    """ReadyPipeSender::send on a full pipe parks at the pipe-full await; the future is dropped there
    (optionally after the consumer made room, before the future was polled again)."""
    cap = 1 + h.choose(2, "capacity")
    q = Ref(Cell(h.method(RPQ, "new", 4), "rpq"), ())
    snd = Ref(Cell(h.method(RPQ, "register_pipe", q, 0, cap, 1), "sender"), ())
    h.panic_role = "c09.rpq-send"
    pre = list(range(100, 100 + cap))
    for x in pre:
        r = h.method(SND, "try_send", snd, x)
        h.check(r.idx == 0, "c09.setup.prefill")
    f = Fut(h, SND, "send", [snd, 777])
    r = f.poll()
    h.check(r is None, "c09.setup.send-on-full-pipe-parks")
    scenario = h.choose(3, "scenario")     # 0 cancel while full; 1 consumer takes one item, then cancel; 2 consumer takes one, future resumes (control)
    got = []
    if scenario >= 1:
        p = h.method(RPQ, "try_pop", q)
        h.check(p.idx == 1, "c09.setup.pop")
        got.append(p.f[0].f[1])
    if scenario == 2:
        r = f.poll()
        h.check(r is not None and r.idx == 0, "c09.rpq-send.resumed-send-did-not-complete")
        rc, qc = _counts(h, snd)
        h.check(rc == qc == cap, "c09.rpq-send.counters-after-completed-send", f"reserved {rc} queued {qc}")
        got += _drain(h, q)
        h.check(got == pre + [777], "c09.rpq-send.order-after-completed-send", str(got))
        h.cover("c09.rpq-send.control-completed")
        return
    f.cancel()
    rc, qc = _counts(h, snd)
    left = cap - len(got)
    h.check(rc == left and qc == left, "c09.rpq-send.cancelled-send-leaves-counters-inconsistent",
            f"capacity {cap}, {left} item(s) physically queued after the cancelled send: reserved_count {rc}, queued_count {qc}")
    got += _drain(h, q)
    h.check(777 not in got, "c09.rpq-send.cancelled-send-was-delivered")
    h.check(got == pre, "c09.rpq-send.queued-items-lost-or-reordered-by-a-cancelled-send", str(got))
    # the pipe stays usable
    r = h.method(SND, "try_send", snd, 555)
    h.check(r.idx == 0, "c09.rpq-send.pipe-unusable-after-cancelled-send")
    again = _drain(h, q)
    h.check(again == [555], "c09.rpq-send.later-item-not-delivered-after-cancelled-send", str(again))
    rc, qc = _counts(h, snd)
    h.check(rc == 0 and qc == 0, "c09.rpq-send.counters-after-drain", f"reserved {rc} queued {qc}")
    h.cover("c09.rpq-send.cancelled-while-full", scenario == 0)
    h.cover("c09.rpq-send.cancelled-after-room", scenario == 1)


def rpq_pop_cancel_every_point(h):
    """ReadyPipeQueue::pop with 0, 1 or `capacity` items queued (capacity 1 or 2): the future is polled up to three
    times and may be dropped after any poll that returned Pending (while parked on an empty queue an item may be
    enqueued first). Whatever was enqueued is either returned by the pop that completed or still in the queue."""
    cap = 1 + h.choose(2, "capacity")
    pre = [0, 1, cap][h.choose(3, "prefilled")]
    pre = min(pre, cap)
    q = Ref(Cell(h.method(RPQ, "new", 4), "rpq"), ())
    snd = Ref(Cell(h.method(RPQ, "register_pipe", q, 0, cap, 1), "sender"), ())
    h.panic_role = "c09.rpq-pop-points"
    sent = []
    def enqueue():
        x = 100 + len(sent)
        r = h.method(SND, "try_send", snd, x)
        if r.idx == 0:
            sent.append(x)
    for _ in range(pre):
        enqueue()
    f = Fut(h, RPQ, "pop", [q])
    got = []
    cancelled_at = None
    for n in range(1, 4):
        r = f.poll()
        if r is not None:
            h.check(r.idx == 0, "c09.rpq-pop-points.pop-failed")
            if r.idx == 0:
                got.append(r.f[0].f[1])
            break
        act = h.choose(3 if not sent or len(sent) == len(got) else 2, f"after_pending_poll{n}")      # 0 drop the future, 1 poll again, 2 enqueue then poll again
        if act == 0:
            f.cancel()
            cancelled_at = n
            break
        if act == 2:
            enqueue()
    else:
        f.cancel()                      # still parked after three polls: dropped there
        cancelled_at = 3
    rest = _drain(h, q)
    h.check(got + rest == sent, "c09.rpq-pop-points.item-lost-or-duplicated-when-pop-is-dropped-at-an-await",
            f"capacity {cap}, {pre} queued before pop, future dropped after Pending poll #{cancelled_at}: enqueued {sent}, returned by pop {got}, left in the queue {rest}")
    rc, qc = _counts(h, snd)
    h.check(rc == 0 and qc == 0, "c09.rpq-pop-points.counters-after-drain", f"reserved {rc} queued {qc}")
    h.cover("c09.rpq-pop-points.dropped-while-parked", cancelled_at is not None)
    h.cover("c09.rpq-pop-points.completed", bool(got))


def rpq_pop_cancel(h):
    """ReadyPipeQueue::pop on an empty queue parks on the ready list; the future is dropped there, before or
    after a producer enqueued an item."""
    q = Ref(Cell(h.method(RPQ, "new", 4), "rpq"), ())
    snd = Ref(Cell(h.method(RPQ, "register_pipe", q, 0, 2, 1), "sender"), ())
    h.panic_role = "c09.rpq-pop"
    f = Fut(h, RPQ, "pop", [q])
    r = f.poll()
    h.check(r is None, "c09.setup.pop-on-empty-queue-parks")
    scenario = h.choose(3, "scenario")     # 0 cancel, then enqueue; 1 enqueue, then cancel before the future is polled again; 2 enqueue, resume (control)
    if scenario == 0:
        f.cancel()
        h.check(h.method(SND, "try_send", snd, 41).idx == 0, "c09.setup.enqueue")
    else:
        h.check(h.method(SND, "try_send", snd, 41).idx == 0, "c09.setup.enqueue")
        if scenario == 1:
            f.cancel()
        else:
            r = f.poll()
            h.check(r is not None and r.idx == 0 and r.f[0].f[1] == 41, "c09.rpq-pop.resumed-pop-did-not-return-the-item")
            h.cover("c09.rpq-pop.control-completed")
            return
    got = _drain(h, q)
    h.check(got == [41], "c09.rpq-pop.item-lost-or-duplicated-by-a-cancelled-pop", str(got))
    rc, qc = _counts(h, snd)
    h.check(rc == 0 and qc == 0, "c09.rpq-pop.counters-after-drain", f"reserved {rc} queued {qc}")
    # a later blocking pop still works
    h.check(h.method(SND, "try_send", snd, 42).idx == 0, "c09.setup.enqueue2")
    f2 = Fut(h, RPQ, "pop", [q])
    r = f2.poll()
    h.check(r is not None and r.idx == 0 and r.f[0].f[1] == 42, "c09.rpq-pop.queue-unusable-after-cancelled-pop")
    h.cover("c09.rpq-pop.cancelled-before-enqueue", scenario == 0)
    h.cover("c09.rpq-pop.cancelled-after-enqueue", scenario == 1)


AIE = "socket::patterns::anonymous_ingress::AnonymousIngressEngine"
PMS = "socket::patterns::ready_pipe_queue::PipeMessageSender"


def ingress_recv_cancel(h):
    """AnonymousIngressEngine::{recv, recv_multipart} with no timeout park inside ReadyPipeQueue::pop (a nested
    coroutine); the outer future is dropped there, before or after a 2-frame message was enqueued."""
    from .d_c02 import _mk_msg, _tag
    from .d_c07 import _frames, _flag
    eng = Ref(Cell(h.method(AIE, "new", 4), "ingress"), ())
    snd = Ref(Cell(h.method(AIE, "register_pipe", eng, 0, 4, 1), "s0"), ())
    h.panic_role = "c09.ingress"
    which = h.choose(2, "operation")           # 0 recv, 1 recv_multipart
    f = Fut(h, AIE, "recv" if which == 0 else "recv_multipart", [eng, none()])
    r = f.poll()
    h.check(r is None, "c09.setup.recv-on-empty-queue-parks")
    def enqueue(tags):
        fb = Ref(Cell(h.method("message::FrameBatch", "new"), "fb"), ())
        for i, t in enumerate(tags):
            h.method("message::FrameBatch", "push", fb, _mk_msg(h, t, i + 1 < len(tags)))
        h.check(h.method(PMS, "try_send_sync", snd, fb.load()).idx == 0, "c09.setup.enqueue")
    scenario = h.choose(3, "scenario")         # 0 cancel then enqueue; 1 enqueue then cancel; 2 enqueue then resume (control)
    if scenario == 0:
        f.cancel()
        enqueue([0xA1, 0xA2])
    else:
        enqueue([0xA1, 0xA2])
        if scenario == 1:
            f.cancel()
    zero = some(Agg("std::time::Duration", [0]))
    got = []
    if scenario == 2:
        r = f.poll()
        h.check(r is not None and r.idx == 0, "c09.ingress.resumed-recv-did-not-complete")
        got += [_tag(r.f[0])] if which == 0 else [_tag(m) for m in _frames(r.f[0])]
        h.cover("c09.ingress.control-completed")
    # read everything that is left, frame by frame
    for _ in range(4):
        f2 = Fut(h, AIE, "recv", [eng, clone_val(zero)])
        r = f2.poll()
        h.check(r is not None, "c09.ingress.nonblocking-recv-parked")
        if r is None or r.idx != 0:
            break
        got.append(_tag(r.f[0]))
    h.check(got == [0xA1, 0xA2], "c09.ingress.message-lost-duplicated-or-partial-after-cancelled-recv",
            f"frames handed to the application: {[hex(x) if isinstance(x, int) else x for x in got]}")
    h.cover("c09.ingress.cancelled-before-enqueue", scenario == 0)
    h.cover("c09.ingress.cancelled-after-enqueue", scenario == 1)


REQ = "socket::req_socket::ReqSocket"
LB = "socket::patterns::load_balancer::LoadBalancer"
DYN = "<dyn socket::connection_iface::ISocketConnection as socket::connection_iface::ISocketConnection>::"


def _lock(v):
    return Agg("{lock}", [v])


def _req_socket(h, peers):
    """ReqSocket assembled field by field: real LoadBalancer, real request-state mutex, real (modelled) async
    mutexes; SocketCore reduced to is_running() = true and SNDTIMEO unset"""
    prog = h.it.prog
    lb = Ref(Cell(h.method(LB, "new"), "lb"), ())
    for i in range(peers):
        h.method(LB, "add_connection", lb, string("u%d" % i), BoxV(Cell(Agg("{peer}", [i]), f"peer{i}"), (), "{peer}"))
    cf = prog.struct_fields("socket::core::SocketCore")
    core_vals = [Opaque(f) for f in cf]
    csf = prog.struct_fields("socket::core::state::CoreState")
    cs_vals = [Opaque(f) for f in csf]
    of = prog.struct_fields("socket::options::SocketOptions")
    o_vals = [Opaque(f) for f in of]
    o_vals[of.index("sndtimeo")] = none()
    cs_vals[csf.index("options")] = Agg("socket::options::SocketOptions", o_vals)
    core_vals[cf.index("core_state")] = _lock(Agg("socket::core::state::CoreState", cs_vals))
    core = BoxV(Cell(Agg("socket::core::SocketCore", core_vals), "core"), ())
    h.it.hooks["socket::core::SocketCore::is_running"] = lambda it2, a, d, f: True
    h.it.hooks["socket::core::SocketCore::command_sender"] = lambda it2, a, d, f: Agg("{mailbox}", [])
    variants = prog.enum_variants("socket::req_socket::ReqState")
    state = Enum("socket::req_socket::ReqState", variants.index("ReadyToSend"), "ReadyToSend", [])
    vals = {"core": core, "load_balancer": lb.load(), "ingress_engine": Opaque("ingress"),
            "pending_pipe_senders": _lock(MapV("HashMap", [])), "state": _lock(state),
            "reply_available_notifier": BoxV(Cell(Agg("{notify}", [0, False]), "notify"), ()),
            "pipe_read_to_endpoint_uri": _lock(MapV("HashMap", []))}
    ftypes = prog.struct_field_types(REQ) or {}
    fields = prog.struct_fields(REQ)
    for f in fields:
        if f not in vals:
            vals[f] = Agg("{amutex}", [False, UNIT]) if "Mutex" in str(ftypes.get(f, "")) else Opaque(f)
    sock = Ref(Cell(Agg(REQ, [vals[f] for f in fields]), "req"), ())
    return sock, lb, fields, variants


def req_send_cancel(h):
    """ReqSocket::send dropped while it waits for a first peer, or while the peer's send_multipart is pending;
    afterwards the socket must accept the next send (and only one)."""
    from ..models import MapV as _MapV
    where = h.choose(4, "cancel_at")        # 0 waiting for a peer to connect; 1 inside the peer send;
                                            # 2/3: two sends in flight (A inside the peer send, B queued behind it): B / A is dropped
    sock, lb, fields, variants = _req_socket(h, peers=0 if where == 0 else 1)
    st = {"sent": 0, "ready": False}
    def iface_send(it, args, dty, func):
        return Agg("{future}", ["peer_send"])
    h.it.hooks[DYN + "send_multipart"] = iface_send
    h.it.hooks["<{mailbox}>::is_closed"] = lambda it2, a, d, f: False
    def extern(it, plain, args, dty, func):
        if plain.endswith("Future>::poll"):
            from ..models import _deref
            fut = _deref(args[0])
            while isinstance(fut, BoxV):
                fut = _deref(fut.load())
            if isinstance(fut, Agg) and fut.ty == "{future}":
                if st["ready"]:
                    st["sent"] += 1
                    return Enum("std::task::Poll", 0, "Ready", [ok(UNIT)])
                return Enum("std::task::Poll", 1, "Pending", [])
            return NotImplemented
        if plain.endswith("BoundedAsyncSender::is_closed"):
            return False                       # the socket's command mailbox is open (socket not terminated)
        if plain.endswith("IntoFuture>::into_future") or plain.startswith("std::pin::Pin::"):
            return args[0]
        return NotImplemented
    h.it.extern = extern
    h.panic_role = "c09.req-send"
    msg = h.method("message::msg::Msg", "new")
    f = Fut(h, REQ, "send", [sock, msg], trait="ISocket")
    r = f.poll()
    h.check(r is None, "c09.setup.req-send-parks", f"cancel point {where}")
    def state_name():
        g = sock.load().f[fields.index("state")].f[0]
        return g.vname
    amx = [sock.load().f[fields.index(x)] for x in fields if isinstance(sock.load().f[fields.index(x)], Agg) and sock.load().f[fields.index(x)].ty == "{amutex}"]
    h.cover("c09.req-send.async-mutex-held-at-the-cancel-point", any(m.f[0] for m in amx))
    if where >= 2:
        fb = Fut(h, REQ, "send", [sock, h.method("message::msg::Msg", "new")], trait="ISocket")
        rb = fb.poll()
        if rb is not None:
            # without a serializer the second send is not queued: nothing to cancel in this shape
            from ..interp import PathAbort
            raise PathAbort("second send did not park")
        if where == 2:
            fb.cancel()
            st["ready"] = True
            r = f.poll()
            h.check(r is not None and r.idx == 0 and st["sent"] == 1 and state_name() == "ExpectingReply",
                    "c09.req-send.first-send-disturbed-by-cancelling-a-queued-send", f"{st['sent']} {state_name()}")
            h.cover("c09.req-send.cancelled-queued-send")
            return
        f.cancel()
        h.check(st["sent"] == 0 and state_name() == "ReadyToSend", "c09.req-send.cancelled-send-left-request-state", state_name())
        st["ready"] = True
        rb = fb.poll()
        h.check(rb is not None and rb.idx == 0 and st["sent"] == 1 and state_name() == "ExpectingReply",
                "c09.req-send.queued-send-stuck-after-the-send-in-front-was-cancelled", "pending" if rb is None else f"{st['sent']} {state_name()}")
        h.cover("c09.req-send.cancelled-send-in-front-of-a-queued-one")
        return
    f.cancel()
    h.check(state_name() == "ReadyToSend", "c09.req-send.cancelled-send-left-request-state", state_name())
    for fn_ in fields:
        v = sock.load().f[fields.index(fn_)]
        if isinstance(v, Agg) and v.ty == "{amutex}":
            h.check(v.f[0] is False, "c09.req-send.cancelled-send-left-async-mutex-locked", fn_)
    h.check(st["sent"] == 0, "c09.req-send.cancelled-send-was-delivered")
    # the next send must go through (a peer is there now and accepts) ...
    if where == 0:
        h.method(LB, "add_connection", Ref(Cell(sock.load().f[fields.index("load_balancer")], "lb2"), ()), string("u0"),
                 BoxV(Cell(Agg("{peer}", [0]), "peer0"), (), "{peer}"))
    st["ready"] = True
    f2 = Fut(h, REQ, "send", [sock, h.method("message::msg::Msg", "new")], trait="ISocket")
    r = f2.poll()
    h.check(r is not None and r.idx == 0, "c09.req-send.socket-rejects-the-next-send-after-a-cancelled-send",
            "pending" if r is None else f"{r.f[0]!r}"[:120])
    h.check(st["sent"] == 1 and state_name() == "ExpectingReply", "c09.req-send.next-send-state", f"{st['sent']} {state_name()}")
    # ... and a third one is refused (strict alternation still enforced)
    f3 = Fut(h, REQ, "send", [sock, h.method("message::msg::Msg", "new")], trait="ISocket")
    r = f3.poll()
    h.check(r is not None and r.idx == 1 and st["sent"] == 1, "c09.req-send.alternation-lost-after-a-cancelled-send")
    h.cover("c09.req-send.cancelled-while-waiting-for-peer", where == 0)
    h.cover("c09.req-send.cancelled-inside-peer-send", where == 1)
