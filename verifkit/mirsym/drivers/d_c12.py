"""C12 — SubscriptionTrie ≡ multiset-of-prefixes reference, for all short histories."""
import z3
from ..values import *
from ..models import conj
from .common import *

TRIE = "socket::patterns::trie::SubscriptionTrie"


def _slice(items):
    return SliceRef(Ref(Cell(Seq("array", list(items)), "topic"), ()), 0, len(items))


SUB = "socket::sub_socket::SubSocket"


def _sub_socket(h, trie):
    """SubSocket around the trie: only `subscriptions` is real; the upstream SUBSCRIBE/CANCEL fan-out to peers is a no-op"""
    import re
    prog = h.it.prog
    fields = prog.struct_fields(SUB)
    vals = {"subscriptions": BoxV(trie.cell, trie.path), "core": BoxV(Cell(Opaque("core"), "core"), ())}
    sock = Ref(Cell(Agg(SUB, [vals.get(f, Opaque(f)) for f in fields]), "sub"), ())
    fan = prog.resolve_method("", SUB, "send_subscription_command_to_all", None)
    assert fan
    h.it.hooks[fan] = lambda it, a, d, f: Agg("{future}", ["fanout"])
    def extern(it, plain, args, dty, func):
        if plain.endswith("Future>::poll"):
            return Enum("std::task::Poll", 0, "Ready", [UNIT])
        if plain.endswith("IntoFuture>::into_future") or plain.startswith("std::pin::Pin::"):
            return args[0]
        return NotImplemented
    h.it.extern = extern
    src = open(prog.repo_core + "/src/socket/options.rs").read()
    opt = {n: int(re.search(r"pub const %s: i32 = (\d+);" % n, src).group(1)) for n in ("SUBSCRIBE", "UNSUBSCRIBE")}
    return sock, opt


def history(h):
    k = h.params.get("ops", 3)
    tl = h.params.get("topic_len", 2)
    ml = h.params.get("msg_len", 3)
    trie = Ref(Cell(h.method(TRIE, "new"), "trie"), ())
    via_socket = h.params.get("via_socket", False)
    if via_socket:
        # the application's path: SUBSCRIBE / UNSUBSCRIBE socket options handled by SubSocket::set_pattern_option
        from .d_c09 import Fut
        sock, opt = _sub_socket(h, trie)
        def sub_call(option, t):
            f = Fut(h, SUB, "set_pattern_option", [sock, opt[option], _slice(t)], trait="ISocket")
            r = f.poll()
            h.check(r is not None and r.idx == 0, "c12.sub-option.call-failed")
    h.panic_role = "c12.trie"
    subs = []            # reference: list of (topic bytes, refcount) ; topics compared symbolically
    alphabet = h.params.get("alphabet", 2)
    def topic(name):
        n = h.choose(tl + 1, name + ".len")
        bs = []
        for i in range(n):
            b = h.byte(f"{name}[{i}]")
            h.assume(z3.ULT(b, alphabet))       # small alphabet keeps prefixes colliding (the interesting case)
            bs.append(b)
        return bs
    def find(t):
        for e in subs:
            if len(e[0]) == len(t):
                c = conj([a == b for a, b in zip(e[0], t)])
                if h.ctx.branch(c):
                    return e
        return None
    for i in range(k):
        op = h.choose(2, f"op{i}")
        t = topic(f"t{i}")
        if op == 0:
            if via_socket:
                sub_call("SUBSCRIBE", t)
            else:
                h.method(TRIE, "subscribe", trie, _slice(t))
            e = find(t)
            if e is None:
                subs.append([t, 1])
            else:
                e[1] += 1
        else:
            if via_socket:
                sub_call("UNSUBSCRIBE", t)
                r = None
            else:
                r = h.method(TRIE, "unsubscribe", trie, _slice(t))
            e = find(t)
            if e is None or e[1] == 0:
                h.check(r in (False, None), "c12.unsubscribe-of-inactive-topic-returned-true")
            else:
                e[1] -= 1
                h.check(r is None or r == (e[1] == 0), "c12.unsubscribe-return-value", f"returned {r} with refcount now {e[1]}")
        # after every operation: matches(m) <=> some active subscription is a prefix of m, for every message m
        n = h.choose(ml + 1, f"m{i}.len")
        m = []
        for j in range(n):
            b = h.byte(f"m{i}[{j}]")
            h.assume(z3.ULT(b, alphabet))
            m.append(b)
        got = h.method(TRIE, "matches", trie, _slice(m))
        exp = False
        for tb, cnt in subs:
            if cnt > 0 and len(tb) <= len(m):
                c = conj([a == b for a, b in zip(tb, m[:len(tb)])])
                exp = c if exp is False else simp(z3.Or(bl(exp), bl(c)))
        # got is concrete on this path (the trie walk forked on the bytes); exp may still be symbolic
        if got:
            h.check(exp, "c12.matches-true-without-active-prefix",
                    "matches() returned true although no active subscription is a prefix of the message")
            h.cover("c12.match")
        else:
            h.check(simp(z3.Not(bl(exp))) if is_sym(exp) else (not exp), "c12.matches-false-despite-active-prefix",
                    "matches() returned false although an active subscription is a prefix of the message")
            h.cover("c12.no-match")


def replay_history(model, params, role):
    d = dict(map(tuple, model.get("_choices", [])))
    k = params.get("ops", 3)
    def bs(name, n):
        return bytes(model.get(f"{name}[{i}]", 0) if not isinstance(model.get(name), str) else 0 for i in range(n))
    def topic(name):
        n = d.get(name + ".len", 0)
        hx = model.get(name, "")
        b = bytes.fromhex(hx)[:n] if isinstance(hx, str) else b""
        return b + bytes(n - len(b))
    if params.get("via_socket"):
        # the same history through the public API (PUB/SUB over tcp); messages carry a 3-byte trailer, which does not
        # change which subscriptions are prefixes of them
        ops, subs, want = [], {}, []
        for i in range(k):
            if f"op{i}" not in d:
                break
            t = topic(f"t{i}")
            if d[f"op{i}"] == 0:
                ops.append("s:" + t.hex())
                subs[t] = subs.get(t, 0) + 1
            else:
                ops.append("u:" + t.hex())
                if subs.get(t, 0) > 0:
                    subs[t] -= 1
            if f"m{i}.len" in d:
                m = topic(f"m{i}")
                ops.append("m:" + m.hex())
                want.append("match " + str(any(c > 0 and m.startswith(tp) for tp, c in subs.items())).lower())
        def pred2(out):
            got = [l.strip() for l in out.splitlines() if l.startswith("match ")]
            return got != want
        return "sub_history " + " ".join(ops) + "\n", pred2, f"SUBSCRIBE/UNSUBSCRIBE options and published messages through the public API; prefix-multiset reference expects {want}"
    lines, subs, want = ["trie_new"], {}, []
    for i in range(k):
        if f"op{i}" not in d:
            break
        t = topic(f"t{i}")
        if d[f"op{i}"] == 0:
            lines.append("trie_sub " + t.hex())
            subs[t] = subs.get(t, 0) + 1
        else:
            lines.append("trie_unsub " + t.hex())
            if subs.get(t, 0) > 0:
                subs[t] -= 1
                want.append("unsub " + str(subs[t] == 0).lower())
            else:
                want.append("unsub false")
        if f"m{i}.len" in d:
            m = topic(f"m{i}")
            lines.append("trie_match " + m.hex())
            want.append("match " + str(any(c > 0 and m.startswith(tp) for tp, c in subs.items())).lower())
    def pred(out):
        got = [l.strip() for l in out.splitlines() if l.startswith(("unsub ", "match "))]
        return got != want
    return "\n".join(lines) + "\n", pred, f"history replayed natively; prefix-multiset reference expects {want}"
