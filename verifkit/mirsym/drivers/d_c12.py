"""C12 — SubscriptionTrie ≡ multiset-of-prefixes reference, for all short histories."""
import z3
from ..values import *
from ..models import conj, _deref
from .common import *

TRIE = "socket::patterns::trie::SubscriptionTrie"


def _slice(items):
    return SliceRef(Ref(Cell(Seq("array", list(items)), "topic"), ()), 0, len(items))


SUB = "socket::sub_socket::SubSocket"


def _sub_socket(h, trie):
    """SubSocket around the trie: only `subscriptions` is real; the upstream SUBSCRIBE/CANCEL fan-out to peers is a no-op"""
    import re
    prog = h.it.prog
    fields = prog.struct_fields(SUB)
    vals = {"subscriptions": BoxV(trie.cell, trie.path), "core": BoxV(Cell(Opaque("core"), "core"), ())}
    sock = Ref(Cell(Agg(SUB, [vals.get(f, Opaque(f)) for f in fields]), "sub"), ())
    fan = prog.resolve_method("", SUB, "send_subscription_command_to_all", None)
    assert fan
    h.it.hooks[fan] = lambda it, a, d, f: Agg("{future}", ["fanout"])
    def extern(it, plain, args, dty, func):
        if plain.endswith("Future>::poll"):
            return Enum("std::task::Poll", 0, "Ready", [UNIT])
        if plain.endswith("IntoFuture>::into_future") or plain.startswith("std::pin::Pin::"):
            return args[0]
        return NotImplemented
    h.it.extern = extern
    src = open(prog.repo_core + "/src/socket/options.rs").read()
    opt = {n: int(re.search(r"pub const %s: i32 = (\d+);" % n, src).group(1)) for n in ("SUBSCRIBE", "UNSUBSCRIBE")}
    return sock, opt


def history(h):
    k = h.params.get("ops", 3)
    tl = h.params.get("topic_len", 2)
    ml = h.params.get("msg_len", 3)
    trie = Ref(Cell(h.method(TRIE, "new"), "trie"), ())
    via_socket = h.params.get("via_socket", False)
    if via_socket:
        # the application's path: SUBSCRIBE / UNSUBSCRIBE socket options handled by SubSocket::set_pattern_option
        from .d_c09 import Fut
        sock, opt = _sub_socket(h, trie)
        def sub_call(option, t):
            f = Fut(h, SUB, "set_pattern_option", [sock, opt[option], _slice(t)], trait="ISocket")
            r = f.poll()
            h.check(r is not None and r.idx == 0, "c12.sub-option.call-failed")
    h.panic_role = "c12.trie"
    subs = []            # reference: list of (topic bytes, refcount) ; topics compared symbolically
    alphabet = h.params.get("alphabet", 2)
    def topic(name):
        n = h.choose(tl + 1, name + ".len")
        bs = []
        for i in range(n):
            b = h.byte(f"{name}[{i}]")
            h.assume(z3.ULT(b, alphabet))       # small alphabet keeps prefixes colliding (the interesting case)
            bs.append(b)
        return bs
    def find(t):
        for e in subs:
            if len(e[0]) == len(t):
                c = conj([a == b for a, b in zip(e[0], t)])
                if h.ctx.branch(c):
                    return e
        return None
    for i in range(k):
        op = h.choose(2, f"op{i}")
        t = topic(f"t{i}")
        if op == 0:
            if via_socket:
                sub_call("SUBSCRIBE", t)
            else:
                h.method(TRIE, "subscribe", trie, _slice(t))
            e = find(t)
            if e is None:
                subs.append([t, 1])
            else:
                e[1] += 1
        else:
            if via_socket:
                sub_call("UNSUBSCRIBE", t)
                r = None
            else:
                r = h.method(TRIE, "unsubscribe", trie, _slice(t))
            e = find(t)
            if e is None or e[1] == 0:
                h.check(r in (False, None), "c12.unsubscribe-of-inactive-topic-returned-true")
            else:
                e[1] -= 1
                h.check(r is None or r == (e[1] == 0), "c12.unsubscribe-return-value", f"returned {r} with refcount now {e[1]}")
        # after every operation: matches(m) <=> some active subscription is a prefix of m, for every message m
        n = h.choose(ml + 1, f"m{i}.len")
        m = []
        for j in range(n):
            b = h.byte(f"m{i}[{j}]")
            h.assume(z3.ULT(b, alphabet))
            m.append(b)
        got = h.method(TRIE, "matches", trie, _slice(m))
        exp = False
        for tb, cnt in subs:
            if cnt > 0 and len(tb) <= len(m):
                c = conj([a == b for a, b in zip(tb, m[:len(tb)])])
                exp = c if exp is False else simp(z3.Or(bl(exp), bl(c)))
        # got is concrete on this path (the trie walk forked on the bytes); exp may still be symbolic
        if got:
            h.check(exp, "c12.matches-true-without-active-prefix",
                    "matches() returned true although no active subscription is a prefix of the message")
            h.cover("c12.match")
        else:
            h.check(simp(z3.Not(bl(exp))) if is_sym(exp) else (not exp), "c12.matches-false-despite-active-prefix",
                    "matches() returned false although an active subscription is a prefix of the message")
            h.cover("c12.no-match")


def replay_history(model, params, role):
    d = dict(map(tuple, model.get("_choices", [])))
    k = params.get("ops", 3)
    def bs(name, n):
        return bytes(model.get(f"{name}[{i}]", 0) if not isinstance(model.get(name), str) else 0 for i in range(n))
    def topic(name):
        n = d.get(name + ".len", 0)
        hx = model.get(name, "")
        b = bytes.fromhex(hx)[:n] if isinstance(hx, str) else b""
        return b + bytes(n - len(b))
    if params.get("via_socket"):
        # the same history through the public API (PUB/SUB over tcp); messages carry a 3-byte trailer, which does not
        # change which subscriptions are prefixes of them
        ops, subs, want = [], {}, []
        for i in range(k):
            if f"op{i}" not in d:
                break
            t = topic(f"t{i}")
            if d[f"op{i}"] == 0:
                ops.append("s:" + t.hex())
                subs[t] = subs.get(t, 0) + 1
            else:
                ops.append("u:" + t.hex())
                if subs.get(t, 0) > 0:
                    subs[t] -= 1
            if f"m{i}.len" in d:
                m = topic(f"m{i}")
                ops.append("m:" + m.hex())
                want.append("match " + str(any(c > 0 and m.startswith(tp) for tp, c in subs.items())).lower())
        def pred2(out):
            got = [l.strip() for l in out.splitlines() if l.startswith("match ")]
            return got != want
        return "sub_history " + " ".join(ops) + "\n", pred2, f"SUBSCRIBE/UNSUBSCRIBE options and published messages through the public API; prefix-multiset reference expects {want}"
    lines, subs, want = ["trie_new"], {}, []
    for i in range(k):
        if f"op{i}" not in d:
            break
        t = topic(f"t{i}")
        if d[f"op{i}"] == 0:
            lines.append("trie_sub " + t.hex())
            subs[t] = subs.get(t, 0) + 1
        else:
            lines.append("trie_unsub " + t.hex())
            if subs.get(t, 0) > 0:
                subs[t] -= 1
                want.append("unsub " + str(subs[t] == 0).lower())
            else:
                want.append("unsub false")
        if f"m{i}.len" in d:
            m = topic(f"m{i}")
            lines.append("trie_match " + m.hex())
            want.append("match " + str(any(c > 0 and m.startswith(tp) for tp, c in subs.items())).lower())
    def pred(out):
        got = [l.strip() for l in out.splitlines() if l.startswith(("unsub ", "match "))]
        return got != want
    return "\n".join(lines) + "\n", pred, f"history replayed natively; prefix-multiset reference expects {want}"


# ------------------------------------------------------------------------------------------------
# PUB: a stalled subscriber must not block the publisher or the delivery to other subscribers
DIST = "socket::patterns::distributor::Distributor"
SCA = "sessionx::iface::ScaConnectionIface"
INPROC = "transport::inproc::connection::DirectInprocConnection"
URING = "io_uring_backend::zmtp_handler::ZmtpSmartConnection"
OPTS = "socket::options::SocketOptions"


def _creation_sites(prog):
    """every place in the crate that builds a connection object (or the engine configuration the io_uring worker
    builds its connection from): (kind, function, local that holds the send timeout given to the connection)"""
    from .. import slice as sl
    sites = []
    for fn, st in sl.find_sites(prog, "sessionx::iface::ScaConnectionIface::new("):
        m = re.search(r"(?:copy|move) _(\d+)\) -> \[", st)
        sites.append(("sca", fn, int(m.group(1)) if m else None))
    for fn, st in sl.find_sites(prog, "transport::inproc::connection::DirectInprocConnection {"):
        if fn.endswith("::clone") or "::tests::" in fn:
            continue
        m = re.search(r"sndtimeo: (?:copy|move) _(\d+)", st)
        sites.append(("inproc", fn, int(m.group(1)) if m else None))
    for fn, st in sl.find_sites(prog, "socket::options::ZmtpEngineConfig {"):
        if fn.endswith("::clone") or fn.endswith("::default") or "::tests::" in fn:
            continue
        m = re.search(r"sndtimeo: (?:copy|move) _(\d+)", st)
        sites.append(("engine_cfg", fn, int(m.group(1)) if m else None))
    return sites


def _timeout_at_site(h, fn, local, opts):
    """the value the creation site passes for options `opts`: the site's MIR is followed backwards from the argument
    to the expression that computes it - a field of the socket options, or a crate function applied to them, which is
    then executed"""
    from .. import slice as sl
    from ..interp import Unsupported
    prog = h.it.prog
    body = prog.body(fn)
    if local is None:
        raise Unsupported(f"creation site in {fn}: timeout argument is not a local")
    src = sl.value_source(body, local)
    def is_opts(l):
        return body.locals.get(l, "").replace(" ", "") in ("&" + OPTS, "&'_" + OPTS)
    if src[0] == "field" and is_opts(src[1]):
        return _deref(opts).f[src[2]], prog.struct_fields(OPTS)[src[2]]
    if src[0] == "call" and len(src[2]) == 1 and is_opts(src[2][0]):
        callee = h.it.resolve_fn(src[1], "")
        if callee:
            return h.it.run_body(prog.body(callee), [opts]), src[1]
    raise Unsupported(f"creation site in {fn}: send timeout computed by an expression this driver does not follow: {src[-1][:120]}")


def pub_never_blocks(h):
    """Distributor::{send_to_all, send_to_all_multipart} (the PUB fan-out, coroutine MIR) over two real connection
    objects: one whose queue is full (a subscriber that stopped reading), one with room. The connections are of the
    kind, and carry the send timeout, that a creation site of the crate gives a PUB socket's connections for a symbolic
    SNDTIMEO option (-1, 0, any positive value): the site's MIR is sliced backwards from the timeout argument and the
    expression found there is evaluated (executed when it is a crate function). The publish call must complete at its
    first poll and the other subscriber must get the message."""
    from .d_c09 import Fut
    from ..models import some, none, ok, err, dur_ns, _deref, MapV, _ChanM, _chan_fut_poll
    from ..interp import PathAbort
    prog = h.it.prog
    mode = h.choose(3, "sndtimeo")
    if mode == 0:
        opt = none()
    elif mode == 1:
        opt = some(dur_ns(0))
    else:
        d = h.bvar("sndtimeo_ns", 128)
        h.assume(z3.And(z3.UGT(d, 0), z3.ULE(d, z3.BitVecVal(2147483647 * 1_000_000, 128))))
        opt = some(dur_ns(d))
    of = prog.struct_fields(OPTS)
    ov = [Opaque(f) for f in of]
    ov[of.index("sndtimeo")] = opt
    ov[of.index("socket_type_name")] = string("PUB")            # SocketCore::create: format!("{:?}", SocketType::Pub).to_uppercase()
    opts = Ref(Cell(Agg(OPTS, ov), "options"), ())
    sites = _creation_sites(prog)
    kinds = {k for k, _, _ in sites}
    h.check({"sca", "inproc", "engine_cfg"} <= kinds, "c12.pub.setup-creation-sites-not-found", repr(sorted(kinds)))
    kind, fn, local = sites[h.choose(len(sites), "creation_site")]
    conn_timeo, how = _timeout_at_site(h, fn, local, opts)
    if kind == "engine_cfg":
        if not prog.resolve_method("", URING, "send_multipart", "ISocketConnection"):
            raise PathAbort("engine configuration feeds the io_uring connection only; not in this feature set")
    stalled_first = h.choose(2, "stalled_subscriber_first") == 1
    chans = [_ChanM(1), _ChanM(1)]
    stalled = 0 if stalled_first else 1
    chans[stalled].items.append("occupant")
    def conn(i):
        if kind == "sca":
            ty, fields = SCA, prog.struct_fields(SCA)
            vals = {"sca_stop_mailbox": Opaque("mailbox"), "sca_handle_id": 10 + i, "pipe_sender": Agg("{chan.tx}", [chans[i]]), "pipe_write_id_to_sca": 20 + i}
        elif kind == "inproc":
            ty, fields = INPROC, prog.struct_fields(INPROC)
            vals = {"connection_id": 10 + i, "target_endpoint_uri": string("inproc://x"), "peer_queue_sender": Agg("{chan.tx}", [chans[i]]), "monitor_tx": none(),
                    "is_congested": BoxV(Cell(Agg("{atomic}", [False]), "congested"), (), "AtomicBool")}
        else:
            ty, fields = URING, prog.struct_fields(URING, features=("ipc", "inproc", "plain", "io-uring"))
            vals = {"fd": 5 + i, "egress_tx": Agg("{chan.tx}", [chans[i]]), "event_fd": Opaque("eventfd"), "worker_asleep": Opaque("flag"), "work_signal_gen": Opaque("gen")}
        vals["sndtimeo"] = clone_val(conn_timeo)
        return BoxV(Cell(Agg(ty, [vals.get(f, Opaque(f)) for f in fields]), f"conn{i}"), (), ty)
    h.it.hooks["socket::events::clean_endpoint_uri"] = lambda it, a, d, f: a[0]
    sw = prog.resolve_method("", URING, "signal_worker", None) if kind == "engine_cfg" else None
    if sw:
        h.it.hooks[sw] = lambda it, a, d, f: UNIT
    uris = [string("tcp://a"), string("tcp://b")]
    ef = prog.struct_fields("socket::core::state::EndpointInfo")
    def endpoint(i):
        v = [Opaque(f) for f in ef]
        v[ef.index("connection_iface")] = conn(i)
        v[ef.index("endpoint_uri")] = clone_val(uris[i])
        return Agg("socket::core::state::EndpointInfo", v)
    csf = prog.struct_fields("socket::core::state::CoreState")
    cs_vals = [Opaque(f) for f in csf]
    cs_vals[csf.index("endpoints")] = MapV("HashMap", [(clone_val(uris[i]), endpoint(i)) for i in range(2)])
    core_state = Ref(Cell(Agg("{lock}", [Agg("socket::core::state::CoreState", cs_vals)]), "core_state"), ())
    dist = Ref(Cell(h.method(DIST, "new"), "dist"), ())
    for i in range(2):
        h.method(DIST, "add_peer_uri", dist, clone_val(uris[i]))
    def timeout_fn(it, args, dty, func):
        return Agg("{timeout}", [args[0], args[1]])
    h.it.hooks["tokio::time::timeout"] = timeout_fn
    def extern(it, plain, args, dty, func):
        if plain.startswith("tokio::time::timeout"):
            return timeout_fn(it, args, dty, func)
        if plain.endswith("Future>::poll"):
            fut = _deref(args[0])
            if isinstance(fut, Agg) and fut.ty == "{timeout}":
                inner = _chan_fut_poll(it, [Ref(Cell(fut.f[1], "inner"), ())], "", "")
                if inner.vname == "Ready":
                    return Enum("std::task::Poll", 0, "Ready", [ok(inner.f[0])])
                return Enum("std::task::Poll", 1, "Pending", [])        # the timer has not fired yet
            return NotImplemented
        if plain.endswith("IntoFuture>::into_future") or plain.startswith("std::pin::Pin::"):
            return args[0]
        return NotImplemented
    h.it.extern = extern
    h.panic_role = "c12.pub"
    multipart = h.choose(2, "multipart") == 1
    msg = h.method("message::msg::Msg", "from_vec", Seq("vec", [0x70]))
    if multipart:
        fb = Ref(Cell(h.method("message::FrameBatch", "new"), "fb"), ())
        h.method("message::FrameBatch", "push", fb, msg)
        f = Fut(h, DIST, "send_to_all_multipart", [dist, fb.load(), 1, core_state])
    else:
        f = Fut(h, DIST, "send_to_all", [dist, Ref(Cell(msg, "msg"), ()), 1, core_state])
    r = f.poll()
    where = fn.split("::{closure")[0].rsplit("::", 1)[-1]
    mname = ["infinite", "zero", "positive"][mode]
    h.check(r is not None, f"c12.pub.publisher-blocked-by-a-subscriber-that-stopped-reading.{kind}.sndtimeo-{mname}",
            f"SNDTIMEO option {'-1' if mode == 0 else ('0' if mode == 1 else 'positive')}, connection built in {where}() with the timeout from {how}: publishing with one subscriber whose queue is full parks the publisher "
            f"({'the other subscriber, served after it, has not received the message either' if stalled_first else 'delivery to later subscribers waits as well'})")
    if r is None:
        return
    other = 1 - stalled
    h.check(len(chans[other].items) == 1, "c12.pub.healthy-subscriber-did-not-get-the-message", str(len(chans[other].items)))
    h.check(chans[stalled].items == ["occupant"], "c12.pub.message-enqueued-on-the-full-pipe")
    h.check(r.idx == 0, "c12.pub.full-queue-reported-as-a-failed-peer", "a subscriber that is only slow would be removed from the distributor")
    h.cover(f"c12.pub.dropped-for-the-stalled-subscriber.{kind}")


def replay_pub_never_blocks(model, params, role):
    if "publisher-blocked" in role and ".sca." in role:
        return "pub_stalled_subscriber\n", (lambda out: "PUBLISHER BLOCKED" in out), \
            "tcp: PUB (SNDHWM 1, default SNDTIMEO) with a raw subscriber that stopped reading and a healthy SUB; expecting a publish call to block for seconds"
    if "publisher-blocked" in role and ".inproc." in role:
        return "pub_stalled_subscriber_inproc\n", (lambda out: "PUBLISHER BLOCKED" in out), \
            "inproc: PUB (SNDHWM 1, default SNDTIMEO) with a SUB (RCVHWM 1) that never calls recv and a healthy SUB; expecting a publish call to block for seconds"
    return None


AIE = "socket::patterns::anonymous_ingress::AnonymousIngressEngine"
PMS = "socket::patterns::ready_pipe_queue::PipeMessageSender"


def filtered_enqueue(h):
    """The subscriber-side filter in front of the SUB socket's receive queue: PipeMessageSender::FilteredAnonymous
    {try_send_sync, send, try_send_batch} over the real AnonymousIngressEngine / ReadyPipeQueue and the real
    SubscriptionTrie. A history of subscribe / unsubscribe calls and arrivals (1 message through try_send_sync or
    the send coroutine, or a batch of 2 through try_send_batch; messages of 1..2 frames, first frame 0..2 symbolic
    bytes) - after every arrival the queue is read out through recv_multipart and compared with the reference:
    exactly the messages whose first frame has an active subscription as a prefix at the moment they arrive, whole,
    in arrival order, once; what did not fit stays in the caller's deque untouched and in order; counters agree."""
    from .d_c09 import Fut
    from .d_c02 import _poll_async
    from .d_c07 import _frames, _flag
    from ..models import some, none, dur_ns
    prog = h.it.prog
    k = h.params.get("ops", 3)
    tl = h.params.get("topic_len", 1)
    ml = h.params.get("msg_len", 2)
    cap = h.params.get("capacity", 1)
    alphabet = 2
    trie = Ref(Cell(h.method(TRIE, "new"), "trie"), ())
    eng = Ref(Cell(h.method(AIE, "new", 4), "ingress"), ())
    snd = Ref(Cell(h.method(AIE, "register_pipe_filtered", eng, 0, cap, BoxV(trie.cell, trie.path), 1), "sender"), ())
    h.panic_role = "c12.filter"
    subs = []
    def sym_bytes(name, maxlen):
        n = h.choose(maxlen + 1, name + ".len")
        bs = []
        for i in range(n):
            b = h.byte(f"{name}[{i}]")
            h.assume(z3.ULT(b, alphabet))
            bs.append(b)
        return bs
    def find(t):
        for e in subs:
            if len(e[0]) == len(t) and h.ctx.branch(conj([a == b for a, b in zip(e[0], t)])):
                return e
        return None
    def expected_match(m):
        exp = False
        for tb, cnt in subs:
            if cnt > 0 and len(tb) <= len(m):
                c = conj([a == b for a, b in zip(tb, m[:len(tb)])])
                exp = c if exp is False else simp(z3.Or(bl(exp), bl(c)))
        return h.ctx.branch(exp) if is_sym(exp) else bool(exp)
    def mk_message(name):
        """(FrameBatch value, [frames as lists of bytes])"""
        first = sym_bytes(name, ml)
        two = h.choose(2, name + ".frames") == 1
        fb = Ref(Cell(h.method("message::FrameBatch", "new"), "fb"), ())
        m0 = Ref(Cell(h.method("message::msg::Msg", "from_vec", Seq("vec", list(first))), "m0"), ())
        if two:
            fl = h.it.run_body(prog.body(h.it.resolve_fn("message::flags::_::<impl message::flags::MsgFlags>::from_bits_retain", "")), [1])
            h.method("message::msg::Msg", "set_flags", m0, fl)
        h.method("message::FrameBatch", "push", fb, m0.load())
        frames = [first]
        if two:
            # the second frame starts with a byte of the alphabet, so that a filter looking at the wrong frame is noticed
            body = [0x00, 0x7E]
            h.method("message::FrameBatch", "push", fb, h.method("message::msg::Msg", "from_vec", Seq("vec", list(body))))
            frames.append(body)
        return fb.load(), frames
    zero = some(dur_ns(0))
    def read_out():
        out = []
        for _ in range(4):
            r = _poll_async(h, AIE, "recv_multipart", [eng, clone_val(zero)])
            if r.idx != 0:
                break
            out.append([_msg_bytes(m) for m in _frames(r.f[0])])
        return out
    def same(got, exp):
        """both are lists of messages, a message a list of frames, a frame a list of bytes (ints or z3 terms)"""
        if len(got) != len(exp):
            return False
        for g, e in zip(got, exp):
            if len(g) != len(e):
                return False
            for gf, ef in zip(g, e):
                if len(gf) != len(ef):
                    return False
                for a, b in zip(gf, ef):
                    if is_sym(a) or is_sym(b):
                        if not h.ctx.branch(simp(bv(a, 8) == bv(b, 8))):
                            return False
                    elif a != b:
                        return False
        return True
    arrivals = 0
    for i in range(k):
        op = h.choose(3, f"op{i}")
        if op == 0:
            t = sym_bytes(f"t{i}", tl)
            h.method(TRIE, "subscribe", trie, _slice(t))
            e = find(t)
            if e is None:
                subs.append([t, 1])
            else:
                e[1] += 1
            continue
        if op == 1:
            t = sym_bytes(f"t{i}", tl)
            h.method(TRIE, "unsubscribe", trie, _slice(t))
            e = find(t)
            if e is not None and e[1] > 0:
                e[1] -= 1
            continue
        arrivals += 1
        path = h.choose(3, f"path{i}")
        if path in (0, 1):
            fb, frames = mk_message(f"m{i}")
            if path == 0:
                r = h.method(PMS, "try_send_sync", snd, fb)
                h.check(r.idx == 0, "c12.filter.try-send-on-an-empty-queue-failed")
            else:
                f = Fut(h, PMS, "send", [snd, fb])
                r = f.poll()
                h.check(r is not None and r.idx == 0, "c12.filter.send-on-an-empty-queue-did-not-complete")
            exp = [frames] if expected_match(frames[0]) else []
            got = read_out()
            h.check(same(got, exp), "c12.filter.delivered-differs-from-matching-messages",
                    f"{'try_send_sync' if path == 0 else 'send'}: delivered {len(got)} message(s), reference {len(exp)}")
            h.cover("c12.filter.single-delivered", bool(exp))
            h.cover("c12.filter.single-dropped", not exp)
        else:
            a, fa = mk_message(f"m{i}a")
            b, fb_ = mk_message(f"m{i}b")
            dq = Ref(Cell(Seq("vecdeque", [a, b], "message::FrameBatch"), "items"), ())
            n = h.method(PMS, "try_send_batch", snd, dq)
            ma, mb = expected_match(fa[0]), expected_match(fb_[0])
            # reference: walk in order; a matching message is enqueued while there is room (queue empty, capacity cap);
            # the first matching message without room stops the walk and stays, with everything behind it
            exp, left, frames_consumed, room = [], [], 0, cap
            items = [(fa, ma), (fb_, mb)]
            for j, (fr, m) in enumerate(items):
                if m and room == 0:
                    left = [x[0] for x in items[j:]]
                    break
                frames_consumed += len(fr)
                if m:
                    exp.append(fr)
                    room -= 1
            got = read_out()
            h.check(same(got, exp), "c12.filter.batch-delivered-differs-from-matching-messages",
                    f"try_send_batch: delivered {len(got)} message(s), reference {len(exp)} (matches: {ma}, {mb}; capacity {cap})")
            rest = [[_msg_bytes(m) for m in _frames(x)] for x in dq.load().f]
            h.check(same(rest, left), "c12.filter.batch-leftover-differs", f"left in the caller's deque: {len(rest)}, reference {len(left)}")
            h.check(n == frames_consumed, "c12.filter.batch-return-value-differs-from-frames-consumed", f"returned {n}, reference {frames_consumed}")
            h.cover("c12.filter.batch-mixed", ma != mb)
            h.cover("c12.filter.batch-backpressured", bool(left))
        h.check(h.method(PMS, "reserved_count", snd) == 0, "c12.filter.reservation-left-behind")
        h.check(h.method(PMS, "queued_count", snd) == 0, "c12.filter.queued-count-after-reading-everything")
    h.cover("c12.filter.arrival-after-unsubscribe", arrivals > 0 and any(c == 0 for _, c in subs))


def _msg_bytes(m):
    d = m.f[0]
    return list(d.f[0].f) if d.idx == 1 else []


def replay_filtered_enqueue(model, params, role):
    """public-API replay (PUB/SUB over tcp) for histories whose arrivals are single-frame messages; batches and
    two-frame messages have no public-API equivalent that pins the path taken and are reported unreplayed"""
    if "delivered-differs-from-matching-messages" not in role or "batch" in role:
        return None
    d = dict(map(tuple, model.get("_choices", [])))
    def bs(name):
        n = d.get(name + ".len", 0)
        return bytes((model.get(f"{name}[{i}]", 0) or 0) & 0xFF for i in range(n))
    ops, subs, want = [], {}, []
    for i in range(params.get("ops", 3)):
        if f"op{i}" not in d:
            break
        op = d[f"op{i}"]
        if op == 0:
            t = bs(f"t{i}")
            ops.append("s:" + t.hex())
            subs[t] = subs.get(t, 0) + 1
        elif op == 1:
            t = bs(f"t{i}")
            ops.append("u:" + t.hex())
            if subs.get(t, 0) > 0:
                subs[t] -= 1
        else:
            if d.get(f"path{i}") == 2 or d.get(f"m{i}.frames") == 1:
                return None
            m = bs(f"m{i}")
            ops.append("m:" + m.hex())
            want.append("match " + str(any(c > 0 and m.startswith(tp) for tp, c in subs.items())).lower())
    def pred(out):
        got = [l.strip() for l in out.splitlines() if l.startswith("match ")]
        return got != want
    return "sub_history " + " ".join(ops) + "\n", pred, f"the history through the public API (PUB/SUB over tcp); reference expects {want}"
REPLAY_INCONCLUSIVE_WHEN_NOT_REPRODUCED = {"filtered_enqueue": True}      # the public API does not pin which of the three enqueue paths a live session takes
