"""C15 kernel: the socket core's LINGER decision (ShutdownCoordinator::{start_linger_if_needed,
is_linger_expired_or_queues_empty}) against the reference "done when every socket-to-session pipe is empty, or when the
LINGER interval, counted from the moment lingering started, has passed; never because of time when LINGER is -1; at
once when LINGER is 0" - under a symbolic clock and for every LINGER value."""
import z3
from ..values import *
from ..models import ok, err, some, none, dur_ns, _deref, instant_ns, MapV, _ChanM
from .common import *

SC = "socket::core::state::ShutdownCoordinator"
CS = "socket::core::state::CoreState"


def linger_decision(h):
    prog = h.it.prog
    W = 128
    mode = h.choose(3, "linger")                # 0: -1 (None), 1: 0, 2: positive
    d = None
    if mode == 0:
        linger = none()
    elif mode == 1:
        linger = some(dur_ns(0))
    else:
        d = h.bvar("linger_ns", W)
        h.assume(z3.And(z3.UGT(d, 0), z3.ULE(d, z3.BitVecVal(2147483647 * 1_000_000, W))))
        linger = some(dur_ns(d))
    clock = {"last": None, "n": 0}
    def tick():
        t = h.bvar(f"t{clock['n']}", W)
        clock["n"] += 1
        h.assume(z3.ULE(t, z3.BitVecVal(1 << 70, W)))
        if clock["last"] is not None:
            h.assume(z3.UGE(t, clock["last"]))
        clock["last"] = t
        return t
    now = {"t": tick()}
    def extern(it, plain, args, dty, func):
        if plain in ("std::time::Instant::now", "tokio::time::Instant::now"):
            return instant_ns(now["t"])
        return NotImplemented
    h.it.extern = extern
    h.panic_role = "c15.linger"
    # coordinator in the Lingering phase, no deadline yet
    phases = prog.enum_variants("socket::core::state::ShutdownPhase")
    scf = prog.struct_fields(SC)
    sc_vals = [Opaque(f) for f in scf]
    sc_vals[scf.index("state")] = Enum("socket::core::state::ShutdownPhase", phases.index("Lingering"), "Lingering", [])
    sc_vals[scf.index("linger_deadline")] = none()
    coord = Ref(Cell(Agg(SC, sc_vals), "coordinator"), ())
    # socket-to-session pipes: 0..2, each holding 0..1 messages
    n_pipes = h.choose(3, "pipes")
    chans = []
    for i in range(n_pipes):
        ch = _ChanM(4)
        if h.choose(2, f"pipe{i}_has_message") == 1:
            ch.items.append("msg")
        chans.append(ch)
    csf = prog.struct_fields(CS)
    cs_vals = [Opaque(f) for f in csf]
    cs_vals[csf.index("pipes_tx")] = MapV("HashMap", [(100 + i, Agg("{chan.tx}", [chans[i]])) for i in range(n_pipes)])
    core_state = Ref(Cell(Agg(CS, cs_vals), "core_state"), ())
    t_start = now["t"]
    h.method(SC, "start_linger_if_needed", coord, clone_val(linger), 1)
    def pipes_empty():
        return all(not c.items for c in chans)
    for j in range(h.params.get("ticks", 3)):
        ev = h.choose(3, f"event{j}")           # 0 time passes; 1 a pipe drains; 2 the periodic check re-arms (as check_and_advance_linger does)
        now["t"] = tick()
        if ev == 1:
            full = [c for c in chans if c.items]
            if not full:
                from ..interp import PathAbort
                raise PathAbort("nothing to drain")
            full[0].items.pop(0)
        elif ev == 2:
            h.method(SC, "start_linger_if_needed", coord, clone_val(linger), 1)
        got = h.method(SC, "is_linger_expired_or_queues_empty", coord, core_state, 1)
        if pipes_empty():
            h.check(got is True, "c15.linger.not-finished-although-every-pipe-is-empty")
            h.cover("c15.linger.finished-because-empty")
            continue
        if mode == 0:
            h.check(got is False, "c15.linger.infinite-linger-gave-up-with-messages-queued",
                    "LINGER -1: the decision became 'done' while a socket-to-session pipe still holds a message")
            h.cover("c15.linger.infinite-keeps-waiting")
        elif mode == 1:
            h.check(got is True, "c15.linger.zero-linger-did-not-finish-at-once")
            h.cover("c15.linger.zero-finishes")
        else:
            # done exactly when the interval, counted from the start of lingering, has passed
            passed = z3.UGE(now["t"], t_start + d)
            if got is True:
                h.check(passed, "c15.linger.gave-up-before-the-linger-interval-passed",
                        "positive LINGER: 'done' with messages queued although (start of lingering + LINGER) is not reached")
                h.cover("c15.linger.expired")
            else:
                h.check(z3.Not(passed), "c15.linger.still-lingering-after-the-interval-passed",
                        "positive LINGER: not 'done' although (start of lingering + LINGER) has passed: the interval was restarted or never armed")
                h.cover("c15.linger.within-interval")
