"""C17 kernel (failure isolation): tearing down ONE connection's state in the socket core
(socket::core::pipe_manager::cleanup_session_state_by_uri) removes exactly that connection's endpoint entry, pipe
sender, reader task and mapping, closes exactly that connection and tells the socket pattern about exactly that
pipe - whatever else the socket holds."""
import z3
from ..values import *
from ..models import ok, err, some, none, _deref, MapV, _ChanM
from .common import *
from .d_c09 import Fut

EPI = "socket::core::state::EndpointInfo"
CS = "socket::core::state::CoreState"
CORE = "socket::core::SocketCore"
FN = "socket::core::pipe_manager::cleanup_session_state_by_uri"


def cleanup_one_connection(h):
    prog = h.it.prog
    ef = prog.struct_fields(EPI)
    ets = prog.enum_variants("socket::core::state::EndpointType")
    n_sessions = 1 + h.choose(3, "sessions")               # 1..3 sessions
    with_listener = h.choose(2, "listener") == 1
    uris, infos, kinds = [], [], []
    def mk(i, kind, with_pipes=True):
        v = [Opaque(f) for f in ef]
        v[ef.index("endpoint_type")] = Enum("socket::core::state::EndpointType", ets.index(kind), kind, [])
        v[ef.index("task_handle")] = some(Agg("{join_handle}", [i, False])) if h.choose(2, f"ep{i}_has_task") == 1 else none()
        v[ef.index("handle_id")] = 40 + i
        v[ef.index("connection_iface")] = BoxV(Cell(Agg("{peer}", [i]), f"conn{i}"), (), "{peer}")
        v[ef.index("pipe_ids")] = some(Agg("tuple", [100 + i, 200 + i])) if with_pipes else none()
        uri = string("tcp://peer%d" % i)
        v[ef.index("endpoint_uri")] = clone_val(uri)
        return uri, Agg(EPI, v)
    for i in range(n_sessions):
        u, inf = mk(i, "Session")
        uris.append(u); infos.append(inf); kinds.append("Session")
    if with_listener:
        u, inf = mk(9, "Listener", with_pipes=False)
        uris.append(u); infos.append(inf); kinds.append("Listener")
    csf = prog.struct_fields(CS)
    cs_vals = [Opaque(f) for f in csf]
    cs_vals[csf.index("handle")] = 1
    cs_vals[csf.index("endpoints")] = MapV("HashMap", [(clone_val(u), inf) for u, inf in zip(uris, infos)])
    cs_vals[csf.index("pipes_tx")] = MapV("HashMap", [(100 + i, Agg("{chan.tx}", [_ChanM(4)])) for i in range(n_sessions)])
    cs_vals[csf.index("pipe_reader_task_handles")] = MapV("HashMap", [(200 + i, Agg("{join_handle}", [50 + i, False])) for i in range(n_sessions)])
    cs_vals[csf.index("pipe_read_id_to_endpoint_uri")] = MapV("HashMap", [(200 + i, clone_val(uris[i])) for i in range(n_sessions)])
    state = Agg(CS, cs_vals)
    cf = prog.struct_fields(CORE)
    core_vals = [Opaque(f) for f in cf]
    core_vals[cf.index("handle")] = 1
    core_vals[cf.index("core_state")] = Agg("{lock}", [state])
    core = BoxV(Cell(Agg(CORE, core_vals), "core"), ())
    closed, detached, aborted = [], [], []
    DYNC = "<dyn socket::connection_iface::ISocketConnection as socket::connection_iface::ISocketConnection>::"
    DYNS = "<dyn socket::ISocket as socket::ISocket>::"
    def close_conn(it, args, dty, func):
        p = _deref(args[0])
        while isinstance(p, BoxV):
            p = _deref(p.load())
        closed.append(p.f[0])
        return Agg("{future}", ["close"])
    def pipe_detached(it, args, dty, func):
        detached.append(args[1])
        return Agg("{future}", ["detached"])
    h.it.hooks[DYNC + "close_connection"] = close_conn
    h.it.hooks[DYNS + "pipe_detached"] = pipe_detached
    h.it.hooks[prog.resolve_method("", CS, "send_monitor_event", None)] = lambda it, a, d, f: UNIT
    def extern(it, plain, args, dty, func):
        if plain.endswith("JoinHandle::abort") or plain.endswith("JoinHandle::<()>::abort"):
            aborted.append(_deref(args[0]).f[0])
            return UNIT
        if plain.endswith("JoinHandle::is_finished") or plain.endswith("JoinHandle::<()>::is_finished"):
            return False
        if plain.endswith("Future>::poll"):
            fut = _deref(args[0])
            while isinstance(fut, BoxV):
                fut = _deref(fut.load())
            if isinstance(fut, Agg) and fut.ty == "{future}":
                return Enum("std::task::Poll", 0, "Ready", [ok(UNIT) if fut.f[0] == "close" else UNIT])
            return NotImplemented
        if plain.endswith("IntoFuture>::into_future") or plain.startswith("std::pin::Pin::"):
            return args[0]
        return NotImplemented
    h.it.extern = extern
    h.panic_role = "c17.cleanup"
    target = h.choose(len(uris) + 1, "target")              # an existing endpoint, or a URI the core does not know
    t_uri = uris[target] if target < len(uris) else string("tcp://unknown")
    logic = Ref(Cell(BoxV(Cell(Agg("{socket-logic}", []), "logic"), (), "{socket-logic}"), "logic_ref"), ())
    def snapshot():
        s = core.load().f[cf.index("core_state")].f[0]
        def keys(name):
            out = []
            for k, _ in s.f[csf.index(name)].items:
                out.append(bytes(k.f).decode() if isinstance(k, Seq) else k)
            return sorted(out, key=str)
        return {nm: keys(nm) for nm in ("endpoints", "pipes_tx", "pipe_reader_task_handles", "pipe_read_id_to_endpoint_uri")}
    before = snapshot()
    fn = h.it.resolve_fn(FN, "")
    coro = Ref(Cell(h.it.run_body(prog.body(fn), [core, SliceRef(Ref(Cell(t_uri, "uri"), ()), 0, len(t_uri.f), True), logic, none()]), "coro"), ())
    r = h.it.run_body(prog.body(fn + "::{closure#0}"), [coro, Opaque("cx")])
    h.check(r.vname == "Ready", "c17.cleanup.did-not-complete")
    if r.vname != "Ready":
        return
    after = snapshot()
    is_session = target < len(uris) and kinds[target] == "Session"
    if not is_session:
        h.check(after == before and not closed and not detached and not aborted, "c17.cleanup.unknown-or-listener-uri-changed-the-socket",
                f"before {before}, after {after}, closed {closed}, detached {detached}, aborted {aborted}")
        h.check(r.f[0].idx == 0, "c17.cleanup.reported-a-removed-session-for-a-uri-that-is-none")
        h.cover("c17.cleanup.refused")
        return
    i = target
    want = {k: list(v) for k, v in before.items()}
    want["endpoints"].remove(bytes(uris[i].f).decode())
    want["pipes_tx"].remove(100 + i)
    want["pipe_reader_task_handles"].remove(200 + i)
    want["pipe_read_id_to_endpoint_uri"].remove(200 + i)
    h.check(after == want, "c17.cleanup.other-connections-state-touched-or-own-state-left-behind",
            f"tearing down session {i}: before {before}, after {after}, expected {want}")
    h.check(closed == [i], "c17.cleanup.closed-another-or-no-connection", f"close_connection called on {closed}, expected [{i}]")
    h.check(detached == [200 + i], "c17.cleanup.pattern-told-about-another-or-no-pipe", f"pipe_detached({detached}), expected [{200 + i}]")
    own_tasks = {50 + i, i}
    h.check(all(a in own_tasks for a in aborted), "c17.cleanup.aborted-a-task-of-another-connection", f"aborted {aborted}")
    h.check(50 + i in aborted, "c17.cleanup.reader-task-of-the-connection-not-aborted", f"aborted {aborted}")
    h.check(r.f[0].idx == 1, "c17.cleanup.removed-session-not-returned")
    h.cover("c17.cleanup.one-of-several", n_sessions > 1)
