"""C02 sender side: a multipart message with more frames than FrameBatch supports is refused with an
error by Socket::send_multipart (public API), never a panic."""
import z3
from ..values import *
from ..models import ok
from .common import *

SOCK = "socket::types::Socket"


def sender_frame_limit(h):
    lens = h.params.get("lens", [0, 1, 2, 3, 255, 256, 300])
    n = lens[h.choose(len(lens), "frames")]
    frames = []
    for i in range(n):
        m = h.method("message::msg::Msg", "new")
        frames.append(m)
    vec = Seq("vec", frames, "message::msg::Msg")
    sock = Agg(SOCK, [BoxV(Cell(Opaque("inner-socket"), "inner"), (), "{stub}"), Opaque("mailbox")])
    sref = Ref(Cell(sock, "socket"), ())
    seen = {}
    def inner_send(it, args, dty, func):
        seen["batch"] = args[1]
        return Agg("{future}", ["inner_send"])
    h.it.hooks["<dyn socket::ISocket as socket::ISocket>::send_multipart"] = inner_send
    def extern(it, plain, args, dty, func):
        if plain.endswith("Future>::poll"):
            return Enum("std::task::Poll", 0, "Ready", [ok(UNIT)])
        if plain.endswith("IntoFuture>::into_future") or plain.startswith("std::pin::Pin::"):
            return args[0]
        return NotImplemented
    h.it.extern = extern
    h.panic_role = "c02.sender"
    fn = h.it.prog.resolve_method("", SOCK, "send_multipart", None)
    coro = h.it.run_body(h.it.prog.body(fn), [sref, vec])
    r = h.it.run_body(h.it.prog.body(fn + "::{closure#0}"), [Ref(Cell(coro, "coro"), ()), Opaque("cx")])
    res = r.f[0]
    if n > 255:
        h.check(res.idx == 1, "c02.sender.oversized-message-accepted")
        h.check("batch" not in seen, "c02.sender.oversized-message-forwarded")
        h.cover("c02.sender.refused")
    else:
        h.check(res.idx == 0 and "batch" in seen, "c02.sender.valid-message-refused", f"{n} frames")
        h.cover("c02.sender.accepted")


def replay_sender_frame_limit(model, params, role):
    ch = dict(map(tuple, model.get("_choices", [])))
    lens = params.get("lens", [0, 1, 2, 3, 255, 256, 300])
    n = lens[ch.get("frames", 0)]
    return f"send_multipart_frames {n}\n", (lambda out: "PANIC" in out), f"Socket::send_multipart with {n} frames; expecting a panic"
