"""C02 sender side: a multipart message with more frames than FrameBatch supports is refused with an
error by Socket::send_multipart (public API), never a panic."""
import z3
from ..values import *
from ..models import ok
from .common import *

SOCK = "socket::types::Socket"


def sender_frame_limit(h):
    lens = h.params.get("lens", [0, 1, 2, 3, 255, 256, 300])
    n = lens[h.choose(len(lens), "frames")]
    frames = []
    for i in range(n):
        m = h.method("message::msg::Msg", "new")
        frames.append(m)
    vec = Seq("vec", frames, "message::msg::Msg")
    sock = Agg(SOCK, [BoxV(Cell(Opaque("inner-socket"), "inner"), (), "{stub}"), Opaque("mailbox")])
    sref = Ref(Cell(sock, "socket"), ())
    seen = {}
    def inner_send(it, args, dty, func):
        seen["batch"] = args[1]
        return Agg("{future}", ["inner_send"])
    h.it.hooks["<dyn socket::ISocket as socket::ISocket>::send_multipart"] = inner_send
    def extern(it, plain, args, dty, func):
        if plain.endswith("Future>::poll"):
            return Enum("std::task::Poll", 0, "Ready", [ok(UNIT)])
        if plain.endswith("IntoFuture>::into_future") or plain.startswith("std::pin::Pin::"):
            return args[0]
        return NotImplemented
    h.it.extern = extern
    h.panic_role = "c02.sender"
    fn = h.it.prog.resolve_method("", SOCK, "send_multipart", None)
    coro = h.it.run_body(h.it.prog.body(fn), [sref, vec])
    r = h.it.run_body(h.it.prog.body(fn + "::{closure#0}"), [Ref(Cell(coro, "coro"), ()), Opaque("cx")])
    res = r.f[0]
    if n > 255:
        h.check(res.idx == 1, "c02.sender.oversized-message-accepted")
        h.check("batch" not in seen, "c02.sender.oversized-message-forwarded")
        h.cover("c02.sender.refused")
    else:
        h.check(res.idx == 0 and "batch" in seen, "c02.sender.valid-message-refused", f"{n} frames")
        h.cover("c02.sender.accepted")


def replay_sender_frame_limit(model, params, role):
    ch = dict(map(tuple, model.get("_choices", [])))
    lens = params.get("lens", [0, 1, 2, 3, 255, 256, 300])
    n = lens[ch.get("frames", 0)]
    return f"send_multipart_frames {n}\n", (lambda out: "PANIC" in out), f"Socket::send_multipart with {n} frames; expecting a panic"


AIE = "socket::patterns::anonymous_ingress::AnonymousIngressEngine"
PMS = "socket::patterns::ready_pipe_queue::PipeMessageSender"


def _poll_async(h, ty, name, args):
    fn = h.it.prog.resolve_method("", ty, name, None)
    coro = h.it.run_body(h.it.prog.body(fn), list(args))
    r = h.it.run_body(h.it.prog.body(fn + "::{closure#0}"), [Ref(Cell(coro, "coro"), ()), Opaque("cx")])
    if not (isinstance(r, Enum) and r.vname == "Ready"):
        raise RuntimeError("pending")
    return r.f[0]


def _mk_msg(h, tag, more):
    m = h.method("message::msg::Msg", "from_vec", Seq("vec", [tag]))
    r = Ref(Cell(m, "m"), ())
    fl = h.it.run_body(h.it.prog.body(h.it.resolve_fn("message::flags::_::<impl message::flags::MsgFlags>::from_bits_retain", "")), [1 if more else 0])
    h.method("message::msg::Msg", "set_flags", r, fl)
    return r.load()


def _tag(m):
    d = m.f[0]
    return d.f[0].f[0] if d.idx == 1 and d.f[0].f else None


def ingress_mixed_reads(h):
    """PULL/SUB ingress: two peers, message A (3 frames) on pipe 0 and B (2 frames) on pipe 1 queued; the
    application mixes recv() and recv_multipart() (RCVTIMEO 0); every frame handed out must continue the
    message that is being read."""
    from .d_c07 import _frames, _flag
    k = h.params.get("calls", 4)
    eng = Ref(Cell(h.method(AIE, "new", 4), "ingress"), ())
    senders = [Ref(Cell(h.method(AIE, "register_pipe", eng, p, 4, 1), f"s{p}"), ()) for p in range(2)]
    def enqueue(p, tags):
        fb = Ref(Cell(h.method("message::FrameBatch", "new"), "fb"), ())
        for i, t in enumerate(tags):
            h.method("message::FrameBatch", "push", fb, _mk_msg(h, t, i + 1 < len(tags)))
        r = h.method(PMS, "try_send_sync", senders[p], fb.load())
        h.check(r.idx == 0, "c02.ingress.setup-enqueue")
    msgs = {0: [0xA1, 0xA2, 0xA3], 1: [0xB1, 0xB2]}
    first = h.choose(2, "first_enqueued")
    enqueue(first, msgs[first])
    enqueue(1 - first, msgs[1 - first])
    h.panic_role = "c02.ingress"
    zero = Enum("std::option::Option", 1, "Some", [Agg("std::time::Duration", [0])])
    delivered = []
    detached = set()
    nops = 4 if h.params.get("detach") else 2
    for i in range(k):
        op = h.choose(nops, f"call{i}")
        if op >= 2:
            p = op - 2
            h.method(AIE, "deregister_pipe", eng, p)
            detached.add(p)
            delivered.append(("detach", p))
            continue
        if op == 0:
            r = _poll_async(h, AIE, "recv", [eng, clone_val(zero)])
            if r.idx == 0:
                delivered.append((_tag(r.f[0]), bool(_flag(r.f[0], 1))))
        else:
            r = _poll_async(h, AIE, "recv_multipart", [eng, clone_val(zero)])
            if r.idx == 0:
                for m in _frames(r.f[0]):
                    delivered.append((_tag(m), bool(_flag(m, 1))))
    # oracle: delivered frames form whole messages, contiguous and in order
    expect_next = None
    for tag, more in delivered:
        if tag == "detach":
            # a partially read message may be cut short only by the detachment of its own connection
            if expect_next is not None and expect_next[0] == more:
                expect_next = None
            continue
        owner = 0 if tag in msgs[0] else 1
        idx = msgs[owner].index(tag)
        if expect_next is not None:
            h.check((owner, idx) == expect_next, "c02.ingress.frame-of-another-message-inside-a-partially-read-message",
                    f"delivered order {[(hex(t) if isinstance(t, int) else t, m) for t, m in delivered]}")
        else:
            h.check(idx == 0, "c02.ingress.message-does-not-start-at-its-first-frame", f"delivered order {[(hex(t) if isinstance(t, int) else t, m) for t, m in delivered]}")
        h.check(more == (idx + 1 < len(msgs[owner])), "c02.ingress.more-flag-wrong")
        expect_next = (owner, idx + 1) if more else None
    h.cover("c02.ingress.mixed-read", len(delivered) >= 3)


def ingress_detach(h):
    h.params = dict(h.params, detach=True)
    ingress_mixed_reads(h)


def _replay_ingress(model, params, role, detach):
    d = dict(map(tuple, model.get("_choices", [])))
    k = params.get("calls", 4)
    msgs = {0: [0xA1, 0xA2, 0xA3], 1: [0xB1, 0xB2]}
    first = d.get("first_enqueued", 0)
    lines = ["ing_new", f"ing_send {first} {bytes(msgs[first]).hex()}", f"ing_send {1 - first} {bytes(msgs[1 - first]).hex()}"]
    for i in range(k):
        if f"call{i}" not in d:
            break
        op = d[f"call{i}"]
        lines.append("ing_recv" if op == 0 else "ing_recvmp" if op == 1 else f"ing_dereg {op - 2}")
    def pred(out):
        expect_next, bad = None, False
        for l in out.splitlines():
            if l.startswith("detach "):
                p = int(l.split()[1])
                if expect_next is not None and expect_next[0] == p:
                    expect_next = None
            elif l.startswith("frame ") and "none" not in l:
                t = l.split()[1]
                more = t.endswith("+")
                tag = int(t.rstrip("+"), 16)
                owner = 0 if tag in msgs[0] else 1
                idx = msgs[owner].index(tag)
                if expect_next is not None:
                    bad = bad or (owner, idx) != expect_next
                else:
                    bad = bad or idx != 0
                expect_next = (owner, idx + 1) if more else None
        return bad
    return "\n".join(lines) + "\n", pred, "call sequence replayed natively on the real AnonymousIngressEngine; expecting a frame that does not continue the message being read"


def replay_ingress_mixed_reads(model, params, role):
    return _replay_ingress(model, params, role, False)


def replay_ingress_detach(model, params, role):
    return _replay_ingress(model, params, role, True)


# ------------------------------------------------------------------------------------------------
# ROUTER sender side: the frames handed to the connection must form ONE ZMTP message whatever MORE flags the
# application set on the payload frames it passed to send_multipart
ROUTER = "socket::router_socket::RouterSocket"
STRATS = ["DealerPeerStrategy", "ReqPeerStrategy", "RouterPeerStrategy", "DefaultRouterStrategy"]


class _Stop(Exception):
    pass


def router_send_multipart_flags(h):
    """RouterSocket::send_multipart from the point where the peer is known (region mode inside its coroutine MIR:
    prepare_wire_frames of the peer's strategy, then the function's own flag fix-up) to the hand-over to the
    connection. Payload of 1..3 frames, each empty or one symbolic byte, each with a symbolic MORE flag as set by
    the application."""
    from .d_c01 import _debug_places
    from .d_c07 import _flag
    from ..models import _deref
    prog = h.it.prog
    fn = prog.resolve_method("", ROUTER, "send_multipart", "ISocket")
    clo = fn + "::{closure#0}"
    body = prog.body(clo)
    dbg = _debug_places(prog, clo)
    k = 1 + h.choose(3, "payload_frames")
    strat = STRATS[h.choose(len(STRATS), "peer_strategy")]
    fb = Ref(Cell(h.method("message::FrameBatch", "new"), "fb"), ())
    from_bits = h.it.prog.body(h.it.resolve_fn("message::flags::_::<impl message::flags::MsgFlags>::from_bits_retain", ""))
    app_more = []
    for i in range(k):
        empty = h.choose(2, f"empty{i}") == 1
        m = Ref(Cell(h.method("message::msg::Msg", "from_vec", Seq("vec", [] if empty else [h.byte(f"p{i}")])), "m"), ())
        more = h.choose(2, f"more{i}") == 1            # whatever the application happened to set
        app_more.append(more)
        h.method("message::msg::Msg", "set_flags", m, h.it.run_body(from_bits, [1 if more else 0]))
        h.method("message::FrameBatch", "push", fb, m.load())
    ident = h.method("message::msg::Msg", "from_vec", Seq("vec", [0x49]))
    # the socket: only `framing` is read by the region
    enc = FnItem("socket::patterns::framing::router_auto_encode")
    dec = FnItem("socket::patterns::framing::router_auto_decode")
    latch = h.method("socket::patterns::framing::FramingLatch", "new", enc, dec)
    fields = prog.struct_fields(ROUTER)
    sock = Ref(Cell(Agg(ROUTER, [latch if f == "framing" else Opaque(f) for f in fields]), "router"), ())
    sf = SparseF([sock, Opaque("frames-moved")])
    def put(name, v):
        kind = dbg[name]
        sf[(kind[2] + 1) * 1000 + kind[3]] = v
    need = ["frames", "destination_identity_msg", "conn_iface", "router_mandatory_opt", "__self"]
    h.check(all(n in dbg and dbg[n][0] == "field" for n in need), "c02.router.setup-debug-places", str({n: dbg.get(n) for n in need}))
    put("__self", sock)
    put("frames", fb.load())
    put("destination_identity_msg", ident)
    put("conn_iface", BoxV(Cell(Agg("{peer}", [0]), "peer"), (), "{peer}"))
    put("router_mandatory_opt", True)
    coro = Ref(Cell(Agg("{coroutine@router-send_multipart}", sf), "coro"), ())
    # entry: the block that calls prepare_wire_frames; its strategy operand is computed by the block before it
    entry, strat_local = None, None
    for bb, raw in body.blocks.items():
        term = raw[-1][0]
        if "RouterSendStrategy>::prepare_wire_frames(" in term:
            entry = bb
            import re as _re
            strat_local = int(_re.search(r"prepare_wire_frames\((?:copy|move) _(\d+)", term).group(1))
    h.check(entry is not None and strat_local is not None, "c02.router.setup-entry-block")
    sent = {}
    def conn_send(it, args, dty, func):
        sent["frames"] = args[1]
        raise _Stop()
    h.it.hooks["<dyn socket::connection_iface::ISocketConnection as socket::connection_iface::ISocketConnection>::send_multipart"] = conn_send
    strategy = BoxV(Cell(Agg("socket::patterns::router::strategies::" + strat, []), "strategy"), (), "socket::patterns::router::strategies::" + strat)
    h.panic_role = "c02.router-send"
    coro_local = dbg["frames"][1]
    try:
        h.it.run_body(body, [], start_bb=entry, preset={coro_local: coro, strat_local: strategy, 2: Opaque("cx")})
    except _Stop:
        pass
    h.check("frames" in sent, "c02.router.setup-region-reached-the-connection")
    if "frames" not in sent:
        return
    from .d_c07 import _frames
    wire = _frames(sent["frames"])
    n = len(wire)
    h.check(n >= k, "c02.router.payload-frames-missing-on-the-wire", f"{k} payload frames, {n} wire frames")
    flags = [bool(_flag(m, 1)) for m in wire]
    ok_ = all(flags[:-1]) and not flags[-1] if n else True
    h.check(ok_, "c02.router.send_multipart-payload-split-into-several-messages",
            f"peer strategy {strat}: application passed {k} payload frame(s) with MORE flags {app_more}; the {n} frames handed to the connection carry MORE = {flags} "
            f"(a frame without MORE before the last one ends the message early)")
    h.cover("c02.router.multi-frame-payload", k >= 2)
    h.cover("c02.router.flags-not-preset", k >= 2 and not all(app_more[:-1]))


def replay_router_send_multipart_flags(model, params, role):
    if "split-into-several-messages" in role:
        return "router_multipart_flags\n", (lambda out: "SPLIT" in out), \
            "ROUTER.send_multipart([id, \"a\", \"b\"]) without MORE flags to a DEALER over tcp; expecting the payload to arrive as more than one message"
    return None


def send_multipart_flags(h):
    """{PushSocket, PubSocket, DealerSocket}::send_multipart (coroutine MIR) with 1..3 frames whose MORE flags are
    arbitrary: what is handed on (to the routing / fan-out / DEALER send path, which are hooks that record it) must be
    the same frames in order, for DEALER behind the empty delimiter, with MORE on every frame but the last."""
    from .d_c09 import Fut, _lock
    from .d_c07 import _frames, _flag
    from ..models import some, none, ok, err, dur_ns, _deref, MapV
    prog = h.it.prog
    kind = h.choose(3, "socket_type")               # 0 PUSH, 1 PUB, 2 DEALER
    n = 1 + h.choose(3, "frames")
    fb = Ref(Cell(h.method("message::FrameBatch", "new"), "fb"), ())
    for i in range(n):
        h.method("message::FrameBatch", "push", fb, _mk_msg(h, 0x60 + i, h.choose(2, f"more{i}") == 1))
    h.it.hooks["socket::core::SocketCore::is_running"] = lambda it2, a, d, f: True
    cf = prog.struct_fields("socket::core::SocketCore")
    core_vals = [Opaque(f) for f in cf]
    csf = prog.struct_fields("socket::core::state::CoreState")
    cs_vals = [Opaque(f) for f in csf]
    of = prog.struct_fields("socket::options::SocketOptions")
    o_vals = [Opaque(f) for f in of]
    o_vals[of.index("sndtimeo")] = none()
    o_vals[of.index("sndhwm")] = 4
    options = Agg("socket::options::SocketOptions", o_vals)
    cs_vals[csf.index("options")] = BoxV(Cell(options, "options"), ())
    core_vals[cf.index("core_state")] = _lock(Agg("socket::core::state::CoreState", cs_vals))
    core_vals[cf.index("handle")] = 1
    core = BoxV(Cell(Agg("socket::core::SocketCore", core_vals), "core"), ())
    handed = []
    def capture(idx):
        def hook(it, args, dty, func):
            handed.append(args[idx])
            return Agg("{future}", ["downstream"])
        return hook
    def extern(it, plain, args, dty, func):
        if plain.endswith("Future>::poll"):
            fut = _deref(args[0])
            while isinstance(fut, BoxV):
                fut = _deref(fut.load())
            if isinstance(fut, Agg) and fut.ty == "{future}":
                return Enum("std::task::Poll", 0, "Ready", [ok(UNIT)])
            return NotImplemented
        if plain in ("tokio::time::Instant::now", "std::time::Instant::now"):
            from ..models import instant_ns
            return instant_ns(1000)
        if "ArcSwap" in plain and plain.endswith("::load"):
            return Ref(Cell(BoxV(Cell(options, "options"), ()), "guard"), ())
        if plain.endswith("IntoFuture>::into_future") or plain.startswith("std::pin::Pin::"):
            return args[0]
        return NotImplemented
    h.it.extern = extern
    h.panic_role = "c02.send-multipart"
    delimiter = False
    if kind == 0:
        TY = "socket::push_socket::PushSocket"
        h.it.hooks[prog.resolve_method("", TY, "send_with_timeout", None)] = capture(1)
        vals = {"core": core, "cached_options": Agg("{arcswap}", [BoxV(Cell(options, "options"), ())])}
    elif kind == 1:
        TY = "socket::pub_socket::PubSocket"
        h.it.hooks[prog.resolve_method("", "socket::patterns::distributor::Distributor", "send_to_all_multipart", None)] = capture(1)
        vals = {"core": core}
    else:
        TY = "socket::dealer_socket::DealerSocket"
        h.it.hooks[prog.resolve_method("", TY, "send_logical_message", None)] = capture(1)
        idle = Enum("socket::dealer_socket::DealerSendTransaction", 0, "Idle", [])
        from ..interp import FnItem
        framing = h.method("socket::patterns::framing::FramingLatch", "new",
                           FnItem("socket::patterns::framing::dealer_auto_encode"), FnItem("socket::patterns::framing::dealer_auto_decode"))
        vals = {"core": core, "current_send_transaction": Agg("{amutex}", [False, idle]), "framing": framing}
        delimiter = True
    fields = prog.struct_fields(TY)
    sock = Ref(Cell(Agg(TY, [vals.get(f, Opaque(f)) for f in fields]), "sock"), ())
    f = Fut(h, TY, "send_multipart", [sock, fb.load()], trait="ISocket")
    r = f.poll()
    h.check(r is not None and r.idx == 0, "c02.send-multipart.call-did-not-complete", "pending" if r is None else repr(r)[:100])
    if r is None or r.idx != 0:
        return
    h.check(len(handed) == 1, "c02.send-multipart.handed-on-in-several-pieces", str(len(handed)))
    if len(handed) != 1:
        return
    out = _frames(handed[0])
    tags = [_tag(m) for m in out]
    fl = [bool(_flag(m, 1)) for m in out]
    want = ([None] if delimiter else []) + [0x60 + i for i in range(n)]
    name = ["PUSH", "PUB", "DEALER"][kind]
    h.check(tags == want, "c02.send-multipart.frames-differ", f"{name}: handed on {tags}, expected {want}")
    h.check(fl == [True] * (len(out) - 1) + [False], "c02.send-multipart.more-flags-wrong", f"{name}: MORE flags {fl} for {len(out)} frame(s)")
    h.cover("c02.send-multipart." + name.lower())
