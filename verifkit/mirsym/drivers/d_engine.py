"""engine-level drivers"""
import z3
from ..values import *
from .common import *


def concrete_null_handshake(h):
    """validation vector: the repo's own lock-step v3 NULL handshake (engine.rs tests::drive)"""
    c = mk_engine(h, False, mk_config(h, socket_type_name=string("PUSH")))
    s = mk_engine(h, True, mk_config(h, socket_type_name=string("PULL")))
    to_s = sends(start(h, c))
    to_c = sends(start(h, s))
    capp, sapp = [], []
    for _ in range(16):
        if to_c:
            d, to_c = to_c, []
            o = feed(h, c, d)
            to_s += sends(o)
            capp += app_actions(o)
        if to_s:
            d, to_s = to_s, []
            o = feed(h, s, d)
            to_c += sends(o)
            sapp += app_actions(o)
        if phase(h, c) == "Data" and phase(h, s) == "Data" and not to_c and not to_s:
            break
    h.check(phase(h, c) == "Data" and phase(h, s) == "Data", "validation.null-handshake-reaches-data")
    h.check(any(a.vname == "HandshakeComplete" for a in capp) and any(a.vname == "HandshakeComplete" for a in sapp), "validation.handshake-complete")
    h.cover("null handshake done")
    h.result = (capp, sapp)
