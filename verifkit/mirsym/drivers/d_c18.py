"""C18 (structural part): what an endpoint emits on an encrypted link must be decodable by its peer's
record layer, or be refused at the sender. The cipher is abstract (tag ‖ plaintext, 16-byte tag):
secrecy and tamper detection are NOT what is checked here."""
import z3
from ..values import *
from ..models import ok, err, conj
from .common import *
from .d_c07 import greeting_v3, ready_frame, _frames

LPF = "security::framer::LengthPrefixedFramer"
TAG = 16


def _abstract_cipher(h):
    """hooks for <dyn IDataCipher>::{encrypt,decrypt}: ciphertext = 16 tag bytes ‖ plaintext"""
    def enc(it, args, dty, func):
        p = args[1].items() if isinstance(args[1], SliceRef) else args[1].load().f
        return ok(Seq("vec", [0xEE] * TAG + list(p)))
    def dec(it, args, dty, func):
        c = args[1].items() if isinstance(args[1], SliceRef) else args[1].load().f
        if len(c) < TAG:
            return err(Enum("error::ZmqError", 0, "InvalidMessage", [Seq("string", [])]))
        return ok(Seq("vec", list(c[TAG:])))
    h.it.hooks["<dyn security::cipher::IDataCipher as security::cipher::IDataCipher>::encrypt"] = enc
    h.it.hooks["<dyn security::cipher::IDataCipher as security::cipher::IDataCipher>::decrypt"] = dec


def _framer(h):
    cipher = BoxV(Cell(Agg("{abstract-cipher}", []), "cipher"), (), "{abstract-cipher}")
    f = h.method(LPF, "new", cipher, mask(-1, 64), 4, 1024)
    return Ref(Cell(f, "framer"), ())


def _msg_of_len(h, n, more=False):
    m = h.method("message::msg::Msg", "from_vec", Seq("vec", [0x5A] * n))
    if more:
        r = Ref(Cell(m, "m"), ())
        fl = h.it.run_body(h.it.prog.body(h.it.resolve_fn("message::flags::_::<impl message::flags::MsgFlags>::from_bits_retain", "")), [1])
        h.method("message::msg::Msg", "set_flags", r, fl)
        m = r.load()
    return m


def record_length_prefix(h):
    """one message of L payload bytes through write_msg_multipart, then the peer's try_read_msg"""
    lens = h.params.get("lens", [0, 1, 255, 256, 65000, 65508, 65509, 65510, 65520, 70000])
    L = lens[h.choose(len(lens), "payload_len")]
    _abstract_cipher(h)
    tx, rx = _framer(h), _framer(h)
    fb = Ref(Cell(h.method("message::FrameBatch", "new"), "fb"), ())
    h.method("message::FrameBatch", "push", fb, _msg_of_len(h, L))
    h.panic_role = "c18.record"
    r = h.method(LPF, "write_msg_multipart", tx, fb.load(), trait="ISecureFramer")
    if r.idx == 1:
        h.cover("c18.record.refused-at-sender")
        return
    wire = list(r.f[0].f)
    acc = Ref(Cell(Seq("bytesmut", wire), "acc"), ())
    got = h.method(LPF, "try_read_msg", rx, acc, trait="ISecureFramer")
    ok_ = got.idx == 0 and got.f[0].idx == 1
    h.check(ok_, "c18.record.peer-cannot-decode-what-was-sent", f"payload of {L} bytes: sender returned Ok, the peer's record layer did not produce the frame (residue {len(acc.load().f)} bytes)")
    if ok_:
        m = got.f[0].f[0]
        d = m.f[0]
        n = len(d.f[0].f) if d.idx == 1 else 0
        h.check(n == L, "c18.record.payload-length-changed", f"sent {L} bytes, peer decoded {n}")
        h.check(not acc.load().f, "c18.record.residue-left")
        h.cover("c18.record.roundtrip")
        h.cover("c18.record.roundtrip-long", L >= 65000)


BATCH_PLAINTEXT = [22, 600, 65000, 65519, 65520, 65521, 65527, 65535, 65536, 70000]


def record_batch_paths(h):
    """two messages in ONE record through write_msg_batch / frame_vectored (the session's batch egress paths);
    plaintext totals straddle the 16-bit record limit minus the 16-byte tag"""
    tots = h.params.get("plaintext_totals", BATCH_PLAINTEXT)
    P = tots[h.choose(len(tots), "plaintext_total")]
    path = h.choose(2, "path")                     # 0 write_msg_batch, 1 frame_vectored
    # two frames; header is 2 bytes for payloads <= 255 and 9 bytes above
    def split(P):
        for h1 in (2, 9):
            for h2 in (2, 9):
                rest = P - h1 - h2
                a = rest // 2
                b = rest - a
                if rest >= 0 and (h1 == 2) == (a <= 255) and (h2 == 2) == (b <= 255):
                    return a, b
        raise AssertionError(P)
    L1, L2 = split(P)
    _abstract_cipher(h)
    tx, rx = _framer(h), _framer(h)
    fbs = []
    for L in (L1, L2):
        fb = Ref(Cell(h.method("message::FrameBatch", "new"), "fb"), ())
        h.method("message::FrameBatch", "push", fb, _msg_of_len(h, L))
        fbs.append(fb.load())
    batch = SliceRef(Seq("vec", fbs, "message::FrameBatch"), 0, 2)
    h.panic_role = "c18.batch"
    if path == 0:
        r = h.method(LPF, "write_msg_batch", tx, batch, trait="ISecureFramer")
        if r.idx == 1:
            h.cover("c18.batch.refused-at-sender")
            return
        wire = list(r.f[0].f)
    else:
        fv = h.it.prog.resolve_method("", LPF, "frame_vectored", "ISecureFramer")     # an override, if the framer has one
        r = h.call(fv, tx, batch) if fv else h.call("security::framer::ISecureFramer::frame_vectored", tx, batch)
        if r.idx == 1:
            h.cover("c18.batch.refused-at-sender")
            return
        wire = [b for chunk in r.f[0].f for b in chunk.f]
    acc = Ref(Cell(Seq("bytesmut", wire), "acc"), ())
    for k, L in enumerate((L1, L2)):
        got = h.method(LPF, "try_read_msg", rx, acc, trait="ISecureFramer")
        ok_ = got.idx == 0 and got.f[0].idx == 1
        h.check(ok_, "c18.batch.peer-cannot-decode-what-was-sent",
                f"batch of {L1}+{L2} payload bytes ({P} plaintext bytes, {P + TAG} ciphertext bytes): sender returned Ok, the peer's record layer did not produce message {k}")
        if not ok_:
            return
        m = got.f[0].f[0]
        d = m.f[0]
        n = len(d.f[0].f) if d.idx == 1 else 0
        h.check(n == L, "c18.batch.payload-length-changed", f"sent {L} bytes, peer decoded {n}")
    h.check(not acc.load().f, "c18.batch.residue-left")
    h.cover("c18.batch.roundtrip")
    h.cover("c18.batch.roundtrip-long", P >= 65000)


def replay_record_batch_paths(model, params, role):
    d = dict(map(tuple, model.get("_choices", [])))
    tots = params.get("plaintext_totals", BATCH_PLAINTEXT)
    P = tots[d.get("plaintext_total", 0)]
    path = d.get("path", 0)
    return f"record_batch {P} {path}\n", (lambda out: "NOT decoded" in out or "decode error" in out), \
        f"record layer with a 16-byte-tag cipher, two messages totalling {P} plaintext bytes in one record through {'frame_vectored' if path else 'write_msg_batch'}; expecting the peer to fail to decode them"


def heartbeat_through_record_layer(h):
    """engine in the Data phase whose active framer is the encrypted record layer: the PING emitted by
    on_tick and the PONG emitted for an inbound PING must be readable by the peer's record layer"""
    from ..models import dur_ns, instant_ns, some
    _abstract_cipher(h)
    cfg = mk_config(h, socket_type_name=string("PULL"), heartbeat_ivl=some(dur_ns(1_000_000)), heartbeat_timeout=some(dur_ns(5_000_000)))
    eng = mk_engine(h, True, cfg)
    start(h, eng)
    feed(h, eng, greeting_v3(b"NULL", 0) + ready_frame(b"PUSH"))
    h.check(phase(h, eng) == "Data", "c18.setup.data-phase")
    # install the encrypted framer as the mechanism would have done (into_framer) for CURVE/NOISE
    fields = h.it.prog.struct_fields(ENGINE)
    eng.load().f[fields.index("framer")] = BoxV(Cell(_framer(h).load(), "framer"), (), LPF)
    peer = _framer(h)
    h.panic_role = "c18.heartbeat"
    which = h.choose(2, "ping_or_pong")
    if which == 0:
        from .d_c19 import _now
        t = _now(h)
        last = efield(h, eng, "last_activity_time").f[0]
        h.assume(z3.UGE(t - bv(last, 128), z3.BitVecVal(1_000_000, 128)))      # HEARTBEAT_IVL has elapsed
        out = h.method(ENGINE, "on_tick", eng, instant_ns(t))
        label = "PING"
    else:
        # inbound PING arrives as an encrypted record
        body = list(b"\x04PING\x00\x00") + [0x41, 0x42]
        fb = Ref(Cell(h.method("message::FrameBatch", "new"), "fb"), ())
        m = h.method("message::msg::Msg", "from_vec", Seq("vec", body))
        r = Ref(Cell(m, "m"), ())
        fl = h.it.run_body(h.it.prog.body(h.it.resolve_fn("message::flags::_::<impl message::flags::MsgFlags>::from_bits_retain", "")), [2])
        h.method("message::msg::Msg", "set_flags", r, fl)
        h.method("message::FrameBatch", "push", fb, r.load())
        wire_in = h.method(LPF, "write_msg_multipart", _framer(h), fb.load(), trait="ISecureFramer")
        out = feed(h, eng, list(wire_in.f[0].f))
        label = "PONG"
    snd = sends(out)
    h.check(bool(snd), f"c18.heartbeat.no-{label}-emitted")
    acc = Ref(Cell(Seq("bytesmut", list(snd)), "acc"), ())
    got = h.method(LPF, "try_read_msg", peer, acc, trait="ISecureFramer")
    ok_ = got.idx == 0 and got.f[0].idx == 1
    h.check(ok_, "c18.heartbeat.not-decodable-by-the-peers-record-layer",
            f"{label} emitted in the Data phase of an encrypted session is {len(snd)} plain bytes; the peer's record layer cannot read it")
    if ok_:
        m = got.f[0].f[0]
        data = list(m.f[0].f[0].f) if m.f[0].idx == 1 else []
        h.check(data[:5] == list(("\x04" + label).encode()), "c18.heartbeat.decoded-to-something-else")
        h.cover("c18.heartbeat.roundtrip")


def replay_record_length_prefix(model, params, role):
    d = dict(map(tuple, model.get("_choices", [])))
    lens = params.get("lens", [0, 1, 255, 256, 65000, 65508, 65509, 65510, 65520, 70000])
    L = lens[d.get("payload_len", 0)]
    return f"record_len {L}\n", (lambda out: "NOT decoded" in out or "decode error" in out or (f"decoded {L} bytes residue 0" not in out and "refused" not in out)), \
        f"record layer with a 16-byte-tag cipher, message of {L} bytes; expecting the peer to fail to decode it"


def replay_heartbeat_through_record_layer(model, params, role):
    def pred(out):
        l = [x for x in out.splitlines() if x.startswith("noise client reaction")]
        return bool(l) and "sends=0" in l[0]
    return "noise_heartbeat\n", pred, "two real engines after a NOISE_XX handshake, server ticks; expecting the client not to answer the PING (it cannot read it)"
