"""C13 — LoadBalancer rotation ≡ identity-based round-robin reference for all short histories."""
import z3
from ..values import *
from .common import *

LB = "socket::patterns::load_balancer::LoadBalancer"
URIS = ["a", "b", "c"]


def history(h):
    k = h.params.get("ops", 3)
    lb = Ref(Cell(h.method(LB, "new"), "lb"), ())
    h.panic_role = "c13.lb"
    members = []         # reference: current peers in insertion order
    expected = None      # identity of the peer the next message must go to
    # reach an arbitrary rotation state first: n peers, cursor advanced j times (through the real code)
    n0 = h.choose(len(URIS) + 1, "initial_peers")
    j0 = h.choose(n0 + 1, "initial_nexts")
    script = [(0, u) for u in URIS[:n0]] + [(2, None)] * j0
    for i in range(len(script) + k):
        if i < len(script):
            op, forced_uri = script[i]
        else:
            op, forced_uri = h.choose(3, f"op{i}"), None
        if op == 0:
            u = forced_uri or URIS[h.choose(len(URIS), f"uri{i}")]
            h.method(LB, "add_connection", lb, string(u), BoxV(Cell(Opaque("iface"), "iface"), (), "socket::connection_iface::DummyConnection"))
            if u not in members:
                members.append(u)
                if expected is None:
                    expected = u
        elif op == 1:
            u = URIS[h.choose(len(URIS), f"uri{i}")]
            sl = string(u)
            h.method(LB, "remove_connection", lb, SliceRef(Ref(Cell(sl, "uri"), ()), 0, len(sl.f), True))
            if u in members:
                j = members.index(u)
                if expected == u:
                    expected = members[(j + 1) % len(members)] if len(members) > 1 else None
                members.remove(u)
        else:
            r = h.method(LB, "get_next_connection", lb)
            if not members:
                h.check(r.idx == 0, "c13.next-on-empty-returned-peer")
                continue
            h.check(r.idx == 1, "c13.next-returned-none-with-peers")
            if r.idx == 1:
                peer = r.f[0].load()
                got = bytes(peer.f[0].f).decode()
                h.check(got == expected, "c13.rotation-order",
                        f"message went to peer {got!r}, round-robin expected {expected!r} (peers {members})")
                j = members.index(got) if got in members else 0
                expected = members[(j + 1) % len(members)]
                h.cover("c13.rotation")
        cnt = h.method(LB, "connection_count", lb)
        h.check(cnt == len(members), "c13.connection-count")
        h.check(h.method(LB, "has_connections", lb) == bool(members), "c13.has-connections")


def replay_history(model, params, role):
    ch = model.get("_choices", [])
    d = dict(map(tuple, ch))
    k = params.get("ops", 3)
    n0, j0 = d.get("initial_peers", 0), d.get("initial_nexts", 0)
    script = [(0, u) for u in URIS[:n0]] + [(2, None)] * j0
    lines, members, expected, want = ["lb_new"], [], None, []
    for i in range(len(script) + k):
        if i < len(script):
            op, u = script[i]
        else:
            if f"op{i}" not in d:
                break
            op, u = d[f"op{i}"], None
        if op == 0:
            u = u or URIS[d.get(f"uri{i}", 0)]
            lines.append(f"lb_add {u}")
            if u not in members:
                members.append(u)
                expected = expected or u
        elif op == 1:
            u = URIS[d.get(f"uri{i}", 0)]
            lines.append(f"lb_remove {u}")
            if u in members:
                j = members.index(u)
                if expected == u:
                    expected = members[(j + 1) % len(members)] if len(members) > 1 else None
                members.remove(u)
        else:
            lines.append("lb_next")
            want.append(expected if members else "none")
            if members:
                j = members.index(expected)
                expected = members[(j + 1) % len(members)]
    def pred(out):
        got = [l.split()[1] for l in out.splitlines() if l.startswith("next ")]
        return got != want
    return "\n".join(lines) + "\n", pred, f"history replayed natively; round-robin reference expects {want}"


# ------------------------------------------------------------------------------------------------
# route_message / try_route_sync: the readiness sweep

ORCH = "socket::patterns::outgoing_orchestrator::OutgoingMessageOrchestrator"
DYN = "<dyn socket::connection_iface::ISocketConnection as socket::connection_iface::ISocketConnection>::"


def _peer_of(v):
    from ..models import _deref
    v = _deref(v)
    while isinstance(v, BoxV):
        v = _deref(v.load())
    return v.f[0]


def route_sweep(h):
    """OutgoingMessageOrchestrator::{try_route_sync, route_message} over 1..3 scripted peers whose readiness
    (room in the peer's queue) is a symbolic boolean per peer and per epoch.
    epoch 1 = the call's first poll; if the call parks in a blocking send, readiness changes (epoch 2) and the
    call is polled again."""
    from ..models import ok, err
    maxp = h.params.get("max_peers", 3)
    mode = h.choose(3, "mode")        # 0 try_route_sync; 1 route_message(wait_for_peer=false); 2 route_message(true), peers connect during the wait
    n = 1 + h.choose(maxp, "peers")
    j0 = h.choose(n, "cursor") if mode != 2 else 0
    room = [[h.boolvar(f"room{e}_{i}") for i in range(n)] for e in (1, 2)]
    ev = h.it.prog.enum_variants("error::ZmqError")
    full = lambda: Enum("error::ZmqError", ev.index("ResourceLimitReached"), "ResourceLimitReached", [])
    lb = Ref(Cell(h.method(LB, "new"), "lb"), ())
    def add_all():
        for i in range(n):
            h.method(LB, "add_connection", lb, string(URIS[i]), BoxV(Cell(Agg("{peer}", [i]), f"peer{i}"), (), "{peer}"))
    if mode != 2:
        add_all()
        for _ in range(j0):
            h.method(LB, "get_next_connection", lb)
    orch = Ref(Cell(Agg(ORCH, [lb.load()]), "orch"), ())
    st = {"epoch": 0, "tried": [], "taken": {}, "delivered": [], "blocked_on": None, "waited": 0}
    def try_send(it, args, dty, func):
        i = _peer_of(args[0])
        st["tried"].append(i)
        if it.ctx.branch(room[st["epoch"]][i]):
            st["taken"][i] = True
            st["delivered"].append(("try", i))
            return ok(UNIT)
        st["taken"][i] = False
        return err(Agg("tuple", [args[1], full()]))
    def blocking_send(it, args, dty, func):
        return Agg("{future}", ["send", _peer_of(args[0]), args[1]])
    def wait_conn(it, args, dty, func):
        return Agg("{future}", ["wait", None, None])
    h.it.hooks[DYN + "try_send_multipart_owned_sync"] = try_send
    h.it.hooks[DYN + "send_multipart_owned"] = blocking_send
    h.it.hooks[LB + "::wait_for_connection"] = wait_conn
    def extern(it, plain, args, dty, func):
        if plain.endswith("Future>::poll"):
            from ..models import _deref
            fut = _deref(args[0])
            while isinstance(fut, BoxV):
                fut = _deref(fut.load())
            if isinstance(fut, Agg) and fut.ty == "{future}":
                kind, i, _ = fut.f
                if kind == "wait":
                    st["waited"] += 1
                    add_all()                      # all n peers connect before the sender resumes
                    return Enum("std::task::Poll", 0, "Ready", [ok(UNIT)])
                st["blocked_on"] = i
                if it.ctx.branch(room[st["epoch"]][i]):
                    st["delivered"].append(("blocking", i))
                    return Enum("std::task::Poll", 0, "Ready", [ok(UNIT)])
                return Enum("std::task::Poll", 1, "Pending", [])
            return NotImplemented
        if plain.endswith("IntoFuture>::into_future") or plain.startswith("std::pin::Pin::"):
            return args[0]
        return NotImplemented
    h.it.extern = extern
    h.panic_role = "c13.route"
    msgs = h.method("message::FrameBatch", "new")
    if mode == 0:
        r = h.method(ORCH, "try_route_sync", orch, msgs)
        pending = False
    else:
        fn = h.it.prog.resolve_method("", ORCH, "route_message", None)
        coro = Ref(Cell(h.it.run_body(h.it.prog.body(fn), [orch, msgs, mode == 2]), "coro"), ())
        p = h.it.run_body(h.it.prog.body(fn + "::{closure#0}"), [coro, Opaque("cx")])
        pending = p.vname == "Pending"
        r = None if pending else p.f[0]
    order = [(j0 + k) % n for k in range(n)]
    tried = st["tried"]
    # (a) the sweep visits the peers in rotation order, each at most once
    h.check(tried == order[:len(tried)], "c13.route.sweep-order", f"peers tried {tried}, rotation order {order}")
    # (b) exactly one delivery, or none
    h.check(len(st["delivered"]) <= 1, "c13.route.message-sent-twice", str(st["delivered"]))
    # (c) the call may park on a full peer b, or report 'no room', only if no other peer has room at that time.
    #     Peers already tried were full on this path; the untried ones are unconstrained symbolic booleans.
    untried = [i for i in range(n) if i not in tried]
    b = st["blocked_on"]
    if b is not None and pending:
        oth = [bl(room[0][i]) for i in untried if i != b]
        h.check(z3.Not(z3.Or(oth)) if oth else True, "c13.route.parks-on-a-full-peer-although-an-untried-peer-has-room",
                f"mode {mode}, {n} peers, rotation {order}: tried only {tried}, then parked on peer {b} (full) while an untried peer has room")
    if r is not None and r.idx == 1:
        oth = [bl(room[0][i]) for i in untried]
        h.check(z3.Not(z3.Or(oth)) if oth else True, "c13.route.reports-no-room-although-an-untried-peer-has-room",
                f"mode {mode}, {n} peers, rotation {order}: tried only {tried}, then returned an error")
    if r is not None and r.idx == 0:
        h.check(len(st["delivered"]) == 1, "c13.route.ok-without-delivery")
        h.cover("c13.route.delivered-on-fast-path", st["delivered"] and st["delivered"][0][0] == "try")
        h.cover("c13.route.skipped-a-full-peer", st["delivered"] and st["delivered"][0][0] == "try" and len(tried) > 1)
    if mode == 2:
        h.check(st["waited"] == 1, "c13.route.wait-for-peer-count")
        h.cover("c13.route.waited-for-first-peer")
    if r is not None and r.idx == 1:
        h.cover("c13.route.refused-when-all-full")
    if not pending:
        return
    # ---- epoch 2: the call is parked in a blocking send on peer b (which is full); readiness changes
    h.cover("c13.route.parked-on-a-full-peer")
    b = st["blocked_on"]
    st["epoch"] = 1
    st["tried"], st["taken"] = [], {}
    p = h.it.run_body(h.it.prog.body(fn + "::{closure#0}"), [coro, Opaque("cx")])
    others = [room[1][i] for i in range(n) if i != b]
    if p.vname == "Pending" and others:
        # still parked on b (b is still full on this path): no OTHER peer may have room now
        h.check(z3.Not(z3.Or([bl(o) for o in others])), "c13.route.parked-on-a-full-peer-while-another-peer-has-room",
                f"{n} peers, all full during the sweep; the send parks on peer {b}; later another peer has room and peer {b} is still full: the send stays parked on {b}")
    if p.vname == "Ready":
        h.check(len(st["delivered"]) == 1, "c13.route.epoch2-delivery-count")
        h.cover("c13.route.resumed-after-park")


def replay_route_sweep(model, params, role):
    ch = dict(map(tuple, model.get("_choices", [])))
    mode, n, j0 = ch.get("mode", 0), 1 + ch.get("peers", 0), ch.get("cursor", 0)
    def rooms(e):
        return "".join("1" if model.get(f"room{e}_{i}") in (True, 1, "True", "true") else "0" for i in range(n))
    script = f"route_sweep {mode} {n} {j0} {rooms(1)} {rooms(2)}\n"
    if "parked-on-a-full-peer-while" in role:
        return script, (lambda out: "PARKED while another peer has room" in out), "orchestrator with scripted peers; expecting the send to stay parked on a full peer while another has room"
    return script, (lambda out: "PARKED while another peer has room" in out or "ERROR while a peer has room" in out), "orchestrator with scripted peers; expecting the send to park or fail although a peer has room"
