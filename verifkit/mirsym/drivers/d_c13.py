"""C13 — LoadBalancer rotation ≡ identity-based round-robin reference for all short histories."""
import z3
from ..values import *
from .common import *

LB = "socket::patterns::load_balancer::LoadBalancer"
URIS = ["a", "b", "c"]


def history(h):
    k = h.params.get("ops", 3)
    lb = Ref(Cell(h.method(LB, "new"), "lb"), ())
    h.panic_role = "c13.lb"
    members = []         # reference: current peers in insertion order
    expected = None      # identity of the peer the next message must go to
    # reach an arbitrary rotation state first: n peers, cursor advanced j times (through the real code)
    n0 = h.choose(len(URIS) + 1, "initial_peers")
    j0 = h.choose(n0 + 1, "initial_nexts")
    script = [(0, u) for u in URIS[:n0]] + [(2, None)] * j0
    for i in range(len(script) + k):
        if i < len(script):
            op, forced_uri = script[i]
        else:
            op, forced_uri = h.choose(3, f"op{i}"), None
        if op == 0:
            u = forced_uri or URIS[h.choose(len(URIS), f"uri{i}")]
            h.method(LB, "add_connection", lb, string(u), BoxV(Cell(Opaque("iface"), "iface"), (), "socket::connection_iface::DummyConnection"))
            if u not in members:
                members.append(u)
                if expected is None:
                    expected = u
        elif op == 1:
            u = URIS[h.choose(len(URIS), f"uri{i}")]
            sl = string(u)
            h.method(LB, "remove_connection", lb, SliceRef(Ref(Cell(sl, "uri"), ()), 0, len(sl.f), True))
            if u in members:
                j = members.index(u)
                if expected == u:
                    expected = members[(j + 1) % len(members)] if len(members) > 1 else None
                members.remove(u)
        else:
            r = h.method(LB, "get_next_connection", lb)
            if not members:
                h.check(r.idx == 0, "c13.next-on-empty-returned-peer")
                continue
            h.check(r.idx == 1, "c13.next-returned-none-with-peers")
            if r.idx == 1:
                peer = r.f[0].load()
                got = bytes(peer.f[0].f).decode()
                h.check(got == expected, "c13.rotation-order",
                        f"message went to peer {got!r}, round-robin expected {expected!r} (peers {members})")
                j = members.index(got) if got in members else 0
                expected = members[(j + 1) % len(members)]
                h.cover("c13.rotation")
        cnt = h.method(LB, "connection_count", lb)
        h.check(cnt == len(members), "c13.connection-count")
        h.check(h.method(LB, "has_connections", lb) == bool(members), "c13.has-connections")


def replay_history(model, params, role):
    ch = model.get("_choices", [])
    d = dict(map(tuple, ch))
    k = params.get("ops", 3)
    n0, j0 = d.get("initial_peers", 0), d.get("initial_nexts", 0)
    script = [(0, u) for u in URIS[:n0]] + [(2, None)] * j0
    lines, members, expected, want = ["lb_new"], [], None, []
    for i in range(len(script) + k):
        if i < len(script):
            op, u = script[i]
        else:
            if f"op{i}" not in d:
                break
            op, u = d[f"op{i}"], None
        if op == 0:
            u = u or URIS[d.get(f"uri{i}", 0)]
            lines.append(f"lb_add {u}")
            if u not in members:
                members.append(u)
                expected = expected or u
        elif op == 1:
            u = URIS[d.get(f"uri{i}", 0)]
            lines.append(f"lb_remove {u}")
            if u in members:
                j = members.index(u)
                if expected == u:
                    expected = members[(j + 1) % len(members)] if len(members) > 1 else None
                members.remove(u)
        else:
            lines.append("lb_next")
            want.append(expected if members else "none")
            if members:
                j = members.index(expected)
                expected = members[(j + 1) % len(members)]
    def pred(out):
        got = [l.split()[1] for l in out.splitlines() if l.startswith("next ")]
        return got != want
    return "\n".join(lines) + "\n", pred, f"history replayed natively; round-robin reference expects {want}"
