"""C11 — envelope framing round trips and RouterMap identity routing (safety part)."""
import z3
from ..values import *
from ..models import conj
from .common import *
from .d_c07 import _frames, _flag

FR = "socket::patterns::framing::"
RM = "socket::patterns::router::RouterMap"


def _msg(h, name, nonempty, flags):
    """Msg { data: Some(Bytes), flags, metadata } built through the real constructors"""
    data = [h.byte(name)] if nonempty else []
    m = h.method("message::msg::Msg", "from_vec", Seq("vec", data))
    r = Ref(Cell(m, "msg"), ())
    fl = h.it.run_body(h.it.prog.body(h.it.resolve_fn("message::flags::_::<impl message::flags::MsgFlags>::from_bits_retain", "")), [flags])
    h.method("message::msg::Msg", "set_flags", r, fl)
    return r.load(), data


def _batch(h, msgs):
    fb = Ref(Cell(h.method("message::FrameBatch", "new"), "fb"), ())
    for m in msgs:
        h.method("message::FrameBatch", "push", fb, m)
    return fb


def _payload(m):
    d = m.f[0]
    return list(d.f[0].f) if d.idx == 1 else []


def _same_frames(h, got, want, role):
    h.check(len(got) == len(want), role + ".frame-count", f"{len(got)} frames instead of {len(want)}")
    for g, (data, flags) in zip(got, want):
        pg = _payload(g)
        h.check(len(pg) == len(data) and conj([bv(a, 8) == bv(b, 8) for a, b in zip(pg, data)]), role + ".payload-changed")
        fg = g.f[1].f[0].f[0]
        h.check(simp(bv(fg, 8) == bv(flags, 8)), role + ".flags-changed")


def envelope_roundtrip(h):
    n = h.choose(4, "payload_frames")
    msgs, want = [], []
    for i in range(n):
        ne = h.choose(2, f"nonempty{i}") == 1
        fl = h.byte(f"flags{i}") & 1
        m, data = _msg(h, f"p{i}", ne, fl)
        msgs.append(m)
        want.append((data, fl))
    h.panic_role = "c11.framing"
    # DEALER -> ROUTER: dealer prepends the delimiter; ROUTER side sees [identity, delimiter, payload...] and strips index 1
    fb = _batch(h, [clone_val(m) for m in msgs])
    h.call(FR + "dealer_auto_encode", fb)
    enc = _frames(fb.load())
    h.check(len(enc) == n + 1 and not _payload(enc[0]), "c11.dealer-encode.delimiter-first")
    h.check(_flag(enc[0], 1) == (n > 0), "c11.dealer-encode.delimiter-more-flag")
    ident, _ = _msg(h, "ident", True, 1)
    fb2 = _batch(h, [ident] + [clone_val(x) for x in enc])
    h.call(FR + "router_auto_decode", fb2)
    dec = _frames(fb2.load())
    _same_frames(h, dec[1:], want, "c11.dealer-to-router")
    # ROUTER -> DEALER: router inserts the delimiter after the identity; the DEALER strips it again
    ident2, idd = _msg(h, "ident2", True, h.byte("identflags") & 1)
    fb3 = _batch(h, [ident2] + [clone_val(m) for m in msgs])
    h.call(FR + "router_auto_encode", fb3)
    enc3 = _frames(fb3.load())
    h.check(len(enc3) == n + 2, "c11.router-encode.frame-count")
    if len(enc3) == n + 2:
        h.check(_flag(enc3[0], 1), "c11.router-encode.identity-without-more")
        h.check(not _payload(enc3[1]), "c11.router-encode.delimiter-not-empty")
        h.check(_flag(enc3[1], 1) == (n > 0), "c11.router-encode.delimiter-more-flag")
        fb4 = _batch(h, [clone_val(x) for x in enc3[1:]])        # the ROUTER strips the identity frame before sending
        h.call(FR + "dealer_auto_decode", fb4)
        _same_frames(h, _frames(fb4.load()), want, "c11.router-to-dealer")
    h.cover("c11.payload-starting-with-empty-frame", n >= 2 and not want[0][0])


def _poll(h, name, *args):
    fn = h.it.prog.resolve_method("", RM, name, None)
    coro = h.it.run_body(h.it.prog.body(fn), list(args))
    r = h.it.run_body(h.it.prog.body(fn + "::{closure#0}"), [Ref(Cell(coro, "coro"), ()), Opaque("cx")])
    assert isinstance(r, Enum) and r.vname == "Ready", r
    return r.f[0]


IDS = [b"x", b"y"]


def router_map_history(h):
    k = h.params.get("ops", 4)
    rm = Ref(Cell(h.method(RM, "new"), "rm"), ())
    h.panic_role = "c11.routermap"
    ident = {}          # connected pipe -> latest announced identity
    def uri(p):
        return f"u{p}"
    def sref(s):
        q = string(s)
        return SliceRef(Ref(Cell(q, "s"), ()), 0, len(q.f), True)
    for i in range(k):
        op = h.choose(4, f"op{i}")
        p = h.choose(2, f"pipe{i}")
        idx = h.choose(2, f"id{i}")
        if op == 0:
            _poll(h, "add_peer", rm, blob(IDS[idx]), p, string(uri(p)))
            ident[p] = idx
        elif op == 1:
            if p not in ident:
                continue              # identities are only updated for attached pipes
            _poll(h, "update_peer_identity", rm, p, blob(IDS[idx]), sref(uri(p)), Enum("std::option::Option", 0, "None", []))
            ident[p] = idx
        elif op == 2:
            _poll(h, "remove_peer_by_read_pipe", rm, p)
            ident.pop(p, None)
        else:
            _poll(h, "remove_peer_by_identity", rm, Ref(Cell(blob(IDS[idx]), "id"), ()))
            for q in [q for q, v in ident.items() if v == idx]:
                # the ROUTER forgets this identity; pipes that announced it are detached by the caller
                ident.pop(q)
        # safety: a lookup never yields a connection that did not announce that identity
        for j, idb in enumerate(IDS):
            r = _poll(h, "get_peer_info_for_identity", rm, Ref(Cell(blob(idb), "id"), ()))
            if r.idx == 1:
                u = bytes(r.f[0].f[0].f).decode()
                owners = [uri(q) for q, v in ident.items() if v == j]
                h.check(u in owners, "c11.routermap.identity-routes-to-wrong-connection",
                        f"identity {idb!r} routes to {u} but is announced by {owners}")
                h.cover("c11.routermap.routable")
            else:
                h.cover("c11.routermap.announced-but-unroutable", any(v == j for v in ident.values()))
        for q, v in ident.items():
            r = _poll(h, "get_identity_by_read_pipe", rm, q)
            if r.idx == 1:
                got = bytes(r.f[0].f[0].f)
                h.check(got == IDS[v], "c11.routermap.pipe-labelled-with-wrong-identity", f"pipe {q} labelled {got!r}, announced {IDS[v]!r}")


# ------------------------------------------------------------------------------------------------
# ROUTER identity gate: a message is handed to the application only once the identity of its connection is final
ROUTER = "socket::router_socket::RouterSocket"
AIE2 = "socket::patterns::addressed_ingress::AddressedIngressEngine"
PMS = "socket::patterns::ready_pipe_queue::PipeMessageSender"


def router_identity_gate(h):
    """RouterSocket::recv_logical_finalized in non-blocking mode (RCVTIMEO 0) over the real AddressedIngressEngine:
    histories of {a message of pipe p arrives, the identity of pipe p is finalized (finalize_pipe), recv}.
    A message may be returned only if its pipe is finalized, per-pipe order is the arrival order, and a recv
    reports would-block only if no message of a finalized pipe is waiting."""
    from .d_c09 import Fut
    from ..models import some, none, MapV, dur_ns
    from .d_c02 import _mk_msg, _tag
    from .d_c07 import _frames
    prog = h.it.prog
    k = h.params.get("ops", 4)
    eng = Ref(Cell(h.method(AIE2, "new", max(4, k)), "ingress"), ())
    senders = [Ref(Cell(h.method(AIE2, "register_pipe", eng, p, max(4, k), 1), f"s{p}"), ()) for p in range(2)]
    fields = prog.struct_fields(ROUTER)
    vals = {"ingress_engine": eng.load(), "pipe_finalized": BoxV(Cell(MapV("HashMap", []), "finalized"), ()),
            "held_ingress": Agg("{lock}", [MapV("HashMap", [])]), "held_count": Agg("{atomic}", [0]),
            "identity_finalized_notify": BoxV(Cell(Agg("{notify}", [0, False]), "notify"), ())}
    sock = Ref(Cell(Agg(ROUTER, [vals.get(f, Opaque(f)) for f in fields]), "router"), ())
    h.check(all(f in fields for f in vals), "c11.gate.setup-fields", str([f for f in vals if f not in fields]))
    h.panic_role = "c11.gate"
    arrived = {0: [], 1: []}        # undelivered tags per pipe, in arrival order
    finalized = set()
    nxt = {0: 0x10, 1: 0x20}
    zero = some(dur_ns(0))
    for i in range(k):
        op = h.choose(5, f"op{i}")          # 0/1 message arrives on pipe 0/1; 2/3 finalize pipe 0/1; 4 recv
        if op in (0, 1):
            p = op
            tag = nxt[p]
            nxt[p] += 1
            fb = Ref(Cell(h.method("message::FrameBatch", "new"), "fb"), ())
            h.method("message::FrameBatch", "push", fb, _mk_msg(h, tag, False))
            r = h.method(PMS, "try_send_sync", senders[p], fb.load())
            h.check(r.idx == 0, "c11.gate.setup-enqueue")
            arrived[p].append(tag)
        elif op in (2, 3):
            p = op - 2
            h.method(ROUTER, "finalize_pipe", sock, p)
            finalized.add(p)
        else:
            f = Fut(h, ROUTER, "recv_logical_finalized", [sock, clone_val(zero)])
            r = f.poll()
            h.check(r is not None, "c11.gate.nonblocking-recv-parked")
            if r is None:
                return
            deliverable = [p for p in finalized if arrived[p]]
            if r.idx == 0:
                pid, batch = r.f[0].f[0], r.f[0].f[1]
                tag = _tag(_frames(batch)[0])
                h.check(pid in finalized, "c11.gate.message-delivered-before-the-identity-of-its-connection-was-final",
                        f"recv returned a message of pipe {pid} whose identity is not finalized (finalized: {sorted(finalized)})")
                h.check(bool(arrived.get(pid)) and arrived[pid][0] == tag, "c11.gate.per-connection-order-broken-or-message-duplicated",
                        f"pipe {pid}: returned {hex(tag) if isinstance(tag, int) else tag}, oldest undelivered {[hex(x) for x in arrived.get(pid, [])]}")
                if arrived.get(pid) and arrived[pid][0] == tag:
                    arrived[pid].pop(0)
                h.cover("c11.gate.released-after-finalize")
            else:
                h.check(not deliverable, "c11.gate.message-of-a-finalized-connection-withheld",
                        f"recv reported {r.f[0].vname} although pipe(s) {deliverable} are finalized and have messages waiting {[[hex(x) for x in arrived[p]] for p in deliverable]}")
                h.cover("c11.gate.wouldblock-while-pending", any(arrived[p] for p in (0, 1)))


def router_recv_blocking(h):
    """RouterSocket::recv_logical_finalized in blocking / timed mode (coroutine MIR; the loop around a biased
    tokio::select! over the identity-finalized Notify, the ingress engine's pop and the RCVTIMEO deadline), real
    AddressedIngressEngine, two connections. History of k events from {a message arrives on connection 0/1, the identity
    of connection 0/1 is finalized, the pending call is polled (a call is started if none is pending), the pending call
    is dropped, the clock passes the deadline and the call is polled}. The clock is a sequence of symbolic
    non-decreasing instants read by Instant::now() and by every arming of a timer; sleep_until / sleep record what
    they were armed with.
    Checked: (C11) only messages of finalized connections are returned, per connection in arrival order;
    (C09) after any number of dropped calls every message that arrived is still returned exactly once;
    (C14) the call arms its timer so that it expires RCVTIMEO after the call started - whatever happens in between -
    and no timer at all for RCVTIMEO -1; when the deadline has passed the call returns Timeout (or a message)."""
    from .d_c09 import Fut
    from ..models import some, none, MapV, dur_ns, instant_ns, _deref
    from .d_c02 import _mk_msg, _tag
    from .d_c07 import _frames
    prog = h.it.prog
    k = h.params.get("ops", 4)
    W = 128
    family = h.params.get("family")            # the same exploration is registered under C11, C09 and C14: each reports its own clause
    real_check, real_cover = h.check, h.cover
    def check(cond, role, detail=""):
        if family is None or role.startswith(family) or ".setup-" in role:
            return real_check(cond, role, detail)
        return True
    def cover(role, cond=True):
        if family is None or role.startswith(family):
            return real_cover(role, cond)
    eng = Ref(Cell(h.method(AIE2, "new", max(4, k)), "ingress"), ())
    senders = [Ref(Cell(h.method(AIE2, "register_pipe", eng, p, max(4, k), 1), f"s{p}"), ()) for p in range(2)]
    fields = prog.struct_fields(ROUTER)
    vals = {"ingress_engine": eng.load(), "pipe_finalized": BoxV(Cell(MapV("HashMap", []), "finalized"), ()),
            "held_ingress": Agg("{lock}", [MapV("HashMap", [])]), "held_count": Agg("{atomic}", [0]),
            "identity_finalized_notify": BoxV(Cell(Agg("{notify}", [0, False]), "notify"), ())}
    sock = Ref(Cell(Agg(ROUTER, [vals.get(f, Opaque(f)) for f in fields]), "router"), ())
    check(all(f in fields for f in vals), "c11.gate.setup-fields", str([f for f in vals if f not in fields]))
    timed = h.choose(2, "rcvtimeo_positive") == 1
    d = None
    if timed:
        d = h.bvar("rcvtimeo_ns", W)
        h.assume(z3.And(z3.UGT(d, 0), z3.ULE(d, z3.BitVecVal(2147483647 * 1_000_000, W))))
    clock = {"last": None, "n": 0}
    def tick():
        t = h.bvar(f"t{clock['n']}", W)
        clock["n"] += 1
        h.assume(z3.ULE(t, z3.BitVecVal(1 << 70, W)))
        if clock["last"] is not None:
            h.assume(z3.UGE(t, clock["last"]))
        clock["last"] = t
        return t
    st = {"fire": False, "armed": [], "t_call": None}
    def sleep_until_fn(it, args, dty, func):
        st["armed"].append(("until", bv(_deref(args[0]).f[0], W) if not isinstance(args[0], Agg) else bv(args[0].f[0], W)))
        return Agg("{sleep}", [])
    def sleep_fn(it, args, dty, func):
        now = tick()
        if st["t_call"] is None:
            st["t_call"] = now
        st["armed"].append(("for", simp(now + bv(args[0].f[0], W))))
        return Agg("{sleep}", [])
    h.it.hooks["tokio::time::sleep_until"] = sleep_until_fn
    h.it.hooks["tokio::time::sleep"] = sleep_fn
    def extern(it, plain, args, dty, func):
        if plain.startswith("tokio::time::sleep_until"):
            return sleep_until_fn(it, args, dty, func)
        if plain.startswith("tokio::time::sleep"):
            return sleep_fn(it, args, dty, func)
        if plain in ("tokio::time::Instant::now", "std::time::Instant::now"):
            t = tick()
            if st["t_call"] is None:
                st["t_call"] = t
            return instant_ns(t)
        if plain.startswith("std::future::pending"):
            return Agg("{pending}", [])
        if plain.endswith("Future>::poll"):
            fut = _deref(args[0])
            if isinstance(fut, Agg) and fut.ty == "{sleep}":
                return Enum("std::task::Poll", 0, "Ready", [UNIT]) if st["fire"] else Enum("std::task::Poll", 1, "Pending", [])
            if isinstance(fut, Agg) and fut.ty == "{pending}":
                return Enum("std::task::Poll", 1, "Pending", [])
            return NotImplemented
        if plain.endswith("IntoFuture>::into_future") or plain.startswith("std::pin::Pin::"):
            return args[0]
        return NotImplemented
    h.it.extern = extern
    h.panic_role = "c11.router-recv"
    arrived = {0: [], 1: []}
    finalized = set()
    nxt = {0: 0x10, 1: 0x20}
    fut = None
    dropped = 0
    def start():
        st["armed"], st["t_call"], st["fire"] = [], None, False
        return Fut(h, ROUTER, "recv_logical_finalized", [sock, some(dur_ns(d)) if timed else none()])
    def judge(r):
        """a completed call"""
        if r.idx == 0:
            pid, batch = r.f[0].f[0], r.f[0].f[1]
            tag = _tag(_frames(batch)[0])
            check(pid in finalized, "c11.router-recv.message-delivered-before-the-identity-of-its-connection-was-final", f"pipe {pid}, finalized {sorted(finalized)}")
            check(bool(arrived.get(pid)) and arrived[pid][0] == tag, "c09.router-recv.message-lost-duplicated-or-out-of-order",
                    f"pipe {pid}: returned {hex(tag) if isinstance(tag, int) else tag}, oldest undelivered {[hex(x) for x in arrived.get(pid, [])]} ({dropped} call(s) dropped before)")
            if arrived.get(pid) and arrived[pid][0] == tag:
                arrived[pid].pop(0)
            cover("c11.router-recv.delivered")
    def check_timers():
        if not timed:
            check(not st["armed"], "c14.router-recv.timer-armed-although-rcvtimeo-is-infinite")
            return
        for kind, expiry in st["armed"]:
            check(st["t_call"] is not None and expiry == simp(st["t_call"] + d), "c14.router-recv.timer-does-not-expire-rcvtimeo-after-the-call-started",
                    f"armed by {'sleep_until' if kind == 'until' else 'sleep'}: expiry differs from (start of the call + RCVTIMEO); {len(st['armed'])} arming(s) so far")
    for i in range(k):
        op = h.choose(7, f"op{i}")
        if op in (0, 1):
            p = op
            tag = nxt[p]
            nxt[p] += 1
            fb = Ref(Cell(h.method("message::FrameBatch", "new"), "fb"), ())
            h.method("message::FrameBatch", "push", fb, _mk_msg(h, tag, False))
            check(h.method(PMS, "try_send_sync", senders[p], fb.load()).idx == 0, "c11.gate.setup-enqueue")
            arrived[p].append(tag)
        elif op in (2, 3):
            h.method(ROUTER, "finalize_pipe", sock, op - 2)
            finalized.add(op - 2)
        elif op == 4:
            if fut is None:
                fut = start()
            r = fut.poll()
            check_timers()
            if r is not None:
                judge(r)
                check(r.idx == 0 or not st["fire"] or r.f[0].vname == "Timeout", "c14.router-recv.wrong-error", repr(r)[:80])
                fut = None
            else:
                deliverable = [p for p in finalized if arrived[p]]
                check(not deliverable, "c11.router-recv.parked-although-a-finalized-connection-has-a-message", str(deliverable))
                cover("c11.router-recv.parked")
        elif op == 5:
            if fut is None:
                from ..interp import PathAbort
                raise PathAbort("no pending call to drop")
            fut.cancel()
            fut = None
            dropped += 1
            cover("c09.router-recv.dropped-a-pending-call")
        else:
            if fut is None or not timed or not st["armed"]:
                from ..interp import PathAbort
                raise PathAbort("no armed timer to elapse")
            st["fire"] = True
            r = fut.poll()
            check(r is not None, "c14.router-recv.still-parked-after-the-deadline-passed")
            if r is not None:
                judge(r)
                check(r.idx == 0 or r.f[0].vname == "Timeout", "c14.router-recv.elapsed-call-did-not-fail-with-timeout", repr(r)[:80])
                cover("c14.router-recv.timed-out", r.idx == 1)
            fut = None
    # epilogue: drop what is pending, finalize both connections, read everything without blocking
    if fut is not None:
        fut.cancel()
        dropped += 1
    for p in (0, 1):
        if p not in finalized:
            h.method(ROUTER, "finalize_pipe", sock, p)
            finalized.add(p)
    zero = some(dur_ns(0))
    for _ in range(sum(len(v) for v in arrived.values()) + 1):
        f2 = Fut(h, ROUTER, "recv_logical_finalized", [sock, clone_val(zero)])
        r2 = f2.poll()
        if r2 is None or r2.idx != 0:
            break
        judge(r2)
    left = {p: [hex(x) for x in v] for p, v in arrived.items() if v}
    check(not left, "c09.router-recv.message-lost-after-a-dropped-recv" if dropped else "c11.router-recv.message-never-delivered",
            f"never returned: {left} ({dropped} call(s) dropped)")


def replay_router_recv_blocking(model, params, role):
    if "c14.router-recv.timer-does-not-expire" in role:
        return "router_recv_churn 300 100 20\n", (lambda out: "WAITED-LONGER-THAN-RCVTIMEO" in out), \
            "ROUTER (inproc) with RCVTIMEO=300 ms waiting in recv() while a DEALER connects every 100 ms; expecting recv() to return much later than RCVTIMEO"
    return None
