"""C14 kernel: the connection interface of a session (ScaConnectionIface) honours SNDTIMEO on a full pipe.
tokio::time::timeout is replaced by an object that records the duration it was given; whether it has elapsed
at a poll is a free choice (both outcomes explored), so what is checked is which duration the code arms and
how it maps the three outcomes (room / still full / elapsed) to results."""
import z3
from ..values import *
from ..models import ok, err, some, none, dur_ns, _deref, _chan_fut_poll
from .common import *
from .d_c09 import Fut

SCA = "sessionx::iface::ScaConnectionIface"
TRAIT = "ISocketConnection"
NS = 1_000_000_000


URING = "io_uring_backend::zmtp_handler::ZmtpSmartConnection"


def uring_send_timeouts(h):
    """the same obligations for the io_uring backend's connection interface (MIR dump built with --features io-uring):
    the two backends must treat SNDTIMEO alike"""
    return sca_send_timeouts(h, conn=URING)


INPROC = "transport::inproc::connection::DirectInprocConnection"


def inproc_send_timeouts(h):
    """the same obligations for the inproc transport's connection (DirectInprocConnection: the peer socket's ingress
    queue is the pipe)"""
    return sca_send_timeouts(h, conn=INPROC)


def sca_send_timeouts(h, conn=None):
    prog = h.it.prog
    mode = h.choose(3, "sndtimeo")                  # 0: -1 (None), 1: 0, 2: positive
    if mode == 0:
        sndtimeo, d = none(), None
    elif mode == 1:
        sndtimeo, d = some(dur_ns(0)), 0
    else:
        d = h.bvar("sndtimeo_ns", 128)
        h.assume(z3.And(z3.UGT(d, 0), z3.ULE(d, z3.BitVecVal(2147483647 * 1_000_000, 128))))      # 1 ns .. i32::MAX ms
        sndtimeo = some(dur_ns(d))
    # the data pipe towards the session: capacity 1, already full
    from ..models import _ChanM
    ch = _ChanM(1)
    ch.items.append("occupant")
    ty = conn or SCA
    if ty == SCA:
        fields = prog.struct_fields(SCA)
        vals = {"sca_stop_mailbox": Opaque("mailbox"), "sca_handle_id": 7, "pipe_sender": Agg("{chan.tx}", [ch]), "pipe_write_id_to_sca": 3, "sndtimeo": sndtimeo}
    elif ty == INPROC:
        fields = prog.struct_fields(ty)
        vals = {"connection_id": 7, "target_endpoint_uri": string("inproc://x"), "peer_queue_sender": Agg("{chan.tx}", [ch]), "monitor_tx": none(),
                "is_congested": BoxV(Cell(Agg("{atomic}", [False]), "congested"), (), "AtomicBool"), "sndtimeo": sndtimeo}
        h.it.hooks["socket::events::clean_endpoint_uri"] = lambda it, a, d, f: a[0]      # text of a monitor event nobody listens to
    else:
        fields = prog.struct_fields(ty, features=("ipc", "inproc", "plain", "io-uring"))
        vals = {"fd": 5, "egress_tx": Agg("{chan.tx}", [ch]), "event_fd": Opaque("eventfd"), "worker_asleep": Opaque("flag"), "work_signal_gen": Opaque("gen"), "sndtimeo": sndtimeo}
        sw = prog.resolve_method("", ty, "signal_worker", None)
        if sw:
            h.it.hooks[sw] = lambda it, a, d, f: UNIT          # waking the worker thread: no effect on the result
    iface = Ref(Cell(Agg(ty, [vals.get(f, Opaque(f)) for f in fields]), "iface"), ())
    armed = []
    def timeout_fn(it, args, dty, func):
        armed.append(args[0])
        return Agg("{timeout}", [args[0], args[1]])
    h.it.hooks["tokio::time::timeout"] = timeout_fn
    st = {"fire": False}
    def extern(it, plain, args, dty, func):
        if plain.startswith("tokio::time::timeout"):
            return timeout_fn(it, args, dty, func)
        if plain.endswith("Future>::poll"):
            fut = _deref(args[0])
            if isinstance(fut, Agg) and fut.ty == "{timeout}":
                inner = _chan_fut_poll(it, [Ref(Cell(fut.f[1], "inner"), ())], "", "")
                if inner.vname == "Ready":
                    return Enum("std::task::Poll", 0, "Ready", [ok(inner.f[0])])
                if st["fire"]:
                    return Enum("std::task::Poll", 0, "Ready", [err(Agg("tokio::time::error::Elapsed", []))])
                return Enum("std::task::Poll", 1, "Pending", [])
            return NotImplemented
        if plain.endswith("IntoFuture>::into_future") or plain.startswith("std::pin::Pin::"):
            return args[0]
        return NotImplemented
    h.it.extern = extern
    h.panic_role = "c14.sca-send"
    ops = ["send_message", "send_multipart", "send_multipart_owned"] if ty == SCA else ["send_multipart", "send_multipart_owned"]
    name = ops[h.choose(len(ops), "operation")]
    op = ["send_message", "send_multipart", "send_multipart_owned"].index(name)
    if op == 0:
        arg = h.method("message::msg::Msg", "from_vec", Seq("vec", [0x55]))
    else:
        fb = Ref(Cell(h.method("message::FrameBatch", "new"), "fb"), ())
        h.method("message::FrameBatch", "push", fb, h.method("message::msg::Msg", "from_vec", Seq("vec", [0x55])))
        arg = fb.load()
    f = Fut(h, ty, name, [iface, arg], trait=TRAIT)
    r = f.poll()
    ev = prog.enum_variants("error::ZmqError")
    def errname(res):
        e = res.f[0]
        if isinstance(e, Agg) and not isinstance(e, Enum):      # (FrameBatch, ZmqError)
            e = e.f[1]
        return e.vname
    if mode == 1:
        # SNDTIMEO = 0: fails immediately with a would-block error, nothing enqueued, nothing armed
        h.check(r is not None and r.idx == 1 and errname(r) == "ResourceLimitReached", "c14.sca-send.sndtimeo-zero-did-not-fail-immediately",
                "pending" if r is None else repr(r)[:100])
        h.check(ch.items == ["occupant"], "c14.sca-send.refused-message-was-enqueued")
        if op == 2 and r is not None and r.idx == 1:
            back = r.f[0].f[0]
            h.check(h.method("message::FrameBatch", "len", Ref(Cell(back, "back"), ())) == 1, "c14.sca-send.refused-message-not-returned-to-the-caller")
        h.check(not armed, "c14.sca-send.timer-armed-for-sndtimeo-zero")
        h.cover("c14.sca-send.wouldblock")
        return
    h.check(r is None, "c14.sca-send.send-on-full-pipe-did-not-wait", repr(r)[:100])
    if r is not None:
        return
    if mode == 0:
        # SNDTIMEO = -1: waits until there is room - no timer may bound the wait
        h.check(not armed, "c14.sca-send.sndtimeo-infinite-but-a-timer-bounds-the-wait",
                f"{name} with SNDTIMEO=-1 on a full pipe arms tokio::time::timeout({armed[0].f[0] // NS if armed and isinstance(armed[0].f[0], int) else '?'} s): the send fails after that time although the peer only is slow")
    else:
        h.check(len(armed) == 1, "c14.sca-send.no-timer-for-positive-sndtimeo")
        if armed:
            h.check(bv(armed[0].f[0], 128) == d, "c14.sca-send.timer-duration-differs-from-sndtimeo")
    what = h.choose(3, "then")                      # 0 room appears, 1 still full and the timer has not elapsed, 2 still full and it has elapsed
    if what == 0:
        ch.items.pop(0)
        r = f.poll()
        h.check(r is not None and r.idx == 0, "c14.sca-send.send-did-not-complete-when-room-appeared")
        h.check(len(ch.items) == 1 and ch.items[0] != "occupant", "c14.sca-send.completed-send-not-enqueued-exactly-once")
        h.cover("c14.sca-send.completed-after-wait")
    elif what == 1:
        r = f.poll()
        h.check(r is None, "c14.sca-send.gave-up-before-the-interval-elapsed", repr(r)[:100])
        h.check(ch.items == ["occupant"], "c14.sca-send.pending-send-changed-the-pipe")
        h.cover("c14.sca-send.still-waiting")
    else:
        if not armed:
            from ..interp import PathAbort
            raise PathAbort("no timer to elapse")
        st["fire"] = True
        r = f.poll()
        h.check(r is not None and r.idx == 1 and errname(r) in ("Timeout", "ResourceLimitReached"), "c14.sca-send.elapsed-send-did-not-fail-with-timeout-or-wouldblock",
                "pending" if r is None else repr(r)[:100])
        h.check(ch.items == ["occupant"], "c14.sca-send.timed-out-message-was-enqueued")
        h.cover("c14.sca-send.timed-out")


AIE = "socket::patterns::anonymous_ingress::AnonymousIngressEngine"
RPQ = "socket::patterns::ready_pipe_queue::ReadyPipeQueue"
PMS = "socket::patterns::ready_pipe_queue::PipeMessageSender"


def addressed_recv_timeouts(h):
    """the same obligations for AddressedIngressEngine::recv_logical_message (REQ / REP / DEALER receive path)"""
    h.params = dict(h.params, addressed=True)
    return ingress_recv_timeouts(h)


def ingress_recv_timeouts(h):
    """AnonymousIngressEngine::{recv, recv_multipart} (PULL/SUB) honour RCVTIMEO on an empty queue and do not lose
    a message that arrives after a refused / timed-out call."""
    from .d_c02 import _mk_msg, _tag
    from .d_c07 import _frames
    prog = h.it.prog
    mode = h.choose(3, "rcvtimeo")
    if mode == 0:
        rcv, d = none(), None
    elif mode == 1:
        rcv, d = some(dur_ns(0)), 0
    else:
        d = h.bvar("rcvtimeo_ns", 128)
        h.assume(z3.And(z3.UGT(d, 0), z3.ULE(d, z3.BitVecVal(2147483647 * 1_000_000, 128))))
        rcv = some(dur_ns(d))
    addressed = h.params.get("addressed", False)
    ENG = "socket::patterns::addressed_ingress::AddressedIngressEngine" if addressed else AIE
    eng = Ref(Cell(h.method(ENG, "new", 4), "ingress"), ())
    snd = Ref(Cell(h.method(ENG, "register_pipe", eng, 0, 4, 1), "s0"), ())
    armed = []
    st = {"fire": False}
    pop_fn = prog.resolve_method("", RPQ, "pop", None)
    def timeout_fn(it, args, dty, func):
        armed.append(args[0])
        return Agg("{timeout}", [args[0], args[1]])
    h.it.hooks["tokio::time::timeout"] = timeout_fn
    def extern(it, plain, args, dty, func):
        if plain.startswith("tokio::time::timeout"):
            return timeout_fn(it, args, dty, func)
        if plain.endswith("Future>::poll"):
            fut = _deref(args[0])
            if isinstance(fut, Agg) and fut.ty == "{timeout}":
                inner = it.run_body(prog.body(pop_fn + "::{closure#0}"), [Ref(Cell(fut.f[1], "inner"), ()) if not isinstance(fut.f[1], Ref) else fut.f[1], args[1]])
                if inner.vname == "Ready":
                    return Enum("std::task::Poll", 0, "Ready", [ok(inner.f[0])])
                if st["fire"]:
                    return Enum("std::task::Poll", 0, "Ready", [err(Agg("tokio::time::error::Elapsed", []))])
                return Enum("std::task::Poll", 1, "Pending", [])
            return NotImplemented
        if plain.endswith("IntoFuture>::into_future") or plain.startswith("std::pin::Pin::"):
            return args[0]
        return NotImplemented
    h.it.extern = extern
    h.panic_role = "c14.ingress-recv"
    which = h.choose(2, "operation") if not addressed else 1
    name = ("recv" if which == 0 else "recv_multipart") if not addressed else "recv_logical_message"
    f = Fut(h, ENG, name, [eng, rcv])
    r = f.poll()
    def enqueue(tags):
        fb = Ref(Cell(h.method("message::FrameBatch", "new"), "fb"), ())
        for i, t in enumerate(tags):
            h.method("message::FrameBatch", "push", fb, _mk_msg(h, t, i + 1 < len(tags)))
        h.check(h.method(PMS, "try_send_sync", snd, fb.load()).idx == 0, "c14.setup.enqueue")
    def read_all():
        got = []
        for _ in range(4):
            f2 = Fut(h, ENG, "recv_logical_message" if addressed else "recv", [eng, some(dur_ns(0))])
            r2 = f2.poll()
            if r2 is None or r2.idx != 0:
                break
            if addressed:
                got += [_tag(m) for m in _frames(r2.f[0].f[1])]
            else:
                got.append(_tag(r2.f[0]))
        return got
    if mode == 1:
        h.check(r is not None and r.idx == 1 and r.f[0].vname == "ResourceLimitReached", "c14.ingress-recv.rcvtimeo-zero-did-not-fail-immediately",
                "pending" if r is None else repr(r)[:100])
        h.check(not armed, "c14.ingress-recv.timer-armed-for-rcvtimeo-zero")
        enqueue([0xA1, 0xA2])
        h.check(read_all() == [0xA1, 0xA2], "c14.ingress-recv.message-lost-after-wouldblock")
        h.cover("c14.ingress-recv.wouldblock")
        return
    h.check(r is None, "c14.ingress-recv.recv-on-empty-queue-did-not-wait", repr(r)[:100])
    if r is not None:
        return
    if mode == 0:
        h.check(not armed, "c14.ingress-recv.rcvtimeo-infinite-but-a-timer-bounds-the-wait")
    else:
        h.check(len(armed) == 1, "c14.ingress-recv.no-timer-for-positive-rcvtimeo")
        if armed:
            h.check(bv(armed[0].f[0], 128) == d, "c14.ingress-recv.timer-duration-differs-from-rcvtimeo")
    what = h.choose(3, "then")
    if what == 0:
        enqueue([0xA1, 0xA2])
        r = f.poll()
        h.check(r is not None and r.idx == 0, "c14.ingress-recv.recv-did-not-complete-when-a-message-arrived")
        if r is not None and r.idx == 0:
            got = [_tag(r.f[0])] if which == 0 else [_tag(m) for m in _frames(r.f[0].f[1] if addressed else r.f[0])]
            got += read_all()
            h.check(got == [0xA1, 0xA2], "c14.ingress-recv.message-not-delivered-exactly-once", str(got))
        h.cover("c14.ingress-recv.completed-after-wait")
    elif what == 1:
        r = f.poll()
        h.check(r is None, "c14.ingress-recv.gave-up-before-the-interval-elapsed", repr(r)[:100])
        h.cover("c14.ingress-recv.still-waiting")
    else:
        if not armed:
            from ..interp import PathAbort
            raise PathAbort("no timer to elapse")
        st["fire"] = True
        r = f.poll()
        h.check(r is not None and r.idx == 1 and r.f[0].vname in ("Timeout", "ResourceLimitReached"), "c14.ingress-recv.elapsed-recv-did-not-fail-with-timeout-or-wouldblock",
                "pending" if r is None else repr(r)[:100])
        enqueue([0xA1, 0xA2])
        h.check(read_all() == [0xA1, 0xA2], "c14.ingress-recv.message-lost-after-timeout")
        h.cover("c14.ingress-recv.timed-out")


def replay_sca_send_timeouts(model, params, role):
    if "sndtimeo-infinite-but-a-timer-bounds-the-wait" in role:
        # public API: ROUTER (mandatory, SNDHWM 1, SNDTIMEO -1) towards a peer that stopped reading; the blocked send
        # is watched for 33 s (the hard-coded fallback that was found is 30 s)
        return "router_send_blocks -1 33\n", (lambda out: "blocked send returned after" in out and "Err(" in out), \
            "ROUTER with SNDTIMEO=-1 sending to a peer that stopped reading; expecting the blocked send to FAIL on its own instead of waiting"
    return None


# ------------------------------------------------------------------------------------------------
# DEALER: the two wait loops of the send path (waiting for another task's multi-frame transaction to finish,
# waiting for room in the pending queue) must not wait longer than SNDTIMEO in total, however often they are woken
DEALER = "socket::dealer_socket::DealerSocket"


def _dealer_socket(h, sndtimeo, sndhwm=1):
    from .d_c09 import _lock
    from ..models import MapV
    prog = h.it.prog
    cf = prog.struct_fields("socket::core::SocketCore")
    core_vals = [Opaque(f) for f in cf]
    csf = prog.struct_fields("socket::core::state::CoreState")
    cs_vals = [Opaque(f) for f in csf]
    of = prog.struct_fields("socket::options::SocketOptions")
    o_vals = [Opaque(f) for f in of]
    o_vals[of.index("sndtimeo")] = sndtimeo
    o_vals[of.index("sndhwm")] = sndhwm
    cs_vals[csf.index("options")] = BoxV(Cell(Agg("socket::options::SocketOptions", o_vals), "options"), ())
    core_vals[cf.index("core_state")] = _lock(Agg("socket::core::state::CoreState", cs_vals))
    core_vals[cf.index("handle")] = 1
    core = BoxV(Cell(Agg("socket::core::SocketCore", core_vals), "core"), ())
    h.it.hooks["socket::core::SocketCore::is_running"] = lambda it2, a, d, f: True
    idle = Enum("socket::dealer_socket::DealerSendTransaction", 0, "Idle", [])
    vals = {"core": core,
            "pending_outgoing_queue": BoxV(Cell(Agg("{amutex}", [False, Seq("vecdeque", [], "message::FrameBatch")]), "queue"), ()),
            "outgoing_queue_activity_notifier": BoxV(Cell(Agg("{notify}", [0, False]), "queue_notify"), ()),
            "peer_availability_notifier": BoxV(Cell(Agg("{notify}", [0, False]), "peer_notify"), ()),
            "current_send_transaction": Agg("{amutex}", [False, idle])}
    fields = prog.struct_fields(DEALER)
    sock = Ref(Cell(Agg(DEALER, [vals.get(f, Opaque(f)) for f in fields]), "dealer"), ())
    return sock, fields


def dealer_send_wait_loops(h):
    """DealerSocket::send_multipart while another task's frame-by-frame send is in progress (the loop around
    `timeout(SNDTIMEO, completion_notifier.notified())`), and DealerSocket::queue_message_or_error on a full pending
    queue (the loop around `timeout(SNDTIMEO, queue_activity.notified())`), coroutine MIR, SNDTIMEO positive and
    symbolic, symbolic monotone clock, recording timers. Between polls the environment wakes the waiter without
    giving it what it waits for (the other task finishes its message and starts the next one; the queue sees
    activity but is full again) up to `rounds` times; then the wait ends (transaction idle / room in the queue) or
    the armed timer fires. Every timer the call arms must expire at (start of the call + SNDTIMEO)."""
    from ..models import instant_ns
    prog = h.it.prog
    W = 128
    which = h.choose(2, "loop")            # 0 send_multipart behind a transaction, 1 queue_message_or_error on a full queue
    d = h.bvar("sndtimeo_ns", W)
    h.assume(z3.And(z3.UGT(d, 0), z3.ULE(d, z3.BitVecVal(2147483647 * 1_000_000, W))))
    sock, fields = _dealer_socket(h, some(dur_ns(d)))
    dealer = sock.load()
    clock = {"last": None, "n": 0}
    def tick():
        t = h.bvar(f"t{clock['n']}", W)
        clock["n"] += 1
        h.assume(z3.ULE(t, z3.BitVecVal(1 << 70, W)))
        if clock["last"] is not None:
            h.assume(z3.UGE(t, clock["last"]))
        clock["last"] = t
        return t
    st = {"fire": False, "armed": [], "t_call": None}
    def note_start(t):
        if st["t_call"] is None:
            st["t_call"] = t
    def timeout_fn(it, args, dty, func):
        now = tick()
        note_start(now)
        st["armed"].append(simp(now + bv(args[0].f[0], W)))
        return Agg("{timeout}", [args[0], args[1]])
    def timeout_at_fn(it, args, dty, func):
        st["armed"].append(bv(args[0].f[0], W))
        return Agg("{timeout}", [args[0], args[1]])
    h.it.hooks["tokio::time::timeout"] = timeout_fn
    h.it.hooks["tokio::time::timeout_at"] = timeout_at_fn
    h.it.hooks["tokio::time::sleep"] = lambda it, a, dd, f: Agg("{sleep}", [])
    from ..models import _notified_poll
    def extern(it, plain, args, dty, func):
        if plain.startswith("tokio::time::timeout_at"):
            return timeout_at_fn(it, args, dty, func)
        if plain.startswith("tokio::time::timeout"):
            return timeout_fn(it, args, dty, func)
        if plain.startswith("tokio::time::sleep"):
            return Agg("{sleep}", [])
        if plain in ("tokio::time::Instant::now", "std::time::Instant::now"):
            t = tick()
            note_start(t)
            return instant_ns(t)
        if plain.startswith(("std::future::pending", "futures::future::pending")):
            return Agg("{pending}", [])
        if plain.endswith("Future>::poll"):
            fut = _deref(args[0])
            if isinstance(fut, Agg) and fut.ty == "{timeout}":
                inner = _notified_poll(it, [Ref(Cell(fut.f[1], "inner"), ()) if not isinstance(fut.f[1], Ref) else fut.f[1], args[1]], "", "")
                if inner.vname == "Ready":
                    return Enum("std::task::Poll", 0, "Ready", [ok(inner.f[0])])
                if st["fire"]:
                    return Enum("std::task::Poll", 0, "Ready", [err(Agg("tokio::time::error::Elapsed", []))])
                return Enum("std::task::Poll", 1, "Pending", [])
            if isinstance(fut, Agg) and fut.ty in ("{sleep}", "{pending}"):
                return Enum("std::task::Poll", 1, "Pending", [])
            if isinstance(fut, Agg) and fut.ty == "{future}":
                return Enum("std::task::Poll", 0, "Ready", [ok(UNIT)])
            return NotImplemented
        if plain.endswith("IntoFuture>::into_future") or plain.startswith("std::pin::Pin::"):
            return args[0]
        return NotImplemented
    h.it.extern = extern
    h.panic_role = "c14.dealer-wait"
    fb = Ref(Cell(h.method("message::FrameBatch", "new"), "fb"), ())
    h.method("message::FrameBatch", "push", fb, h.method("message::msg::Msg", "from_vec", Seq("vec", [0x44])))
    tx_i = fields.index("current_send_transaction")
    q = dealer.f[fields.index("pending_outgoing_queue")].load()
    qn = dealer.f[fields.index("outgoing_queue_activity_notifier")]
    def buffering():
        n = BoxV(Cell(Agg("{notify}", [0, False]), "tx_notify"), ())
        other = Ref(Cell(h.method("message::FrameBatch", "new"), "other"), ())
        return Enum("socket::dealer_socket::DealerSendTransaction", 1, "Buffering", [other.load(), n]), n
    if which == 0:
        h.it.hooks[prog.resolve_method("", DEALER, "send_logical_message", None)] = lambda it, a, dd, f: Agg("{future}", ["sent"])
        h.it.hooks[prog.resolve_method("", DEALER, "prepare_full_multipart_send_sequence", None)] = lambda it, a, dd, f: a[1]
        tx, notifier = buffering()
        dealer.f[tx_i].f[1] = tx
        f = Fut(h, DEALER, "send_multipart", [sock, fb.load()], trait="ISocket")
    else:
        q.f[1].f.append(clone_val(fb.load()))           # SNDHWM 1: the pending queue is full
        f = Fut(h, DEALER, "queue_message_or_error", [sock, fb.load(), 1, some(dur_ns(d))])
    r = f.poll()
    h.check(r is None, "c14.dealer-wait.setup-call-did-not-wait", repr(r)[:100])
    if r is None:
        rounds = h.params.get("rounds", 2)
        def check_timers():
            for i, expiry in enumerate(st["armed"]):
                h.check(expiry == simp(st["t_call"] + d), "c14.dealer-wait.timer-does-not-expire-sndtimeo-after-the-call-started." + ("send-multipart" if which == 0 else "pending-queue"),
                        f"{'send_multipart behind a frame-by-frame send' if which == 0 else 'queue_message_or_error on a full pending queue'}: arming {i + 1} of {len(st['armed'])} expires later than (start of the call + SNDTIMEO): every wake-up that does not end the wait restarts the full interval")
        check_timers()
        h.check(len(st["armed"]) == 1, "c14.dealer-wait.no-timer-armed-for-positive-sndtimeo", str(len(st["armed"])))
        for j in range(rounds):
            ev = h.choose(3, f"event{j}")       # 0 woken, nothing gained; 1 the wait ends; 2 the timer fires
            if ev == 0:
                if which == 0:
                    # the other task sends its last frame (notify_waiters) and begins its next message before we run
                    from ..models import _notify_waiters
                    _notify_waiters(h.it, [notifier], "", "")
                    tx, notifier = buffering()
                    dealer.f[tx_i].f[1] = tx
                else:
                    # queue activity (the processor took one message, another sender filled the slot again)
                    from ..models import _notify_one
                    _notify_one(h.it, [qn], "", "")
                r = f.poll()
                h.check(r is None, "c14.dealer-wait.gave-up-or-completed-without-cause", repr(r)[:100])
                if r is not None:
                    return
                check_timers()
                h.cover("c14.dealer-wait.woken-without-progress")
            elif ev == 1:
                if which == 0:
                    from ..models import _notify_waiters
                    _notify_waiters(h.it, [notifier], "", "")
                    dealer.f[tx_i].f[1] = Enum("socket::dealer_socket::DealerSendTransaction", 0, "Idle", [])
                else:
                    from ..models import _notify_one
                    q.f[1].f.pop(0)
                    _notify_one(h.it, [qn], "", "")
                r = f.poll()
                h.check(r is not None and r.idx == 0, "c14.dealer-wait.did-not-complete-when-the-wait-ended", "pending" if r is None else repr(r)[:100])
                if which == 1:
                    h.check(len(q.f[1].f) == 1, "c14.dealer-wait.message-not-queued-exactly-once", str(len(q.f[1].f)))
                h.cover("c14.dealer-wait.completed-after-wait")
                return
            else:
                st["fire"] = True
                r = f.poll()
                h.check(r is not None and r.idx == 1 and r.f[0].vname in ("Timeout", "ResourceLimitReached"), "c14.dealer-wait.elapsed-call-did-not-fail-with-timeout",
                        "pending" if r is None else repr(r)[:100])
                if which == 1:
                    h.check(len(q.f[1].f) == 1, "c14.dealer-wait.timed-out-message-was-queued", str(len(q.f[1].f)))
                h.cover("c14.dealer-wait.timed-out")
                return


def replay_dealer_send_wait_loops(model, params, role):
    if role.endswith("after-the-call-started.send-multipart"):
        # public API: SNDTIMEO 300 ms; another task sends two-frame messages frame by frame, holding each for 250 ms, back to
        # back; send_multipart from a second task must be over about 300 ms after it began
        return "dealer_tx_wait 300 250 12\n", (lambda out: "WAITED-LONGER-THAN-SNDTIMEO" in out), \
            "DEALER with SNDTIMEO=300 ms, send_multipart behind back-to-back frame-by-frame sends of another task; expecting the call to take longer than SNDTIMEO"
    return None


# the race for the transaction slot is real: a run in which the waiting task wins at the first gap shows nothing
REPLAY_INCONCLUSIVE_WHEN_NOT_REPRODUCED = {"dealer_send_wait_loops": True}


def req_send_wait_loop(h):
    """ReqSocket::send with no peer connected and a positive SNDTIMEO: the loop around
    `timeout(SNDTIMEO, load_balancer.wait_for_connection())`. A peer that connects and is gone again before the
    sender runs wakes the waiter without giving it a peer (up to `rounds` times); then a peer stays, or the timer
    fires. Every timer armed must expire at (start of the wait + SNDTIMEO)."""
    from .d_c09 import _req_socket, REQ, LB, DYN
    from ..models import instant_ns
    prog = h.it.prog
    W = 128
    d = h.bvar("sndtimeo_ns", W)
    h.assume(z3.And(z3.UGT(d, 0), z3.ULE(d, z3.BitVecVal(2147483647 * 1_000_000, W))))
    sock, lb, fields, variants = _req_socket(h, peers=0)
    # SNDTIMEO in the core's options
    core = sock.load().f[fields.index("core")].load()
    cf = prog.struct_fields("socket::core::SocketCore")
    cs = core.f[cf.index("core_state")].f[0]
    csf = prog.struct_fields("socket::core::state::CoreState")
    opts = cs.f[csf.index("options")]
    of = prog.struct_fields("socket::options::SocketOptions")
    opts.f[of.index("sndtimeo")] = some(dur_ns(d))
    clock = {"last": None, "n": 0}
    def tick():
        t = h.bvar(f"t{clock['n']}", W)
        clock["n"] += 1
        h.assume(z3.ULE(t, z3.BitVecVal(1 << 70, W)))
        if clock["last"] is not None:
            h.assume(z3.UGE(t, clock["last"]))
        clock["last"] = t
        return t
    st = {"fire": False, "armed": [], "t_call": None, "sent": 0}
    wfc = prog.resolve_method("", LB, "wait_for_connection", None)
    def timeout_fn(it, args, dty, func):
        now = tick()
        if st["t_call"] is None:
            st["t_call"] = now
        st["armed"].append(simp(now + bv(args[0].f[0], W)))
        return Agg("{timeout}", [args[0], args[1]])
    def timeout_at_fn(it, args, dty, func):
        st["armed"].append(bv(args[0].f[0], W))
        return Agg("{timeout}", [args[0], args[1]])
    h.it.hooks["tokio::time::timeout"] = timeout_fn
    h.it.hooks["tokio::time::timeout_at"] = timeout_at_fn
    h.it.hooks[DYN + "send_multipart"] = lambda it, a, dd, f: Agg("{future}", ["peer_send"])
    h.it.hooks["<{mailbox}>::is_closed"] = lambda it2, a, dd, f: False
    def extern(it, plain, args, dty, func):
        if plain.startswith("tokio::time::timeout_at"):
            return timeout_at_fn(it, args, dty, func)
        if plain.startswith("tokio::time::timeout"):
            return timeout_fn(it, args, dty, func)
        if plain in ("tokio::time::Instant::now", "std::time::Instant::now"):
            t = tick()
            if st["t_call"] is None:
                st["t_call"] = t
            return instant_ns(t)
        if plain.endswith("Future>::poll"):
            fut = _deref(args[0])
            while isinstance(fut, BoxV):
                fut = _deref(fut.load())
            if isinstance(fut, Agg) and fut.ty == "{timeout}":
                inner_ref = fut.f[1] if isinstance(fut.f[1], Ref) else Ref(Cell(fut.f[1], "inner"), ())
                inner = it.run_body(prog.body(wfc + "::{closure#0}"), [inner_ref, args[1]])
                if inner.vname == "Ready":
                    return Enum("std::task::Poll", 0, "Ready", [ok(inner.f[0])])
                if st["fire"]:
                    return Enum("std::task::Poll", 0, "Ready", [err(Agg("tokio::time::error::Elapsed", []))])
                return Enum("std::task::Poll", 1, "Pending", [])
            if isinstance(fut, Agg) and fut.ty == "{future}":
                st["sent"] += 1
                return Enum("std::task::Poll", 0, "Ready", [ok(UNIT)])
            return NotImplemented
        if plain.endswith("BoundedAsyncSender::is_closed"):
            return False
        if plain.endswith("IntoFuture>::into_future") or plain.startswith("std::pin::Pin::"):
            return args[0]
        return NotImplemented
    h.it.extern = extern
    h.panic_role = "c14.req-wait"
    f = Fut(h, REQ, "send", [sock, h.method("message::msg::Msg", "new")], trait="ISocket")
    r = f.poll()
    h.check(r is None, "c14.req-wait.setup-send-without-a-peer-did-not-wait", repr(r)[:100])
    if r is not None:
        return
    def check_timers():
        for i, expiry in enumerate(st["armed"]):
            h.check(expiry == simp(st["t_call"] + d), "c14.req-wait.timer-does-not-expire-sndtimeo-after-the-wait-started",
                    f"REQ send waiting for a first peer: arming {i + 1} of {len(st['armed'])} expires later than (start of the wait + SNDTIMEO)")
    check_timers()
    h.check(len(st["armed"]) == 1, "c14.req-wait.no-timer-armed-for-positive-sndtimeo", str(len(st["armed"])))
    peer_no = 0
    for j in range(h.params.get("rounds", 2)):
        ev = h.choose(3, f"event{j}")
        if ev == 0:
            # a peer connects and is gone again before the sender runs
            uri = string("flap%d" % peer_no)
            peer_no += 1
            h.method(LB, "add_connection", lb, clone_val(uri), BoxV(Cell(Agg("{peer}", [9]), "peer"), (), "{peer}"))
            h.method(LB, "remove_connection", lb, _str_ref(uri))
            r = f.poll()
            h.check(r is None, "c14.req-wait.gave-up-or-completed-without-a-peer", repr(r)[:100])
            if r is not None:
                return
            check_timers()
            h.cover("c14.req-wait.woken-without-a-peer")
        elif ev == 1:
            h.method(LB, "add_connection", lb, string("stay"), BoxV(Cell(Agg("{peer}", [1]), "peer"), (), "{peer}"))
            r = f.poll()
            h.check(r is not None and r.idx == 0 and st["sent"] == 1, "c14.req-wait.did-not-send-when-a-peer-connected", "pending" if r is None else repr(r)[:100])
            h.cover("c14.req-wait.completed-after-wait")
            return
        else:
            st["fire"] = True
            r = f.poll()
            h.check(r is not None and r.idx == 1 and r.f[0].vname in ("Timeout", "ResourceLimitReached"), "c14.req-wait.elapsed-send-did-not-fail-with-timeout",
                    "pending" if r is None else repr(r)[:100])
            h.check(st["sent"] == 0, "c14.req-wait.timed-out-send-was-sent")
            h.cover("c14.req-wait.timed-out")
            return


def _str_ref(s):
    return SliceRef(Ref(Cell(s, "s"), ()), 0, len(s.f), True)
