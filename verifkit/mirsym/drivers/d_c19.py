"""C19 — heartbeat automaton of the engine under a symbolic clock."""
import z3
from ..values import *
from ..models import dur_ns, instant_ns, some, none, conj
from .common import *
from .d_c07 import greeting_v3, ready_frame, SIG

MS = 1_000_000
REPLAY_INCONCLUSIVE_WHEN_NOT_REPRODUCED = {"heartbeat_timeline": True}


def _hb_engine(h, v2=False):
    ivl = h.bvar("ivl_ns", 128)
    tmo = h.bvar("timeout_ns", 128)
    # option values are i32 milliseconds > 0
    ivl_ms, tmo_ms = h.bvar("ivl_ms", 128), h.bvar("timeout_ms", 128)
    for ms, ns in ((ivl_ms, ivl), (tmo_ms, tmo)):
        h.assume(z3.And(z3.UGE(ms, 1), z3.ULE(ms, (1 << 31) - 1), ns == ms * MS))
    cfg = mk_config(h, socket_type_name=string("PULL"), heartbeat_ivl=some(dur_ns(ivl)), heartbeat_timeout=some(dur_ns(tmo)))
    eng = mk_engine(h, True, cfg)
    start(h, eng)
    if v2:
        feed(h, eng, SIG + [1, 8] + [0, 0])
    else:
        feed(h, eng, greeting_v3(b"NULL", 0) + ready_frame(b"PUSH"))
    h.check(phase(h, eng) == "Data", "c19.setup.data-phase")
    return eng, ivl, tmo


def _now(h):
    """next value of the shared non-decreasing symbolic clock"""
    it = h.it
    last = getattr(it, "_clock_last", 0)
    t = h.bvar(f"t{len([k for k in h.inputs if k.startswith('t')])}", 128)
    h.ctx.add(z3.UGE(t, bv(last, 128)))
    h.ctx.add(z3.ULE(t, z3.BitVecVal(1 << 62, 128)))
    it._clock_last = t
    return t


def _tick(h, eng, t):
    return h.method(ENGINE, "on_tick", eng, instant_ns(t))


def _ns(v):
    return v.f[0]


def heartbeat_timeline(h):
    """k events from {tick, inbound data frame, inbound PING(ctx), inbound PONG}; the engine's
    reaction must equal the reference heartbeat automaton of the property statement."""
    k = h.params.get("events", 4)
    ctx_lens = h.params.get("ctx_lens", [0, 2])
    eng, ivl, tmo = _hb_engine(h)
    h.panic_role = "c19.timeline"
    # reference state
    last_act = _ns(efield(h, eng, "last_activity_time"))
    waiting, ping_time = False, None
    traffic_since_ping = False
    for ev in range(k):
        kind = h.choose(4, f"ev{ev}")
        if phase(h, eng) == "Closed":
            break
        if kind == 0:                                   # tick
            t = _now(h)
            out = _tick(h, eng, t)
            acts, snd = app_actions(out), sends(out)
            timed_out = any(a.vname == "PeerError" and a.f[0].vname == "Timeout" for a in acts)
            if timed_out:
                # only with a PING outstanding for at least `timeout`
                h.check(waiting, "c19.timeout-without-outstanding-ping")
                if waiting:
                    h.check(z3.UGE(t - ping_time, tmo), "c19.timeout-before-deadline")
                    # a peer on which traffic keeps flowing is never disconnected
                    h.check(not traffic_since_ping, "c19.timeout-although-traffic-arrived-after-ping",
                            "PING outstanding, the peer sent frames after it (no PONG), the next tick past the deadline closes the connection")
                h.check(phase(h, eng) == "Closed", "c19.timeout-closes")
                h.cover("c19.timeout")
                break
            if waiting:
                h.check(z3.ULT(t - ping_time, tmo), "c19.deadline-passed-without-timeout")
            if snd:
                # a PING: COMMAND frame "\\x04PING" + ttl(2) + empty context
                h.check(len(snd) == 9 and snd[0] == 4 and snd[1] == 7 and snd[2:7] == list(b"\x04PING"), "c19.tick-sent-something-else-than-ping")
                h.check(not waiting, "c19.second-ping-while-one-outstanding")
                h.check(z3.UGE(t - last_act, ivl), "c19.ping-sooner-than-ivl")
                waiting, ping_time, traffic_since_ping = True, t, False
                h.cover("c19.ping-sent")
            else:
                if not waiting:
                    h.check(z3.ULT(t - last_act, ivl), "c19.no-ping-although-ivl-elapsed")
        else:
            if kind == 1:                               # data frame (1 byte), possibly a MORE frame of a multipart message
                more = h.choose(2, f"more{ev}")
                frame = [more, 0x01, h.byte(f"d{ev}")]
            elif kind == 2:                             # PING with context
                n = ctx_lens[h.choose(len(ctx_lens), f"ctxlen{ev}")]
                ctx = h.bytes(f"ctx{ev}", n)
                body = list(b"\x04PING") + [h.byte(f"ttl{ev}a"), h.byte(f"ttl{ev}b")] + ctx
                frame = [0x04, len(body)] + body
            else:                                       # PONG
                body = list(b"\x04PONG")
                frame = [0x04, len(body)] + body
            out = feed(h, eng, frame)
            acts, snd = app_actions(out), sends(out)
            h.check(not any(a.vname == "PeerError" for a in acts), "c19.valid-frame-closed-connection")
            last_act = _ns(efield(h, eng, "last_activity_time"))
            # any inbound frame proves liveness and clears the outstanding PING
            waiting, traffic_since_ping = False, False
            if kind == 2:
                want = [0x04, 5 + len(ctx)] + list(b"\x04PONG") + ctx
                ok = len(snd) == len(want) and conj([bv(a, 8) == bv(b, 8) for a, b in zip(snd, want)])
                h.check(ok, "c19.ping-not-answered-by-pong-with-same-context")
                h.cover("c19.pong-echo")
            else:
                h.check(not snd, "c19.unexpected-send")
            if kind == 3:
                waiting, traffic_since_ping = False, False
            if kind == 1:
                h.check(any(a.vname == "DeliverMessage" for a in acts) == (more == 0), "c19.data-delivery-unexpected")
        h.check(efield(h, eng, "waiting_for_pong") == waiting, "c19.waiting-flag-mismatch")


def v2_never_pings(h):
    k = h.params.get("events", 3)
    eng, ivl, tmo = _hb_engine(h, v2=True)
    for ev in range(k):
        t = _now(h)
        out = _tick(h, eng, t)
        h.check(not sends(out) and not app_actions(out), "c19.v2-heartbeat-emitted")
    h.cover("c19.v2-ticks")


def replay_heartbeat_timeline(model, params, role):
    """Native replay: Instant::now() cannot be set, so every inbound frame is stamped 'engine creation time'
    (a few ms at most) while tick instants are free. The timeline is replayed with ticks at their model
    distance (in ms) from the handshake stamp plus 5 s; the native reactions are compared with the
    reference automaton evaluated on those native times. A deviation reproduces a violation of the
    automaton; no deviation means the model's clock values are not realisable natively (result: not
    replayable, reported as such)."""
    ch = model.get("_choices", [])
    d = dict(map(tuple, ch))
    ivl_ms, tmo_ms = model.get("ivl_ms", 1), model.get("timeout_ms", 1)
    lines = [f"engine server type=PULL hb_ivl_ms={ivl_ms} hb_timeout_ms={tmo_ms}",
             "start", "feed " + bytes(greeting_v3(b"NULL", 0) + ready_frame(b"PUSH")).hex()]
    ts = sorted((int(k[1:]), v) for k, v in model.items() if k.startswith("t") and k[1:].isdigit())
    nows = sorted((int(k[4:]), v) for k, v in model.items() if k.startswith("_now"))
    base = nows[1][1] if len(nows) > 1 else (ts[0][1] if ts else 0)
    ti = 0
    events = []          # (kind, tick_ms or None, more)
    i = 0
    while f"ev{i}" in d:
        kind = d[f"ev{i}"]
        if kind == 0:
            off = max(0, (ts[ti][1] - base)) // MS + 5000 if ti < len(ts) else 5000
            ti += 1
            lines.append(f"tick {off}")
            events.append(("tick", off, 0))
        elif kind == 1:
            more = d.get(f"more{i}", 0)
            lines.append("feed 0%d0161" % more)
            events.append(("data", None, more))
        elif kind == 2:
            ctx = model.get(f"ctx{i}", "")
            body = b"\x04PING\x00\x00" + bytes.fromhex(ctx if isinstance(ctx, str) else "")
            lines.append("feed " + (bytes([4, len(body)]) + body).hex())
            events.append(("ping", None, 0))
        else:
            lines.append("feed 0405" + b"\x04PONG".hex())
            events.append(("pong", None, 0))
        lines.append("phase")
        i += 1
    script = "\n".join(lines + [""])

    def pred(out):
        # split the native output per event at the 'phase' lines (the first 'phase' belongs to event 0)
        chunks, cur = [], []
        seen_setup = False
        for l in out.splitlines():
            if l.startswith("handshake_complete"):
                seen_setup, cur = True, []
                continue
            if not seen_setup:
                continue
            cur.append(l)
            if l.startswith("phase "):
                chunks.append(cur)
                cur = []
        last_act, waiting, ping_time, closed = 0, False, None, False
        for (kind, t, more), lines_ in zip(events, chunks):
            if closed:
                break
            sent = [l for l in lines_ if l.startswith("send ")]
            timeout = any(l.startswith("peer_error Timeout") for l in lines_)
            wflag = any("waiting_pong=true" in l for l in lines_)
            if kind == "tick":
                exp_timeout = waiting and t - ping_time >= tmo_ms
                exp_ping = (not exp_timeout) and (not waiting) and t - last_act >= ivl_ms + 50   # 50 ms slack for real stamps
                maybe_ping = (not exp_timeout) and (not waiting) and t - last_act >= ivl_ms - 50
                if timeout != exp_timeout:
                    return True
                if exp_timeout:
                    closed = True
                    continue
                if bool(sent) and not maybe_ping:
                    return True
                if exp_ping and not sent:
                    return True
                if sent:
                    waiting, ping_time = True, t
            else:
                waiting = False
                if kind == "ping" and len(sent) != 1:
                    return True
            if wflag != waiting:
                return True
        return False
    return script, pred, "timeline replayed natively and compared with the reference automaton on the native clock"
