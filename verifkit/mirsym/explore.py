"""Path exploration driver for mirsym harnesses."""
from __future__ import annotations
import time, traceback, os, multiprocessing as mp
import z3
from .parser import MirProgram
from .interp import Interp, PathCtx, Panic, Unsupported, PathAbort, StepLimit
from .models import Models
from .values import *


class Harness:
    """what a driver sees: symbolic inputs, calls into real MIR, assertions"""

    def __init__(self, it: Interp):
        self.it, self.ctx = it, it.ctx
        self.failures = []     # (role, description, model-dict)
        self.covers = {}       # label -> witness or None
        self.inputs = {}       # name -> term (for model printing)
        self.checks = 0

    # inputs
    def byte(self, name):
        v = z3.BitVec(name, 8)
        self.inputs[name] = v
        return v

    def bytes(self, name, n):
        return [self.byte(f"{name}[{i}]") for i in range(n)]

    def bvar(self, name, w):
        v = z3.BitVec(name, w)
        self.inputs[name] = v
        return v

    def boolvar(self, name):
        v = z3.Bool(name)
        self.inputs[name] = v
        return v

    def choose(self, n, label=""):
        c = self.ctx.choose(n, label)
        self.inputs.setdefault("choice:" + label, []).append(c) if False else None
        self.choices = getattr(self, "choices", []) + [(label, c)]
        return c

    def assume(self, cond):
        cond = simp(cond) if is_sym(cond) else cond
        if cond is False:
            raise PathAbort("assume false")
        if cond is True:
            return
        if not self.ctx.check(bl(cond)):
            raise PathAbort("assume infeasible")
        self.ctx.add(cond)

    # calling the real code
    def call(self, fn_name, *args):
        body = self.it.prog.body(fn_name)
        return self.it.run_body(body, list(args))

    def method(self, ty, method, *args, trait=None):
        fn = self.it.prog.resolve_method("", ty, method, trait)
        if fn is None:
            raise KeyError(f"{ty}::{method}")
        return self.call(fn, *args)

    # assertions
    def check(self, cond, role, desc=""):
        """assert cond on this path; a satisfiable negation is a counterexample"""
        self.checks += 1
        cond = simp(cond) if is_sym(cond) else cond
        if cond is True:
            return True
        if cond is False:
            self.failures.append((role, desc, self.model_dict()))
            return False
        if self.ctx.check(z3.Not(bl(cond))):
            m = self.ctx.last_model
            self.failures.append((role, desc, self.model_dict(m)))
            # continue under the assumption that it holds (if possible)
            if self.ctx.check(bl(cond)):
                self.ctx.add(cond)
            return False
        return True

    def cover(self, label, cond=True):
        cond = simp(cond) if is_sym(cond) else cond
        if self.covers.get(label):
            return
        if cond is True:
            self.covers[label] = self.model_dict()
        elif cond is not False and self.ctx.check(bl(cond)):
            self.covers[label] = self.model_dict(self.ctx.last_model)
        else:
            self.covers.setdefault(label, None)

    def model_dict(self, m=None):
        if m is None:
            if not self.ctx.check():
                return {}
            m = self.ctx.last_model
        out = {}
        for name, term in self.inputs.items():
            if is_sym(term):
                v = m.eval(term, model_completion=True)
                try:
                    out[name] = v.as_long() if z3.is_bv_value(v) else bool(z3.is_true(v))
                except Exception:
                    out[name] = str(v)
        for i, t in enumerate(getattr(self.it, "clock_vars", [])):
            v = m.eval(t, model_completion=True)
            out[f"_now{i}"] = v.as_long() if z3.is_bv_value(v) else str(v)
        out["_choices"] = list(getattr(self, "choices", []))
        return out


def run_prefix(prog, driver, prefix, opts):
    ctx = PathCtx(prefix, timeout_ms=opts.get("solver_timeout_ms", 20000), seed=opts.get("seed", 0))
    it = Interp(prog, ctx, Models(), max_steps=opts.get("max_steps", 400000))
    h = Harness(it)
    h.params = opts.get("params", {})
    res = {"prefix": list(prefix), "status": "ok", "note": "", "failures": [], "covers": {}, "pending": [],
           "queries": 0, "solver_s": 0.0, "steps": 0, "checks": 0, "called": [], "models": []}
    try:
        driver(h)
    except PathAbort:
        res["status"] = "aborted"
    except Panic as p:
        # a panic that the driver did not catch: driver decides via h.panic_is_failure
        role = getattr(h, "panic_role", None)
        if role is None:
            res["status"] = "panic"
            res["note"] = str(p)
        else:
            h.failures.append((f"{role}|{p.kind}|{_fnshort(p.fn)}", f"panic: {p.msg} at {p.loc}", h.model_dict()))
    except Unsupported as u:
        res["status"] = "unsupported"
        res["note"] = str(u)
    except StepLimit as s:
        res["status"] = "unsupported"
        res["note"] = "step limit: " + str(s)
    except z3.Z3Exception as e:
        res["status"] = "unsupported"
        res["note"] = "z3: " + str(e)
    except Exception as e:
        res["status"] = "crash"
        res["note"] = "".join(traceback.format_exception_only(type(e), e)).strip() + " | " + traceback.format_exc()[-1500:]
    res["failures"] = h.failures
    res["covers"] = h.covers
    res["pending"] = ctx.pending
    res["queries"] = ctx.queries
    res["solver_s"] = ctx.solver_s
    res["steps"] = it.steps
    res["checks"] = h.checks
    res["called"] = sorted(it.called)
    res["models"] = sorted(it.models_used)
    res["trace_len"] = len(ctx.trace)
    res["fork_sites"] = ctx.fork_sites
    return res


def _fnshort(fn):
    import re
    return re.sub(r"<impl at [^>]*>", "<impl>", fn or "")


_G = {}


def _worker_init(mir_path, repo_core, driver_ref, opts):
    import importlib
    _G["prog"] = MirProgram(mir_path, repo_core)
    mod, name = driver_ref
    _G["driver"] = getattr(importlib.import_module(mod), name)
    _G["opts"] = opts


def _worker_run(prefix):
    return run_prefix(_G["prog"], _G["driver"], prefix, _G["opts"])


def explore(mir_path, repo_core, driver_ref, opts=None, workers=None, max_paths=20000, time_budget_s=600):
    """BFS over decision prefixes with a process pool. driver_ref = (module, function)."""
    opts = opts or {}
    workers = workers or max(1, min(14, (os.cpu_count() or 4) - 2))
    t0 = time.time()
    summary = {"paths": 0, "ok": 0, "aborted": 0, "panic": 0, "unsupported": 0, "crash": 0, "queries": 0, "solver_s": 0.0,
               "steps": 0, "checks": 0, "failures": [], "covers": {}, "called": set(), "models": set(),
               "notes": [], "complete": True, "samples": []}
    if workers == 1:
        _worker_init(mir_path, repo_core, driver_ref, opts)
        pool = None
    else:
        pool = mp.get_context("fork").Pool(workers, _worker_init, (mir_path, repo_core, driver_ref, opts))
    try:
        frontier = [[]]
        while frontier:
            if summary["paths"] >= max_paths or time.time() - t0 > time_budget_s:
                summary["complete"] = False
                summary["notes"].append(f"exploration budget exhausted with {len(frontier)} prefixes pending")
                break
            batch, frontier = frontier[:workers * 8], frontier[workers * 8:]
            results = [_worker_run(p) for p in batch] if pool is None else pool.map(_worker_run, batch, chunksize=1)
            for r in results:
                summary["paths"] += 1
                summary[r["status"]] = summary.get(r["status"], 0) + 1
                summary["queries"] += r["queries"]
                summary["solver_s"] += r["solver_s"]
                summary["steps"] += r["steps"]
                summary["checks"] += r["checks"]
                for k, v in r.get("fork_sites", {}).items():
                    summary.setdefault("fork_sites", {})[k] = summary.setdefault("fork_sites", {}).get(k, 0) + v
                summary["called"].update(r["called"])
                summary["models"].update(r["models"])
                for f in r["failures"]:
                    summary["failures"].append(f)
                for k, v in r["covers"].items():
                    if v and not summary["covers"].get(k):
                        summary["covers"][k] = v
                    else:
                        summary["covers"].setdefault(k, None)
                if r["status"] in ("unsupported", "crash", "panic"):
                    summary["notes"].append(f"{r['status']}: {r['note'][:600]} (prefix {r['prefix']})")
                if len(summary["samples"]) < 4 and r["status"] == "ok":
                    summary["samples"].append({"prefix": r["prefix"], "steps": r["steps"], "checks": r["checks"]})
                frontier.extend(r["pending"])
    finally:
        if pool is not None:
            pool.terminate()
    summary["wall_s"] = time.time() - t0
    summary["called"] = sorted(summary["called"])
    summary["models"] = sorted(summary["models"])
    return summary
