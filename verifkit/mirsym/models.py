"""Models of functions that live outside the rzmq crate (std, bytes, ...).

Each model is a few lines, produces solver terms, and is listed in the evidence
(`models_used`) whenever it is executed. Container lengths are concrete per path.
"""
from __future__ import annotations
import re
import z3
from .values import *

_EXACT = {}
_REGEX = []
_TRAIT = []   # (type_regex, trait_last, method, fn)


def model(*names):
    def deco(fn):
        for n in names:
            _EXACT[n] = fn
        return fn
    return deco


def model_re(pattern):
    def deco(fn):
        _REGEX.append((re.compile(pattern), fn))
        return fn
    return deco


def trait_model(type_re, trait, method):
    def deco(fn):
        _TRAIT.append((re.compile(type_re), trait, method, fn))
        return fn
    return deco


def _lastseg(t):
    return strip_generics(t or "").split("::")[-1]


class Models:
    def lookup(self, plain):
        cands = [plain]
        for a in ("std::", "core::", "alloc::"):
            if plain.startswith(a):
                cands += [b + plain[len(a):] for b in ("std::", "core::", "alloc::") if b != a]
        for c in cands:
            f = _EXACT.get(c)
            if f is not None:
                return f
        for c in cands:
            for rx, fn in _REGEX:
                if rx.match(c):
                    return fn
        return None

    def lookup_trait(self, ty, trait, method):
        tl = _lastseg(trait) if trait else None
        for rx, tr, me, fn in _TRAIT:
            if me == method and (tr is None or tr == tl) and rx.match(ty):
                return fn
        return None

    def const(self, it, c):
        if c in ("std::time::Duration::ZERO", "core::time::Duration::ZERO"):
            return mk_duration(0, 0)
        if c in ("std::time::Duration::MAX", "core::time::Duration::MAX"):
            return dur_ns(DMAX)
        m = re.match(r"^<.* as std::mem::SizedTypeProperties>::(ALIGN|SIZE|IS_ZST)$", c)
        if m:
            # only used by rustc's debug-profile pointer checks (alignment / null) on Box internals
            return {"ALIGN": 8, "SIZE": 8, "IS_ZST": False}[m.group(1)]
        m = re.match(r"^<(message::flags::(?:_::)?\w+) as bitflags::Flags>::FLAGS$", c)
        if m:
            # the table bitflags generates for the crate's flags type: &[Flag { name, value }]; read from the source
            import os as _os
            src = open(_os.path.join(it.prog.repo_core, "src", "message", "flags.rs")).read()
            ty = m.group(1)
            fn = it.resolve_fn(f"message::flags::_::<impl {ty}>::from_bits_retain", "")
            if fn is not None:
                items = []
                for mm in re.finditer(r"const\s+(\w+)\s*=\s*0b([01]+)\s*;", src):
                    val = it.run_body(it.prog.body(fn), [int(mm.group(2), 2)])
                    items.append(Agg("bitflags::Flag", [Seq("str", list(mm.group(1).encode())), val]))
                arr = Seq("array", items, "bitflags::Flag")
                return SliceRef(arr, 0, len(items))
        m = re.match(r"^<(u\d+|usize) as bitflags::Bits>::(EMPTY|ALL)$", c)
        if m:
            return 0 if m.group(2) == "EMPTY" else (1 << int_width(m.group(1))) - 1
        return None

    def extern_enum(self, ety):
        return EXTERN_ENUMS.get(_lastseg(ety))


EXTERN_ENUMS = {}

# ------------------------------------------------------------------------------------------
from .interp import Panic, Unsupported, PathAbort, runtime_type, elem_type, deref_type, _last  # noqa: E402


def some(v, ty="std::option::Option"):
    return Enum(ty, 1, "Some", [v])


def none(ty="std::option::Option"):
    return Enum(ty, 0, "None", [])


def ok(v):
    return Enum("std::result::Result", 0, "Ok", [v])


def err(v):
    return Enum("std::result::Result", 1, "Err", [v])


def seq_of(v):
    """the Seq behind a value / pointer"""
    if isinstance(v, Seq):
        return v
    if isinstance(v, Ref):
        return seq_of(v.load())
    raise Unsupported(f"expected sequence, got {v!r}")


def as_slice(v):
    """normalise &[T]-like arguments to SliceRef"""
    if isinstance(v, SliceRef):
        return v
    if isinstance(v, Ref):
        t = v.load()
        if isinstance(t, Seq):
            return SliceRef(v, 0, len(t.f), t.kind in ("str", "string"))
        if isinstance(t, (Ref, SliceRef)):
            return as_slice(t)
    if isinstance(v, Seq):
        return SliceRef(Ref(Cell(v, "tmp"), ()), 0, len(v.f), v.kind in ("str", "string"))
    raise Unsupported(f"expected slice, got {v!r}")


def new_seq_ref(kind, items, elem_ty="u8"):
    return Ref(Cell(Seq(kind, list(items), elem_ty), kind), ())


NS = 1_000_000_000
DMAX = ((1 << 64) - 1) * NS + 999_999_999          # Duration::MAX in nanoseconds
IMAX = ((1 << 63) - 1) * NS + 999_999_999          # largest Instant (i64 seconds)


def mk_duration(secs, nanos=0):
    """Duration/Instant are modelled as one 128-bit nanosecond count (int or BV128)"""
    if isinstance(secs, int) and isinstance(nanos, int):
        return Agg("std::time::Duration", [secs * NS + nanos])
    return Agg("std::time::Duration", [simp(z3.ZeroExt(64, bv(secs, 64)) * NS + z3.ZeroExt(96, bv(nanos, 32)))])


def dur_ns(ns):
    return Agg("std::time::Duration", [ns])


def instant_ns(ns):
    return Agg("std::time::Instant", [ns])


def bytes_eq(it, xs, ys):
    if len(xs) != len(ys):
        return False
    conds = []
    for a, b in zip(xs, ys):
        if isinstance(a, int) and isinstance(b, int):
            if a != b:
                return False
        else:
            conds.append(bv(a, 8) == bv(b, 8))
    if not conds:
        return True
    return simp(z3.And(conds))


# --- panics -----------------------------------------------------------------------------------
@model_re(r"^(core|std)::panicking::(panic|panic_fmt|panic_display|panic_explicit|panic_str|unreachable_display|panic_nounwind|panic_const::.*|panic_bounds_check|assert_failed|assert_failed_inner)$")
def _panic(it, args, dty, func):
    msg = ""
    for a in args:
        if isinstance(a, SliceRef) and a.is_str:
            msg = bytes(x for x in a.items() if isinstance(x, int)).decode(errors="replace")
    raise Panic("panic", msg or func)


@model_re(r"^(core|std)::(option|result)::(unwrap_failed|expect_failed)$")
def _unwrap_failed(it, args, dty, func):
    raise Panic("unwrap", func)


@model_re(r"^(core|std)::slice::index::slice_(start|end)_index_(len|overflow)_fail$|^(core|std)::slice::index::slice_index_order_fail$|^core::slice::index::slice_index_fail$")
def _slice_fail(it, args, dty, func):
    raise Panic("bounds", func)


# --- Option / Result --------------------------------------------------------------------------
def _is_variant(v, idx):
    return isinstance(v, Enum) and v.idx == idx


@model("std::option::Option::unwrap", "core::option::Option::unwrap", "std::option::Option::expect")
def _opt_unwrap(it, args, dty, func):
    o = args[0]
    if o.idx == 0:
        raise Panic("unwrap", "called `Option::unwrap()` on a `None` value")
    return o.f[0]


@model("std::result::Result::unwrap", "std::result::Result::expect")
def _res_unwrap(it, args, dty, func):
    r = args[0]
    if r.idx != 0:
        raise Panic("unwrap", "called `Result::unwrap()` on an `Err` value")
    return r.f[0]


@model("std::result::Result::unwrap_err", "std::result::Result::expect_err")
def _res_unwrap_err(it, args, dty, func):
    r = args[0]
    if r.idx != 1:
        raise Panic("unwrap", "called `Result::unwrap_err()` on an `Ok` value")
    return r.f[0]


@model("std::option::Option::unwrap_or", "std::result::Result::unwrap_or")
def _unwrap_or(it, args, dty, func):
    o = args[0]
    if isinstance(o, Enum) and ((o.vname in ("Some", "Ok"))):
        return o.f[0]
    return args[1]


@model("std::option::Option::unwrap_or_default", "std::result::Result::unwrap_or_default")
def _unwrap_or_default(it, args, dty, func):
    o = args[0]
    if o.vname in ("Some", "Ok"):
        return o.f[0]
    return default_of(it, dty)


@model("std::option::Option::unwrap_or_else", "std::result::Result::unwrap_or_else")
def _unwrap_or_else(it, args, dty, func):
    o = args[0]
    if o.vname in ("Some", "Ok"):
        return o.f[0]
    return it.call_closure(args[1], Agg("tuple", list(o.f)), dty)


@model("std::option::Option::is_some")
def _is_some(it, args, dty, func):
    return _deref(args[0]).idx == 1


@model("std::option::Option::is_none")
def _is_none(it, args, dty, func):
    return _deref(args[0]).idx == 0


@model("std::result::Result::is_ok")
def _is_ok(it, args, dty, func):
    return _deref(args[0]).idx == 0


@model("std::result::Result::is_err")
def _is_err(it, args, dty, func):
    return _deref(args[0]).idx == 1


def _deref(v):
    while isinstance(v, Ref):
        v = v.load()
    return v


@model("std::option::Option::map", "std::result::Result::map")
def _map(it, args, dty, func):
    o = args[0]
    if o.vname in ("Some", "Ok"):
        r = it.call_closure(args[1], Agg("tuple", [o.f[0]]), "")
        return Enum(o.ty, o.idx, o.vname, [r])
    return o


@model("std::result::Result::map_err")
def _map_err(it, args, dty, func):
    o = args[0]
    if o.vname == "Err":
        r = it.call_closure(args[1], Agg("tuple", [o.f[0]]), "")
        return Enum(o.ty, o.idx, o.vname, [r])
    return o


@model("std::option::Option::and_then", "std::result::Result::and_then")
def _and_then(it, args, dty, func):
    o = args[0]
    if o.vname in ("Some", "Ok"):
        return it.call_closure(args[1], Agg("tuple", [o.f[0]]), dty)
    return o


@model("std::option::Option::map_or", "std::result::Result::map_or")
def _map_or(it, args, dty, func):
    o = args[0]
    if o.vname in ("Some", "Ok"):
        return it.call_closure(args[2], Agg("tuple", [o.f[0]]), dty)
    return args[1]


@model("std::option::Option::map_or_else")
def _map_or_else(it, args, dty, func):
    o = args[0]
    if o.vname == "Some":
        return it.call_closure(args[2], Agg("tuple", [o.f[0]]), dty)
    return it.call_closure(args[1], Agg("tuple", []), dty)


@model("std::option::Option::ok_or")
def _ok_or(it, args, dty, func):
    o = args[0]
    return ok(o.f[0]) if o.idx == 1 else err(args[1])


@model("std::option::Option::ok_or_else")
def _ok_or_else(it, args, dty, func):
    o = args[0]
    return ok(o.f[0]) if o.idx == 1 else err(it.call_closure(args[1], Agg("tuple", []), ""))


@model("std::result::Result::ok")
def _res_ok(it, args, dty, func):
    o = args[0]
    return some(o.f[0]) if o.idx == 0 else none()


@model("std::option::Option::as_ref", "std::option::Option::as_mut")
def _as_ref(it, args, dty, func):
    r = args[0]
    o = r.load()
    return some(r.child(0)) if o.idx == 1 else none()


@model("std::result::Result::as_ref", "std::result::Result::as_mut")
def _result_as_ref(it, args, dty, func):
    r = args[0]
    o = r.load()
    return Enum("std::result::Result", o.idx, o.vname, [r.child(0)])


@model("std::option::Option::as_deref", "std::option::Option::as_deref_mut")
def _as_deref(it, args, dty, func):
    r = args[0]
    o = r.load()
    if o.idx == 0:
        return none()
    inner = o.f[0]
    if isinstance(inner, Seq):
        return some(SliceRef(r.child(0), 0, len(inner.f), inner.kind == "string"))
    if isinstance(inner, (Ref, SliceRef)):
        return some(inner)
    return some(r.child(0))


@model("std::option::Option::take")
def _take(it, args, dty, func):
    r = args[0]
    o = r.load()
    r.store(none(o.ty))
    return o


@model("std::option::Option::replace")
def _opt_replace(it, args, dty, func):
    r = args[0]
    o = r.load()
    r.store(some(args[1], o.ty))
    return o


@model("std::option::Option::copied", "std::option::Option::cloned")
def _copied(it, args, dty, func):
    o = args[0]
    if o.idx == 0:
        return o
    inner = o.f[0]
    tgt = inner.load() if isinstance(inner, Ref) else inner      # one level only: &Arc<T> -> Arc<T> (shared)
    return some(clone_val(tgt), o.ty)


@model("std::mem::replace", "core::mem::replace")
def _mem_replace(it, args, dty, func):
    r = args[0]
    old = r.load()
    r.store(args[1])
    return old


@model("std::mem::take", "core::mem::take")
def _mem_take(it, args, dty, func):
    r = args[0]
    old = r.load()
    r.store(default_like(it, old, dty))
    return old


@model("std::mem::swap", "core::mem::swap")
def _mem_swap(it, args, dty, func):
    a, b = args[0].load(), args[1].load()
    args[0].store(b)
    args[1].store(a)
    return UNIT


@model("std::mem::drop", "core::mem::drop", "std::mem::forget")
def _drop(it, args, dty, func):
    v = args[0] if args else None
    if "forget" not in func and isinstance(v, Agg) and v.ty in MODEL_DROPS:
        MODEL_DROPS[v.ty](it, v)                      # e.g. an explicit drop(guard) releases the modelled async mutex
    return UNIT


def default_like(it, old, ty):
    if isinstance(old, Seq):
        return Seq(old.kind, [], old.elem_ty)
    if isinstance(old, Enum) and _last(old.ty) == "Option":
        return none(old.ty)
    if isinstance(old, bool):
        return False
    if isinstance(old, int) or is_sym(old):
        return 0
    return default_of(it, ty)


def default_of(it, ty):
    t = strip_generics(ty)
    w = int_width(t)
    if t == "bool":
        return False
    if w:
        return 0
    if t.endswith("Option"):
        return none()
    if t.endswith("::Vec"):
        return Seq("vec", [], elem_type(ty))
    if t.endswith("String"):
        return Seq("string", [])
    if t.endswith("Bytes"):
        return Seq("bytes", [])
    if t.endswith("BytesMut"):
        return Seq("bytesmut", [])
    if t.endswith("HashMap") or t.endswith("HashSet") or t.endswith("BTreeMap"):
        return MapV("HashMap", [])
    if re.search(r"Atomic\w*$", t) or t.endswith("atomic::Atomic"):
        return Agg("{atomic}", [False if t.endswith("Bool") else 0])
    m = re.match(r"^(std::sync::Arc|std::boxed::Box|std::rc::Rc)<(.*)>$", ty.strip())
    if m:
        return BoxV(Cell(default_of(it, m.group(2)), "heap"), ())
    m = re.match(r"^(?:parking_lot::|lock_api::|std::sync::)*(?:rwlock::|mutex::)?(?:RwLock|Mutex)<(?:parking_lot::\w+, )?(.*)>$", ty.strip())
    if m:
        return Agg("{lock}", [default_of(it, m.group(1))])
    # crate struct with #[derive(Default)]: field-wise default from the MIR of its derived impl
    fn = it.prog.resolve_method("", t, "default", "Default")
    if fn:
        return it.run_body(it.prog.body(fn), [])
    raise Unsupported("default of " + ty)


@trait_model(r".*", "Default", "default")
def _default(it, args, dty, func):
    return default_of(it, dty)


# --- Try / From / Into / Clone / Deref ----------------------------------------------------------
@trait_model(r"^std::(option::Option|result::Result)", "Try", "branch")
def _try_branch(it, args, dty, func):
    o = args[0]
    if o.vname in ("Some", "Ok"):
        return Enum("std::ops::ControlFlow", 0, "Continue", [o.f[0]])
    return Enum("std::ops::ControlFlow", 1, "Break", [Enum(o.ty, o.idx, o.vname, list(o.f))])


@trait_model(r"^std::(option::Option|result::Result)", "FromResidual", "from_residual")
def _from_residual(it, args, dty, func):
    r = args[0]
    if r.vname == "None":
        return none()
    # Result: convert the error with From (identity for same types; crate From impls otherwise)
    e = r.f[0]
    return err(convert_from(it, e, dty))


def convert_from(it, e, dty):
    src = runtime_type(e)
    m = re.search(r"Result<.*,\s*(.*)>$", dty)
    dst = strip_generics(split_top_last(dty)) if m else None
    if src and dst and _last(src) != _last(dst):
        fn = None
        for name in it.prog.methods.get("from", []):
            tag = re.search(r"<(impl at [^>]*)>", name).group(1)
            tr, ty = it.prog.impl_info(tag)
            if tr and ty and _last(ty) == _last(dst) and _last(src) in tr:
                fn = name
                break
        if fn:
            return it.run_body(it.prog.body(fn), [e])
    return e


def split_top_last(dty):
    from .parser import split_top
    inner = dty[dty.index("<") + 1:dty.rindex(">")]
    return split_top(inner)[-1]


@trait_model(r".*", "Into", "into")
@trait_model(r".*", "From", "from")
def _into(it, args, dty, func):
    v = args[0]
    d = strip_generics(dty)
    if not d:
        mm = re.match(r"^<(.*?) as (?:std|core)::convert::From<", func)
        if mm:
            d = strip_generics(mm.group(1))
    if isinstance(v, SliceRef) and d.endswith("String"):
        return Seq("string", list(v.items()))
    if isinstance(v, SliceRef) and d.endswith("::Vec"):
        return Seq("vec", list(v.items()), "u8")
    if isinstance(v, SliceRef) and d.endswith("Bytes"):
        return Seq("bytes", list(v.items()))
    if isinstance(v, SliceRef) and d.endswith("BytesMut"):
        return Seq("bytesmut", list(v.items()))
    if isinstance(v, Ref) and isinstance(v.load(), Seq) and d.endswith(("Bytes", "::Vec", "BytesMut")):
        s = v.load()
        return Seq({"Bytes": "bytes", "Vec": "vec", "BytesMut": "bytesmut"}[_last(d)], list(s.f), s.elem_ty)
    if isinstance(v, Seq):
        if d.endswith("Bytes"):
            return Seq("bytes", list(v.f))
        if d.endswith("::Vec") and v.elem_ty == "u8":
            return Seq("vec", list(v.f))
        if d.endswith("String"):
            return Seq("string", list(v.f))
        if d.endswith("BytesMut"):
            return Seq("bytesmut", list(v.f))
        if d.endswith("Box<[u8]>") or d.endswith("Arc<[u8]>"):
            return v
    # crate From impls: <Dst as From<Src>>::from
    src = runtime_type(v)
    src_is_crate = bool(src) and "::" in src and not src.startswith(("std::", "core::", "alloc::", "bytes::", "{"))
    if ("::" in d and not d.startswith(("std::", "core::", "alloc::", "bytes::"))) or src_is_crate:
        for name in it.prog.methods.get("from", []):
            tag = re.search(r"<(impl at [^>]*)>", name).group(1)
            tr, ty = it.prog.impl_info(tag)
            if tr and ty and _last(ty) == _last(d):
                want = re.search(r"From<(.*)>", tr)
                if want and src and _last(want.group(1)) == _last(src):
                    if __import__("os").environ.get("MIRSYM_DEBUG"):
                        print("From impl", name[:120], "src", src, "v", repr(v)[:100], "func", func[:200], "dty", dty[:80])
                    return it.run_body(it.prog.body(name), [v])
        # fall through: same type
    w = int_width(d)
    if w and (isinstance(v, int) or is_sym(v)):
        if is_sym(v) and not z3.is_bool(v) and v.size() < w:
            return z3.ZeroExt(w - v.size(), v)
        if is_sym(v) and z3.is_bool(v):
            return bv(v, w)
        return int(v) if isinstance(v, bool) else v
    return v


@trait_model(r".*", "Clone", "clone")
def _clone(it, args, dty, func):
    v = args[0]
    t = v.load() if isinstance(v, Ref) else v
    if isinstance(t, Agg) and t.ty in ("{chan.tx}", "{chan.rx}"):
        return _chan_clone(it, args, dty, func)          # a new handle of the same channel (handle counting)
    if isinstance(t, (Agg, Enum)) and "::" in t.ty and not t.ty.startswith(("std::", "core::", "alloc::", "{")):
        fn = it.prog.resolve_method("", t.ty, "clone", "Clone")
        if fn and "impl at" in fn:
            tag = re.search(r"<(impl at [^>]*)>", fn).group(1)
            raw = it.prog._raw_line(*_tagpos(tag))
            if "derive" not in raw:
                return it.run_body(it.prog.body(fn), [v])
    if isinstance(t, (Ref, SliceRef)):
        return t
    c = clone_val(t)
    _count_new_handles(c)
    return c


def _count_new_handles(v, depth=0):
    """a (derived) Clone of a value that contains channel handles creates new handles of those channels"""
    if depth > 6:
        return
    if isinstance(v, Agg) and v.ty in ("{chan.tx}", "{chan.rx}"):
        ch = v.f[0]
        if hasattr(ch, "senders"):
            if len(v.f) > 1:
                v.f[1] = False
            if v.ty == "{chan.tx}":
                ch.senders += 1
            else:
                ch.receivers += 1
        return
    if isinstance(v, (Agg, Enum)):
        fs = v.f.values() if isinstance(v.f, SparseF) else v.f
        for x in fs:
            _count_new_handles(x, depth + 1)
    elif isinstance(v, Seq) and v.elem_ty != "u8":
        for x in v.f:
            _count_new_handles(x, depth + 1)


def _tagpos(tag):
    m = re.match(r"impl at (.*?):(\d+):", tag)
    return m.group(1), int(m.group(2))


@trait_model(r".*", "ToOwned", "to_owned")
def _to_owned(it, args, dty, func):
    v = args[0]
    if isinstance(v, SliceRef):
        return Seq("string" if v.is_str else "vec", list(v.items()))
    return clone_val(_deref(v))


@trait_model(r".*", "ToString", "to_string")
def _to_string(it, args, dty, func):
    v = args[0]
    if isinstance(v, SliceRef) and v.is_str:
        return Seq("string", list(v.items()))
    t = _deref(v)
    if isinstance(t, Seq) and t.kind in ("string", "str"):
        return Seq("string", list(t.f))
    return Opaque("to_string")


@trait_model(r".*", "Deref", "deref")
@trait_model(r".*", "DerefMut", "deref_mut")
@trait_model(r".*", "AsRef", "as_ref")
@trait_model(r".*", "AsMut", "as_mut")
@trait_model(r".*", "Borrow", "borrow")
def _deref_model(it, args, dty, func):
    v = args[0]
    t = v.load() if isinstance(v, Ref) else v
    # `<&mut T as AsRef<U>>::as_ref(&&mut T)`: peel plain references down to the container
    while isinstance(t, Ref) and not isinstance(t, BoxV) and isinstance(t.load(), (Seq, Ref)):
        v, t = t, t.load()
    if isinstance(t, Agg) and t.ty == "{amutex.guard}":
        # guard of the modelled async mutex: a reference to the protected value
        m = t.f[0]
        while isinstance(m, Ref) and not (isinstance(m.load(), Agg) and m.load().ty == "{amutex}"):
            m = m.load()
        return m.child(1)
    if isinstance(t, Seq):
        return SliceRef(v, 0, len(t.f), t.kind in ("string", "str"))
    if isinstance(t, (Ref, SliceRef)):     # Box<T>, Arc<T>, &T
        return t
    if isinstance(t, (Agg, Enum)) and "::" in t.ty and not t.ty.startswith(("std::", "core::")):
        m = re.search(r"::(\w+)$", strip_generics(func))
        fn = it.prog.resolve_method("", t.ty, m.group(1), None)
        if fn:
            return it.run_body(it.prog.body(fn), [v])
    return v


# --- slices -----------------------------------------------------------------------------------
@model("core::slice::<impl [T]>::len", "core::str::<impl str>::len",
       "std::vec::Vec::len", "bytes::Bytes::len", "bytes::BytesMut::len", "std::string::String::len",
       "std::collections::VecDeque::len")
def _len(it, args, dty, func):
    v = args[0]
    if isinstance(v, SliceRef):
        return v.len
    return len(seq_of(v).f)


@model("core::slice::<impl [T]>::is_empty", "core::str::<impl str>::is_empty", "std::vec::Vec::is_empty",
       "bytes::Bytes::is_empty", "bytes::BytesMut::is_empty", "std::string::String::is_empty",
       "std::collections::VecDeque::is_empty")
def _is_empty(it, args, dty, func):
    v = args[0]
    if isinstance(v, SliceRef):
        return v.len == 0
    return len(seq_of(v).f) == 0


@model("core::slice::<impl [T]>::starts_with", "core::str::<impl str>::starts_with")       # str: with a &str pattern (same bytes)
def _starts_with(it, args, dty, func):
    a, b = as_slice(args[0]), as_slice(args[1])
    if b.len > a.len:
        return False
    return bytes_eq(it, a.items()[:b.len], b.items())


@model("core::slice::<impl [T]>::to_vec")
def _to_vec(it, args, dty, func):
    s = as_slice(args[0])
    return Seq("vec", [clone_val(x) for x in s.items()], "u8")


@model("core::slice::<impl [T]>::copy_from_slice")
def _copy_from_slice(it, args, dty, func):
    d, s = as_slice(args[0]), as_slice(args[1])
    if d.len != s.len:
        raise Panic("bounds", "source slice length does not match destination slice length")
    for i, x in enumerate(s.items()):
        d.set(i, x)
    return UNIT


@model("core::slice::<impl [T]>::first", "core::slice::<impl [T]>::last")
def _first_last(it, args, dty, func):
    s = as_slice(args[0])
    if s.len == 0:
        return none()
    return some(s.elem_ref(0 if func.endswith("first") else s.len - 1))


@model("core::slice::<impl [T]>::get")
def _slice_get(it, args, dty, func):
    s = as_slice(args[0])
    i = args[1]
    if isinstance(i, int):
        return some(s.elem_ref(i)) if i < s.len else none()
    raise Unsupported("slice get with non-index")


@model("core::slice::<impl [T]>::iter", "core::slice::<impl [T]>::iter_mut")
def _slice_iter(it, args, dty, func):
    s = as_slice(args[0])
    return Agg("{iter}", [s, 0])


@model("core::slice::<impl [T]>::split_at")
def _split_at(it, args, dty, func):
    s = as_slice(args[0])
    m = args[1]
    if not isinstance(m, int):
        raise Unsupported("symbolic split_at")
    if m > s.len:
        raise Panic("bounds", "mid > len")
    return Agg("tuple", [SliceRef(s.base, s.start, m, s.is_str), SliceRef(s.base, s.start + m, s.len - m, s.is_str)])


def range_bounds(it, rng, n):
    """(start, end) of a Range* value against length n, with std's panics"""
    t = _last(rng.ty) if isinstance(rng, Agg) else "?"
    def c(x):
        x = simp(x)
        if not isinstance(x, int):
            # fork over feasible concrete values 0..n+1 (anything larger panics alike)
            ch = it.ctx.switch(x, list(range(n + 1)))
            return n + 1 if ch == "otherwise" else ch
        return x
    if t == "RangeFull":
        return 0, n
    if t == "RangeFrom":
        s = c(rng.f[0])
        if s > n:
            raise Panic("bounds", f"range start index {s} out of range for slice of length {n}")
        return s, n
    if t == "RangeTo":
        e = c(rng.f[0])
        if e > n:
            raise Panic("bounds", f"range end index {e} out of range for slice of length {n}")
        return 0, e
    if t == "Range":
        s, e = c(rng.f[0]), c(rng.f[1])
        if s > e:
            raise Panic("bounds", f"slice index starts at {s} but ends at {e}")
        if e > n:
            raise Panic("bounds", f"range end index {e} out of range for slice of length {n}")
        return s, e
    if t == "RangeInclusive":
        s, e = c(rng.f[0]), c(rng.f[1]) + 1
        if s > e:
            raise Panic("bounds", "slice index order")
        if e > n:
            raise Panic("bounds", f"range end index {e} out of range for slice of length {n}")
        return s, e
    if t == "RangeToInclusive":
        e = c(rng.f[0]) + 1
        if e > n:
            raise Panic("bounds", "range end out of range")
        return 0, e
    raise Unsupported("range type " + t)


@trait_model(r".*", "Index", "index")
@trait_model(r".*", "IndexMut", "index_mut")
def _index(it, args, dty, func):
    base, idx = args[0], args[1]
    t = base.load() if isinstance(base, Ref) else base
    if isinstance(t, (Agg, Enum)) and "::" in getattr(t, "ty", "") and not t.ty.startswith(("std::", "core::", "{")):
        me = "index_mut" if "index_mut" in func else "index"
        fn = it.prog.resolve_method("", t.ty, me, "IndexMut" if me == "index_mut" else "Index")
        if fn:
            return it.run_body(it.prog.body(fn), list(args))
    if isinstance(t, MapV):
        r = map_find(it, t, idx)
        if r is None:
            raise Panic("index", "key not found in map")
        return r
    s = as_slice(base)
    if isinstance(idx, Agg) and _last(idx.ty).startswith("Range"):
        a, b = range_bounds(it, idx, s.len)
        return SliceRef(s.base, s.start + a, b - a, s.is_str)
    i = simp(idx)
    if not isinstance(i, int):
        ch = it.ctx.switch(i, list(range(s.len)))
        if ch == "otherwise":
            raise Panic("bounds", f"index out of bounds: the len is {s.len}")
        i = ch
    if i >= s.len:
        raise Panic("bounds", f"index out of bounds: the len is {s.len} but the index is {i}")
    return s.elem_ref(i)


@trait_model(r".*", "PartialEq", "eq")
@trait_model(r".*", "PartialEq", "ne")
def _eq(it, args, dty, func):
    r = val_eq(it, args[0], args[1])
    if func.endswith("::ne"):
        return simp(z3.Not(r)) if is_sym(r) else (not r)
    return r


def val_eq(it, a, b):
    a0, b0 = a, b
    while isinstance(a, Ref):
        a = a.load()
    while isinstance(b, Ref):
        b = b.load()
    if isinstance(a, (SliceRef, Seq)) or isinstance(b, (SliceRef, Seq)):
        xa = a.items() if isinstance(a, SliceRef) else a.f
        xb = b.items() if isinstance(b, SliceRef) else b.f
        if xa and not (isinstance(xa[0], (int, bool)) or is_sym(xa[0])):
            if len(xa) != len(xb):
                return False
            conds = [val_eq(it, x, y) for x, y in zip(xa, xb)]
            return conj(conds)
        return bytes_eq(it, list(xa), list(xb))
    if isinstance(a, Enum) and isinstance(b, Enum):
        if a.idx != b.idx:
            return False
        return conj([val_eq(it, x, y) for x, y in zip(a.f, b.f)])
    if isinstance(a, Agg) and isinstance(b, Agg):
        if "::" in a.ty and not a.ty.startswith(("std::", "core::", "{", "(")):
            fn = it.prog.resolve_method("", a.ty, "eq", "PartialEq")
            if fn:
                tag = re.search(r"<(impl at [^>]*)>", fn).group(1)
                if "derive" not in it.prog._raw_line(*_tagpos(tag)):
                    ra = a0 if isinstance(a0, Ref) else Ref(Cell(a, "eqa"), ())
                    rb = b0 if isinstance(b0, Ref) else Ref(Cell(b, "eqb"), ())
                    return it.run_body(it.prog.body(fn), [ra, rb])
        return conj([val_eq(it, x, y) for x, y in zip(a.f, b.f)])
    if isinstance(a, bool) and isinstance(b, bool):
        return a == b
    if (isinstance(a, int) or is_sym(a)) and (isinstance(b, int) or is_sym(b)):
        if isinstance(a, int) and isinstance(b, int):
            return a == b
        if is_sym(a) and z3.is_bool(a) or is_sym(b) and z3.is_bool(b):
            return simp(bl(a) == bl(b))
        w = a.size() if is_sym(a) else b.size()
        return simp(bv(a, w) == bv(b, w))
    raise Unsupported(f"eq of {a!r} and {b!r}")


def conj(conds):
    out = []
    for c in conds:
        if c is False:
            return False
        if c is True:
            continue
        out.append(bl(c))
    if not out:
        return True
    return simp(z3.And(out))


# --- iterators (slice / Vec / range), driven by MIR `next` calls ---------------------------------
@trait_model(r".*", "IntoIterator", "into_iter")
def _into_iter(it, args, dty, func):
    v = args[0]
    t = v.load() if isinstance(v, Ref) else v
    if isinstance(t, Agg) and t.ty in ("{iter}", "{range}", "{owned_iter}", "{map_iter}", "{enumerate}", "{zip}", "{rev}", "{chunks}"):
        return t
    if isinstance(t, Agg) and _last(t.ty) == "Range":
        return Agg("{range}", [t.f[0], t.f[1]])
    if isinstance(t, Agg) and _last(t.ty) == "RangeInclusive":
        return Agg("{range}", [t.f[0], t.f[1] + 1])
    if isinstance(t, (Agg, Enum)) and "::" in t.ty and not t.ty.startswith(("std::", "core::", "{")):
        fn = it.prog.resolve_method("", t.ty if not isinstance(v, Ref) else t.ty, "into_iter", "IntoIterator")
        # pick the impl matching by-ref vs by-value through the parameter type
        for name in it.prog.methods.get("into_iter", []):
            tag = re.search(r"<(impl at [^>]*)>", name).group(1)
            tr, ty = it.prog.impl_info(tag)
            if ty and _last(ty) == _last(t.ty) and (ty.strip().startswith("&") == isinstance(v, Ref)):
                fn = name
                break
        if fn:
            return it.run_body(it.prog.body(fn), [v])
    if isinstance(v, SliceRef):
        return Agg("{iter}", [v, 0])
    if isinstance(v, Ref) and isinstance(t, Seq):
        return Agg("{iter}", [SliceRef(v, 0, len(t.f)), 0])
    if isinstance(t, Seq):
        return Agg("{owned_iter}", [t, 0])
    if isinstance(t, MapV):
        return Agg("{owned_iter}", [Seq("vec", [Agg("tuple", [k, x]) for k, x in t.items], "?"), 0])
    raise Unsupported(f"into_iter of {t!r}")


@trait_model(r".*", "Iterator", "next")
def _iter_next(it, args, dty, func):
    r = args[0]
    s = r.load()
    if isinstance(s, (Agg, Enum)) and "::" in s.ty and not s.ty.startswith(("std::", "core::", "{")):
        fn = it.prog.resolve_method("", s.ty, "next", "Iterator")
        if fn:
            return it.run_body(it.prog.body(fn), [r])
    return iter_next(it, s)


def iter_next(it, s):
    if s.ty == "{iter}":
        sl, i = s.f
        if i >= sl.len:
            return none()
        s.f[1] = i + 1
        return some(sl.elem_ref(i))
    if s.ty == "{owned_iter}":
        q, i = s.f
        if i >= len(q.f):
            return none()
        s.f[1] = i + 1
        return some(q.f[i])
    if s.ty == "{range}":
        a, b = s.f
        if not (isinstance(a, int) and isinstance(b, int)):
            lt = it.ctx.branch(z3.ULT(bv(a, 64), bv(b, 64)))
            if not lt:
                return none()
            s.f[0] = simp(bv(a, 64) + 1)
            return some(a)
        if a >= b:
            return none()
        s.f[0] = a + 1
        return some(a)
    if s.ty == "{enumerate}":
        inner, n = s.f
        x = iter_next(it, inner)
        if x.idx == 0:
            return x
        s.f[1] = n + 1
        return some(Agg("tuple", [n, x.f[0]]))
    if s.ty == "{map_iter}":
        inner, clos = s.f
        x = iter_next(it, inner)
        if x.idx == 0:
            return x
        return some(it.call_closure(clos, Agg("tuple", [x.f[0]]), ""))
    if s.ty == "{zip}":
        a, b = s.f
        x = iter_next(it, a)
        if x.idx == 0:
            return x
        y = iter_next(it, b)
        if y.idx == 0:
            return y
        return some(Agg("tuple", [x.f[0], y.f[0]]))
    if s.ty == "{rev}":
        sl, i = s.f      # i counts from the end
        if i >= sl.len:
            return none()
        s.f[1] = i + 1
        return some(sl.elem_ref(sl.len - 1 - i))
    # an iterator type defined by the crate: run its own `next` from the MIR
    if isinstance(s, Agg) and "::" in str(s.ty) and not str(s.ty).startswith("{"):
        fn = it.prog.resolve_method("", strip_generics(s.ty), "next", "Iterator")
        if fn is not None:
            return it.run_body(it.prog.body(fn), [Ref(Cell(s, "iter"), ())])
    raise Unsupported("iterator " + s.ty)


@trait_model(r".*", "Iterator", "enumerate")
def _enumerate(it, args, dty, func):
    return Agg("{enumerate}", [args[0], 0])


@trait_model(r".*", "Iterator", "map")
def _iter_map(it, args, dty, func):
    return Agg("{map_iter}", [args[0], args[1]])


@trait_model(r".*", "Iterator", "rev")
def _iter_rev(it, args, dty, func):
    s = args[0]
    if s.ty == "{iter}":
        return Agg("{rev}", [s.f[0], 0])
    raise Unsupported("rev of " + s.ty)


def iter_all(it, s):
    out = []
    while True:
        x = iter_next(it, s) if s.ty.startswith("{") else None
        if x is None:
            raise Unsupported("iterate " + s.ty)
        if x.idx == 0:
            return out
        out.append(x.f[0])


def iter_all_any(it, s):
    """like iter_all, also for iterators defined by the crate (their own `next` is executed)"""
    out = []
    for _ in range(4096):
        x = iter_next(it, s)
        if x is None:
            raise Unsupported("iterate " + str(getattr(s, "ty", s)))
        if x.idx == 0:
            return out
        out.append(x.f[0])
    raise Unsupported("iterator does not end")


@trait_model(r".*", "Iterator", "flat_map")
def _iter_flat_map(it, args, dty, func):
    """eager: the closure is applied to every item of the outer iterator and the inner iterators are drained in order
    (sound for the pure size computations this is used in; the items are handed out by an owned iterator)"""
    outer = args[0].load() if isinstance(args[0], Ref) else args[0]
    items = []
    for x in iter_all_any(it, outer):
        inner = it.call_closure(args[1], Agg("tuple", [x]), "")
        inner = inner.load() if isinstance(inner, Ref) else inner
        items.extend(iter_all_any(it, inner))
    return Agg("{owned_iter}", [Seq("vec", items, "?"), 0])


@trait_model(r".*", "Iterator", "any")
def _iter_any(it, args, dty, func):
    s = args[0].load() if isinstance(args[0], Ref) else args[0]
    for x in iter_all(it, s):
        if it.ctx.branch(it.call_closure(args[1], Agg("tuple", [x]), "bool")):
            return True
    return False


@trait_model(r".*", "Iterator", "all")
def _iter_allp(it, args, dty, func):
    s = args[0].load() if isinstance(args[0], Ref) else args[0]
    for x in iter_all(it, s):
        if not it.ctx.branch(it.call_closure(args[1], Agg("tuple", [x]), "bool")):
            return False
    return True


@trait_model(r".*", "Iterator", "position")
def _iter_position(it, args, dty, func):
    s = args[0].load() if isinstance(args[0], Ref) else args[0]
    for i, x in enumerate(iter_all(it, s)):
        if it.ctx.branch(it.call_closure(args[1], Agg("tuple", [x]), "bool")):
            return some(i)
    return none()


@trait_model(r".*", "Iterator", "find")
def _iter_find(it, args, dty, func):
    s = args[0].load() if isinstance(args[0], Ref) else args[0]
    for x in iter_all(it, s):
        # the predicate takes `&Self::Item`
        if it.ctx.branch(it.call_closure(args[1], Agg("tuple", [Ref(Cell(x, "item"), ())]), "bool")):
            return some(x)
    return none()


@trait_model(r".*", "Iterator", "find_map")
def _iter_find_map(it, args, dty, func):
    s = args[0].load() if isinstance(args[0], Ref) else args[0]
    for x in iter_all(it, s):
        r = it.call_closure(args[1], Agg("tuple", [x]), "")
        if r.idx == 1:
            return r
    return none()


@trait_model(r".*", "Iterator", "sum")
def _iter_sum(it, args, dty, func):
    s = args[0]
    tot = 0
    for x in iter_all(it, s):
        x = _deref(x)
        tot = int_add(tot, x, 64)
    return tot


def int_add(a, b, w):
    if isinstance(a, int) and isinstance(b, int):
        return mask(a + b, w)
    return simp(bv(a, w) + bv(b, w))


@trait_model(r".*", "Iterator", "collect")
def _iter_collect(it, args, dty, func):
    items = iter_all(it, args[0])
    d = strip_generics(dty)
    if d.endswith("::Vec"):
        return Seq("vec", items, elem_type(dty))
    if d.endswith("VecDeque"):
        return Seq("vecdeque", items, "?")
    raise Unsupported("collect into " + dty)


@trait_model(r".*", "Iterator", "count")
def _iter_count(it, args, dty, func):
    return len(iter_all(it, args[0]))


@trait_model(r".*", "ExactSizeIterator", "len")
def _iter_len(it, args, dty, func):
    s = _deref(args[0])
    if s.ty == "{iter}":
        return s.f[0].len - s.f[1]
    raise Unsupported("iter len")


# --- Vec --------------------------------------------------------------------------------------
@model("std::vec::Vec::new", "std::vec::Vec::with_capacity")
def _vec_new(it, args, dty, func):
    return Seq("vec", [], elem_type(dty))


@model("std::vec::Vec::push")
def _vec_push(it, args, dty, func):
    seq_of(args[0]).f.append(args[1])
    return UNIT


@model("std::vec::Vec::pop")
def _vec_pop(it, args, dty, func):
    s = seq_of(args[0])
    return some(s.f.pop()) if s.f else none()


@model("std::vec::Vec::insert")
def _vec_insert(it, args, dty, func):
    s = seq_of(args[0])
    i = args[1]
    if not isinstance(i, int):
        raise Unsupported("symbolic insert index")
    if i > len(s.f):
        raise Panic("bounds", f"insertion index (is {i}) should be <= len (is {len(s.f)})")
    s.f.insert(i, args[2])
    return UNIT


@model("std::vec::Vec::remove")
def _vec_remove(it, args, dty, func):
    s = seq_of(args[0])
    i = args[1]
    if not isinstance(i, int):
        raise Unsupported("symbolic remove index")
    if i >= len(s.f):
        raise Panic("bounds", f"removal index (is {i}) should be < len (is {len(s.f)})")
    return s.f.pop(i)


@model("std::vec::Vec::clear", "bytes::BytesMut::clear", "std::string::String::clear", "std::collections::VecDeque::clear")
def _vec_clear(it, args, dty, func):
    seq_of(args[0]).f.clear()
    return UNIT


@model("std::vec::Vec::truncate", "bytes::BytesMut::truncate", "bytes::Bytes::truncate")
def _vec_truncate(it, args, dty, func):
    s = seq_of(args[0])
    n = args[1]
    if not isinstance(n, int):
        raise Unsupported("symbolic truncate")
    del s.f[n:]
    return UNIT


@model("std::vec::Vec::extend_from_slice", "bytes::BytesMut::extend_from_slice", "std::string::String::push_str")
def _extend_from_slice(it, args, dty, func):
    s = seq_of(args[0])
    src = as_slice(args[1])
    s.f.extend(src.items())
    return UNIT


@model("std::vec::Vec::as_slice", "std::vec::Vec::as_mut_slice", "std::string::String::as_str", "std::string::String::as_bytes",
       "core::str::<impl str>::as_bytes", "std::vec::Vec::as_ref")
def _as_slice_m(it, args, dty, func):
    return as_slice(args[0])


@model("std::vec::Vec::iter", "std::vec::Vec::iter_mut", "std::collections::VecDeque::iter")
def _vec_iter(it, args, dty, func):
    return Agg("{iter}", [as_slice(args[0]), 0])


@model("std::vec::Vec::first", "std::vec::Vec::last")
def _vec_first(it, args, dty, func):
    return _first_last(it, [as_slice(args[0])], dty, func)


@model("std::vec::from_elem", "alloc::vec::from_elem")
def _from_elem(it, args, dty, func):
    n = concretize(it, args[1], 300, "vec![x; n] length")
    return Seq("vec", [clone_val(args[0]) for _ in range(n)], elem_type(dty))


@model("std::slice::<impl [T]>::into_vec", "alloc::slice::<impl [T]>::into_vec")
def _into_vec(it, args, dty, func):
    v = args[0]
    t = _deref(v)
    if isinstance(t, Seq):
        return Seq("vec", list(t.f), t.elem_ty)
    raise Unsupported("into_vec")


@model("std::boxed::Box::new", "std::sync::Arc::new", "std::rc::Rc::new", "std::boxed::Box::pin", "std::sync::Arc::pin")
def _box_new(it, args, dty, func):
    return BoxV(Cell(args[0], "heap"), ())


@model("alloc::alloc::exchange_malloc")
def _exch_malloc(it, args, dty, func):
    return BoxV(Cell(None, "heap"), ())


@model("std::sync::Arc::clone")
def _arc_clone(it, args, dty, func):
    return _deref_once(args[0])


def _deref_once(v):
    return v.load() if isinstance(v, Ref) else v


# --- bytes crate --------------------------------------------------------------------------------
@model("bytes::BytesMut::new", "bytes::BytesMut::with_capacity")
def _bm_new(it, args, dty, func):
    return Seq("bytesmut", [])


@model("bytes::Bytes::new")
def _b_new(it, args, dty, func):
    return Seq("bytes", [])


@model("bytes::Bytes::copy_from_slice", "bytes::Bytes::from_static")
def _b_copy(it, args, dty, func):
    return Seq("bytes", list(as_slice(args[0]).items()))


@model("bytes::BytesMut::freeze")
def _bm_freeze(it, args, dty, func):
    s = args[0]
    return Seq("bytes", s.f)


@model("bytes::BytesMut::split_to", "bytes::Bytes::split_to")
def _split_to(it, args, dty, func):
    s = seq_of(args[0])
    n = simp(args[1])
    if not isinstance(n, int):
        ch = it.ctx.switch(n, list(range(len(s.f) + 1)))
        n = len(s.f) + 1 if ch == "otherwise" else ch
    if n > len(s.f):
        raise Panic("bounds", f"split_to out of bounds: {n} <= {len(s.f)}")
    head = s.f[:n]
    del s.f[:n]
    return Seq(s.kind, head)


@model("bytes::BytesMut::split_off", "bytes::Bytes::split_off")
def _split_off(it, args, dty, func):
    s = seq_of(args[0])
    n = args[1]
    if not isinstance(n, int):
        raise Unsupported("symbolic split_off")
    if n > len(s.f):
        raise Panic("bounds", "split_off out of bounds")
    tail = s.f[n:]
    del s.f[n:]
    return Seq(s.kind, tail)


@model("bytes::BytesMut::split")
def _bm_split(it, args, dty, func):
    s = seq_of(args[0])
    head = list(s.f)
    s.f.clear()
    return Seq("bytesmut", head)


@model("bytes::BytesMut::reserve", "std::vec::Vec::reserve", "bytes::BytesMut::capacity")
def _reserve(it, args, dty, func):
    return UNIT if not func.endswith("capacity") else 1 << 20


@model("bytes::Bytes::slice")
def _b_slice(it, args, dty, func):
    s = seq_of(args[0])
    a, b = range_bounds(it, args[1], len(s.f))
    return Seq("bytes", s.f[a:b])


@model("bytes::BytesMut::to_vec", "bytes::Bytes::to_vec")
def _b_to_vec(it, args, dty, func):
    return Seq("vec", list(seq_of(args[0]).f))


def _buf_target(v):
    """Buf/BufMut receiver: &mut BytesMut | &mut &[u8] | &mut Cursor"""
    return v


@trait_model(r".*", "BufMut", "put_u8")
def _put_u8(it, args, dty, func):
    seq_of(args[0]).f.append(args[1])
    return UNIT


def _put_be(n):
    def f(it, args, dty, func):
        s = seq_of(args[0])
        v = args[1]
        for i in range(n - 1, -1, -1):
            if isinstance(v, int):
                s.f.append((v >> (8 * i)) & 0xFF)
            else:
                s.f.append(simp(z3.Extract(8 * i + 7, 8 * i, v)))
        return UNIT
    return f


trait_model(r".*", "BufMut", "put_u16")(_put_be(2))
trait_model(r".*", "BufMut", "put_u32")(_put_be(4))
trait_model(r".*", "BufMut", "put_u64")(_put_be(8))


@trait_model(r".*", "BufMut", "put_slice")
def _put_slice(it, args, dty, func):
    seq_of(args[0]).f.extend(as_slice(args[1]).items())
    return UNIT


@trait_model(r".*", "BufMut", "put")
def _put(it, args, dty, func):
    src = args[1]
    t = _deref(src)
    items = t.items() if isinstance(t, SliceRef) else t.f
    seq_of(args[0]).f.extend(items)
    return UNIT


@trait_model(r".*", "BufMut", "remaining_mut")
def _remaining_mut(it, args, dty, func):
    return (1 << 62)


def _cursor_parts(v):
    """returns (get_items, advance(n)) for Buf receivers"""
    t = v.load() if isinstance(v, Ref) else v
    if isinstance(t, Seq):
        def adv(n):
            del t.f[:n]
        return (lambda: t.f), adv
    if isinstance(t, SliceRef):
        def adv(n):
            v.store(SliceRef(t.base, t.start + n, t.len - n, t.is_str))
        return (lambda: t.items()), adv
    if isinstance(t, Agg) and _last(t.ty) == "Cursor":
        inner = t.f[0]
        sl = as_slice(inner)
        pos = t.f[1]
        def adv(n):
            t.f[1] = t.f[1] + n
        return (lambda: sl.items()[pos:]), adv
    raise Unsupported(f"Buf receiver {t!r}")


@trait_model(r".*", "Buf", "remaining")
def _remaining(it, args, dty, func):
    g, _ = _cursor_parts(args[0])
    return len(g())


@trait_model(r".*", "Buf", "has_remaining")
def _has_remaining(it, args, dty, func):
    g, _ = _cursor_parts(args[0])
    return len(g()) > 0


@trait_model(r".*", "Buf", "advance")
def _advance(it, args, dty, func):
    g, adv = _cursor_parts(args[0])
    n = simp(args[1])
    if not isinstance(n, int):
        ch = it.ctx.switch(n, list(range(len(g()) + 1)))
        n = len(g()) + 1 if ch == "otherwise" else ch
    if n > len(g()):
        raise Panic("bounds", f"cannot advance past `remaining`: {n} <= {len(g())}")
    adv(n)
    return UNIT


def _get_be(n):
    def f(it, args, dty, func):
        g, adv = _cursor_parts(args[0])
        items = g()
        if len(items) < n:
            raise Panic("bounds", "buffer underflow in get_u%d" % (8 * n))
        v = be_int(items[:n])
        adv(n)
        return v
    return f


def be_int(items):
    if all(isinstance(x, int) for x in items):
        r = 0
        for x in items:
            r = (r << 8) | x
        return r
    return simp(z3.Concat(*[bv(x, 8) for x in items])) if len(items) > 1 else items[0]


trait_model(r".*", "Buf", "get_u8")(_get_be(1))
trait_model(r".*", "Buf", "get_u16")(_get_be(2))
trait_model(r".*", "Buf", "get_u32")(_get_be(4))
trait_model(r".*", "Buf", "get_u64")(_get_be(8))


@trait_model(r".*", "Buf", "copy_to_slice")
def _copy_to_slice(it, args, dty, func):
    g, adv = _cursor_parts(args[0])
    d = as_slice(args[1])
    items = g()
    if len(items) < d.len:
        raise Panic("bounds", "buffer underflow in copy_to_slice")
    for i in range(d.len):
        d.set(i, items[i])
    adv(d.len)
    return UNIT


@trait_model(r".*", "Buf", "chunk")
def _chunk(it, args, dty, func):
    return as_slice(args[0])


@model("std::io::Cursor::new")
def _cursor_new(it, args, dty, func):
    return Agg("std::io::Cursor", [args[0], 0])


@model("std::io::Cursor::position")
def _cursor_pos(it, args, dty, func):
    return _deref(args[0]).f[1]


# --- integers ---------------------------------------------------------------------------------
@model_re(r"^core::num::<impl u(8|16|32|64|128|size)>::from_be_bytes$")
def _from_be(it, args, dty, func):
    a = args[0]
    return be_int(list(a.f))


@model_re(r"^core::num::<impl u(8|16|32|64|128|size)>::to_be_bytes$")
def _to_be(it, args, dty, func):
    w = int_width(re.search(r"impl (\w+)>", func).group(1))
    v = args[0]
    out = []
    for i in range(w // 8 - 1, -1, -1):
        out.append((v >> (8 * i)) & 0xFF if isinstance(v, int) else simp(z3.Extract(8 * i + 7, 8 * i, v)))
    return Seq("array", out)


@model_re(r"^core::num::<impl [ui](8|16|32|64|128|size)>::to_le_bytes$")
def _to_le(it, args, dty, func):
    w = int_width(re.search(r"impl (\w+)>", func).group(1))
    v = args[0]
    out = []
    for i in range(w // 8):
        out.append((v >> (8 * i)) & 0xFF if isinstance(v, int) else simp(z3.Extract(8 * i + 7, 8 * i, v)))
    return Seq("array", out)


@model_re(r"^core::num::<impl u(8|16|32|64|128|size)>::from_le_bytes$")
def _from_le(it, args, dty, func):
    return be_int(list(reversed(args[0].f)))


@model("std::array::<impl [T]>::as_mut_slice", "std::array::<impl [T]>::as_slice", "core::array::<impl [T; N]>::as_mut_slice", "core::array::<impl [T; N]>::as_slice")
def _array_as_slice(it, args, dty, func):
    a = args[0]
    t = a.load() if isinstance(a, Ref) else a
    return SliceRef(a, 0, len(t.f))


def _ity(func):
    return re.search(r"impl (\w+)>", func).group(1)


@model_re(r"^core::num::<impl \w+>::(saturating_add|saturating_sub|wrapping_add|wrapping_sub|checked_add|checked_sub|min|max|saturating_mul|checked_mul|wrapping_mul|saturating_pow|checked_pow|pow)$")
def _num_ops(it, args, dty, func):
    ty = _ity(func)
    w, signed = int_width(ty), ty in SIGNED
    op = func.rsplit("::", 1)[1]
    a, b = args[0], args[1]
    if signed:
        raise Unsupported("signed " + op)
    M = (1 << w) - 1
    if isinstance(a, int) and isinstance(b, int):
        if op == "saturating_add":
            return min(a + b, M)
        if op == "saturating_sub":
            return max(a - b, 0)
        if op == "wrapping_add":
            return (a + b) & M
        if op == "wrapping_sub":
            return (a - b) & M
        if op == "wrapping_mul":
            return (a * b) & M
        if op == "checked_add":
            return some(a + b) if a + b <= M else none()
        if op == "checked_sub":
            return some(a - b) if a >= b else none()
        if op == "checked_mul":
            return some(a * b) if a * b <= M else none()
        if op == "saturating_mul":
            return min(a * b, M)
        if op == "min":
            return min(a, b)
        if op == "max":
            return max(a, b)
        if op == "saturating_pow":
            return min(a ** b, M)
        if op == "pow":
            if a ** b > M:
                raise Panic("assert", "attempt to multiply with overflow")
            return a ** b
        if op == "checked_pow":
            return some(a ** b) if a ** b <= M else none()
    A, B = bv(a, w), bv(b, w)
    if op == "saturating_add":
        return simp(z3.If(z3.BVAddNoOverflow(A, B, False), A + B, z3.BitVecVal(M, w)))
    if op == "saturating_sub":
        return simp(z3.If(z3.UGE(A, B), A - B, z3.BitVecVal(0, w)))
    if op == "wrapping_add":
        return simp(A + B)
    if op == "wrapping_sub":
        return simp(A - B)
    if op == "min":
        return simp(z3.If(z3.ULE(A, B), A, B))
    if op == "max":
        return simp(z3.If(z3.UGE(A, B), A, B))
    if op == "checked_add":
        if it.ctx.branch(z3.BVAddNoOverflow(A, B, False)):
            return some(simp(A + B))
        return none()
    if op == "checked_sub":
        if it.ctx.branch(z3.UGE(A, B)):
            return some(simp(A - B))
        return none()
    if op in ("saturating_pow", "pow", "checked_pow") and isinstance(a, int):
        # a ** b for symbolic exponent: fork over the (few) exponents below the saturation point
        k = 0
        while a ** k <= M and k <= w:
            k += 1
        ch = it.ctx.switch(b, list(range(k)))
        if ch == "otherwise":
            if op == "saturating_pow":
                return M
            if op == "checked_pow":
                return none()
            raise Panic("assert", "attempt to multiply with overflow")
        r = a ** ch
        return some(r) if op == "checked_pow" else r
    raise Unsupported("symbolic " + op)


@trait_model(r".*", "Ord", "min")
@trait_model(r".*", "Ord", "max")
def _ord_minmax(it, args, dty, func):
    a, b = args[0], args[1]
    is_min = func.endswith("min")
    if isinstance(a, Agg) and _last(a.ty) == "Duration":
        lt = duration_lt(a, b)
        c = it.ctx.branch(lt)
        return (a if c else b) if is_min else (b if c else a)
    w = int_width(strip_generics(dty)) or 64
    if isinstance(a, int) and isinstance(b, int):
        return min(a, b) if is_min else max(a, b)
    A, B = bv(a, w), bv(b, w)
    return simp(z3.If(z3.ULE(A, B), A, B) if is_min else z3.If(z3.UGE(A, B), A, B))


@trait_model(r"^(u8|u16|u32|u64|usize)$", "Ord", "clamp")
def _ord_clamp(it, args, dty, func):
    v, lo, hi = args[0], args[1], args[2]
    if all(isinstance(x, int) for x in (v, lo, hi)):
        if lo > hi:
            raise Panic("assert", "assertion failed: min <= max")
        return min(max(v, lo), hi)
    w = int_width(strip_generics(dty)) or 64
    V, LO, HI = bv(v, w), bv(lo, w), bv(hi, w)
    return simp(z3.If(z3.ULT(V, LO), LO, z3.If(z3.UGT(V, HI), HI, V)))


def duration_lt(a, b):
    x, y = a.f[0], b.f[0]
    if isinstance(x, int) and isinstance(y, int):
        return x < y
    return simp(z3.ULT(bv(x, 128), bv(y, 128)))


# --- formatting / logging: opaque ----------------------------------------------------------------
@model_re(r"^(std|alloc|core)::fmt::(format|Arguments.*|rt::.*)$|^(std|alloc)::fmt::format::.*$|^core::fmt::.*$|^std::fmt::.*$")
def _fmt(it, args, dty, func):
    if strip_generics(dty).endswith("String"):
        return Seq("string", [])
    return Opaque("fmt")


@trait_model(r".*", "PartialOrd", "le")
@trait_model(r".*", "PartialOrd", "lt")
@trait_model(r".*", "PartialOrd", "ge")
@trait_model(r".*", "PartialOrd", "gt")
def _partial_ord(it, args, dty, func):
    if "tracing" in func:
        return False          # STATIC_MAX_LEVEL/LevelFilter: logging statically off in the model
    a, b = _deref(args[0]), _deref(args[1])
    op = func.rsplit("::", 1)[1]
    if isinstance(a, Agg) and _last(a.ty) in ("Duration", "Instant"):
        lt, gt = duration_lt(a, b), duration_lt(b, a)
        neg = lambda x: (not x) if isinstance(x, bool) else simp(z3.Not(x))
        return {"lt": lt, "gt": gt, "le": neg(gt), "ge": neg(lt)}[op]
    if (isinstance(a, int) or is_sym(a)) and (isinstance(b, int) or is_sym(b)):
        from .interp import int_binop
        w = a.size() if is_sym(a) else (b.size() if is_sym(b) else 64)
        return int_binop({"lt": "Lt", "le": "Le", "gt": "Gt", "ge": "Ge"}[op], a, b, w, False)
    raise Unsupported(f"partial_ord on {a!r}")


def _int_width(ty, a, b):
    if is_sym(a) and not z3.is_bool(a):
        return a.size()
    if is_sym(b) and not z3.is_bool(b):
        return b.size()
    m = re.search(r"\b[ui](8|16|32|64|128|size)\b", ty or "")
    return {"8": 8, "16": 16, "32": 32, "64": 64, "128": 128, "size": 64}[m.group(1)] if m else 64


def _ops_trait(opname):
    def f(it, args, dty, func):
        # operator traits on (references to) integers and bools: `&a ^ &b`, `a | &b` ...
        a, b = _deref(args[0]), _deref(args[1])
        if not ((isinstance(a, (int, bool)) or is_sym(a)) and (isinstance(b, (int, bool)) or is_sym(b))):
            raise Unsupported(f"{opname} on {a!r}")
        from .interp import int_binop
        signed = bool(re.search(r"\bi(8|16|32|64|128|size)\b", func.split(" as ")[0]))
        return int_binop(opname, a, b, _int_width(func.split(" as ")[0], a, b), signed)
    return f


for _tr, _me, _op in (("BitXor", "bitxor", "BitXor"), ("BitAnd", "bitand", "BitAnd"), ("BitOr", "bitor", "BitOr"),
                      ("Add", "add", "Add"), ("Sub", "sub", "Sub"), ("Mul", "mul", "Mul")):
    trait_model(r"^&*(u8|u16|u32|u64|u128|usize|i8|i16|i32|i64|i128|isize|bool)$", _tr, _me)(_ops_trait(_op))


@model("bitflags::Flag::value")
def _bitflag_value(it, args, dty, func):
    f = args[0]
    return f.child(1) if isinstance(f, Ref) else Ref(Cell(f, "flag"), ()).child(1)


@model("bitflags::Flag::name")
def _bitflag_name(it, args, dty, func):
    f = _deref(args[0])
    return SliceRef(f.f[0], 0, len(f.f[0].f), True)


@trait_model(r"^message::flags::MsgFlags$", "Flags", "all")
def _msgflags_all(it, args, dty, func):
    # bitflags' `all()` folds over the FLAGS table (names + values); the crate's only flags type has MORE | COMMAND = 0b11
    import os as _os
    src = open(_os.path.join(it.prog.repo_core, "src", "message", "flags.rs")).read()
    bits = 0
    for m in re.finditer(r"const\s+\w+\s*=\s*0b([01]+)\s*;", src):
        bits |= int(m.group(1), 2)
    fn = it.resolve_fn("message::flags::_::<impl message::flags::MsgFlags>::from_bits_retain", "")
    return it.run_body(it.prog.body(fn), [bits])


@model_re(r"^tracing::.*$|^tracing_core::.*$")
def _tracing(it, args, dty, func):
    if dty == "bool":
        return False
    return Opaque("tracing")


@model("std::string::String::new")
def _string_new(it, args, dty, func):
    return Seq("string", [])


@model("std::string::String::from_utf8_lossy", "alloc::string::String::from_utf8_lossy")
def _from_utf8_lossy(it, args, dty, func):
    # Cow<str>: content is only ever used for messages / socket-type *names* compared later
    s = as_slice(args[0])
    return Enum("std::borrow::Cow", 1, "Owned", [Seq("string", list(s.items()))])


@model("std::borrow::Cow::into_owned")
def _cow_into_owned(it, args, dty, func):
    c = args[0]
    v = c.f[0]
    if isinstance(v, SliceRef):
        return Seq("string", list(v.items()))
    return v


@model("std::string::String::from_utf8", "alloc::string::String::from_utf8", "core::str::from_utf8", "std::str::from_utf8")
def _from_utf8(it, args, dty, func):
    v = args[0]
    items = v.f if isinstance(v, Seq) else as_slice(v).items()
    # validity is decided on the bytes. Two classes are explored: all ASCII (valid), and "contains a byte that occurs
    # in no valid UTF-8 text" (0xC0, 0xC1, 0xF5..0xFF: invalid for certain, so a counterexample replays natively).
    # Other non-ASCII content (possibly valid multi-byte text) behaves like one of the two for the callers - the
    # string is only compared or passed on - and is left out (path abandoned, not reported as unsupported).
    conds, never = [], []
    for x in items:
        if isinstance(x, int):
            if x >= 0x80:
                conds.append(False)
            never.append(x in (0xC0, 0xC1) or x >= 0xF5)
        else:
            conds.append(z3.ULT(x, 0x80))
            never.append(z3.Or(x == 0xC0, x == 0xC1, z3.UGE(x, 0xF5)))
    valid = conj(conds)
    if it.ctx.branch(valid):
        if isinstance(v, Seq):
            return ok(Seq("string", list(items)))
        sl = as_slice(v)
        return ok(SliceRef(sl.base, sl.start, sl.len, True))
    surely = False
    for c in never:
        surely = c if surely is False else (True if (surely is True or c is True) else simp(z3.Or(bl(surely), bl(c))))
    if surely is False or not it.ctx.branch(surely):
        raise PathAbort("non-ASCII text other than never-valid bytes: outside the UTF-8 model")
    return err(Opaque("Utf8Error"))


@model("std::hint::must_use", "core::hint::must_use", "std::convert::identity", "std::hint::black_box")
def _identity(it, args, dty, func):
    return args[0]


# --- time: Instant / Duration as 128-bit nanosecond counts ----------------------------------------
@model("std::time::Instant::now")
def _instant_now(it, args, dty, func):
    if it.clock is not None:
        return instant_ns(it.clock(it))
    last = getattr(it, "_clock_last", 0)
    t = it.ctx.fresh_bv("now", 128)
    it.ctx.add(z3.UGE(t, bv(last, 128)))
    it.ctx.add(z3.ULE(t, z3.BitVecVal(1 << 62, 128)))
    it._clock_last = t
    if not hasattr(it, "clock_vars"):
        it.clock_vars = []
    it.clock_vars.append(t)
    return instant_ns(t)


@model("std::time::Duration::from_secs")
def _d_from_secs(it, args, dty, func):
    return mk_duration(args[0], 0)


@model("std::time::Duration::from_millis")
def _d_from_millis(it, args, dty, func):
    v = args[0]
    if isinstance(v, int):
        return dur_ns(v * 1_000_000)
    return dur_ns(simp(z3.ZeroExt(64, bv(v, 64)) * 1_000_000))


@model("std::time::Duration::from_micros")
def _d_from_micros(it, args, dty, func):
    v = args[0]
    if isinstance(v, int):
        return dur_ns(v * 1000)
    return dur_ns(simp(z3.ZeroExt(64, bv(v, 64)) * 1000))


@model("std::time::Duration::from_nanos")
def _d_from_nanos(it, args, dty, func):
    v = args[0]
    return dur_ns(v if isinstance(v, int) else z3.ZeroExt(64, bv(v, 64)))


@model("std::time::Duration::as_millis")
def _d_as_millis(it, args, dty, func):
    ns = _deref(args[0]).f[0]
    if isinstance(ns, int):
        return ns // 1_000_000
    return simp(z3.UDiv(bv(ns, 128), z3.BitVecVal(1_000_000, 128)))


@model("std::time::Duration::as_secs")
def _d_as_secs(it, args, dty, func):
    ns = _deref(args[0]).f[0]
    if isinstance(ns, int):
        return ns // NS
    return simp(z3.Extract(63, 0, z3.UDiv(bv(ns, 128), z3.BitVecVal(NS, 128))))


@model("std::time::Duration::is_zero")
def _d_is_zero(it, args, dty, func):
    ns = _deref(args[0]).f[0]
    return ns == 0 if isinstance(ns, int) else simp(bv(ns, 128) == 0)


@model("std::time::Instant::duration_since", "std::time::Instant::saturating_duration_since")
def _i_duration_since(it, args, dty, func):
    a, b = _deref(args[0]).f[0], _deref(args[1]).f[0]
    if isinstance(a, int) and isinstance(b, int):
        return dur_ns(max(a - b, 0))
    A, B = bv(a, 128), bv(b, 128)
    return dur_ns(simp(z3.If(z3.UGE(A, B), A - B, z3.BitVecVal(0, 128))))


@model("std::time::Instant::elapsed")
def _i_elapsed(it, args, dty, func):
    now = _instant_now(it, [], "", "")
    return _i_duration_since(it, [now, args[0]], dty, func)


@model("std::time::Instant::checked_add")
def _i_checked_add(it, args, dty, func):
    a, d = _deref(args[0]).f[0], _deref(args[1]).f[0]
    if isinstance(a, int) and isinstance(d, int):
        return some(instant_ns(a + d)) if a + d <= IMAX else none()
    r = bv(a, 128) + bv(d, 128)        # no 128-bit wrap: both < 2^95
    if it.ctx.branch(z3.ULE(r, z3.BitVecVal(IMAX, 128))):
        return some(instant_ns(simp(r)))
    return none()


@model("std::time::Instant::saturating_duration_since", "tokio::time::Instant::saturating_duration_since",
       "std::time::Instant::duration_since", "tokio::time::Instant::duration_since")
def _instant_sat_since(it, args, dty, func):
    a, b = _deref(args[0]).f[0], _deref(args[1]).f[0]
    if isinstance(a, int) and isinstance(b, int):
        return dur_ns(max(0, a - b))
    A, B = bv(a, 128), bv(b, 128)
    return dur_ns(simp(z3.If(z3.UGE(A, B), A - B, z3.BitVecVal(0, 128))))


@trait_model(r"^(std|tokio)::time::Instant$", "Add", "add")
def _i_add(it, args, dty, func):
    r = _i_checked_add(it, args, dty, func)
    if r.idx == 0:
        raise Panic("overflow", "overflow when adding duration to instant")
    return r.f[0]


@trait_model(r"^(std|tokio)::time::Instant$", "Sub", "sub")
def _i_sub(it, args, dty, func):
    b = _deref(args[1])
    if _last(b.ty) == "Instant":
        return _i_duration_since(it, args, dty, func)
    a, d = _deref(args[0]).f[0], b.f[0]
    if isinstance(a, int) and isinstance(d, int):
        if d > a:
            raise Panic("overflow", "overflow when subtracting duration from instant")
        return instant_ns(a - d)
    if not it.ctx.branch(z3.UGE(bv(a, 128), bv(d, 128))):
        raise Panic("overflow", "overflow when subtracting duration from instant")
    return instant_ns(simp(bv(a, 128) - bv(d, 128)))


@trait_model(r"^std::time::Duration$", "Add", "add")
def _d_add(it, args, dty, func):
    a, d = _deref(args[0]).f[0], _deref(args[1]).f[0]
    if isinstance(a, int) and isinstance(d, int):
        if a + d > DMAX:
            raise Panic("overflow", "overflow when adding durations")
        return dur_ns(a + d)
    r = bv(a, 128) + bv(d, 128)
    if not it.ctx.branch(z3.ULE(r, z3.BitVecVal(DMAX, 128))):
        raise Panic("overflow", "overflow when adding durations")
    return dur_ns(simp(r))


@model("std::time::Duration::saturating_mul")
def _d_saturating_mul(it, args, dty, func):
    a, m = _deref(args[0]).f[0], args[1]
    if isinstance(a, int) and isinstance(m, int):
        return dur_ns(min(a * m, DMAX))
    if not isinstance(m, int):
        raise Unsupported("Duration * symbolic multiplier")
    # a < 2^94, m < 2^32: the 128-bit product cannot wrap
    r = bv(a, 128) * z3.BitVecVal(m, 128)
    return dur_ns(simp(z3.If(z3.ULE(r, z3.BitVecVal(DMAX, 128)), r, z3.BitVecVal(DMAX, 128))))


@model("std::time::Duration::saturating_sub")
def _d_saturating_sub(it, args, dty, func):
    a, b = _deref(args[0]).f[0], _deref(args[1]).f[0]
    if isinstance(a, int) and isinstance(b, int):
        return dur_ns(max(a - b, 0))
    A, B = bv(a, 128), bv(b, 128)
    return dur_ns(simp(z3.If(z3.UGE(A, B), A - B, z3.BitVecVal(0, 128))))


@model_re(r"^core::num::<impl u128>::min$")
def _u128_min(it, args, dty, func):
    a, b = args
    if isinstance(a, int) and isinstance(b, int):
        return min(a, b)
    return simp(z3.If(z3.ULE(bv(a, 128), bv(b, 128)), bv(a, 128), bv(b, 128)))


@trait_model(r".*", "BufMut", "put_bytes")
def _put_bytes(it, args, dty, func):
    n = args[2]
    if not isinstance(n, int):
        raise Unsupported("symbolic put_bytes count")
    seq_of(args[0]).f.extend([args[1]] * n)
    return UNIT


@trait_model(r".*", "TryInto", "try_into")
@trait_model(r".*", "TryFrom", "try_from")
def _try_into(it, args, dty, func):
    v = args[0]
    d = dty
    m = re.search(r"Result<\[(\w+); (\d+)\]", d) or re.search(r"Result<&\[(\w+); (\d+)\]", d)
    if m and isinstance(v, (SliceRef, Ref)):
        s = as_slice(v)
        n = int(m.group(2))
        if s.len != n:
            return err(Opaque("TryFromSliceError"))
        if "Result<&" in d:
            return ok(Ref(Cell(Seq("array", list(s.items())), "arr"), ()))
        return ok(Seq("array", list(s.items())))
    m = re.search(r"Result<(\w+),", d)
    if m and int_width(m.group(1)) and (isinstance(v, int) or is_sym(v)):
        w = int_width(m.group(1))
        if isinstance(v, int):
            return ok(v) if v < (1 << w) else err(Opaque("TryFromIntError"))
        if v.size() <= w:
            return ok(z3.ZeroExt(w - v.size(), v) if v.size() < w else v)
        if it.ctx.branch(z3.ULT(v, z3.BitVecVal(1 << w, v.size()))):
            return ok(simp(z3.Extract(w - 1, 0, v)))
        return err(Opaque("TryFromIntError"))
    raise Unsupported(f"try_into {v!r} -> {dty}")


# --- HashMap / HashSet as association lists ---------------------------------------------------------
def map_of(v):
    t = v.load() if isinstance(v, Ref) else v
    if isinstance(t, MapV):
        return t
    raise Unsupported(f"expected map, got {t!r}")


def key_eq(it, a, b):
    """decide key equality (forks when symbolic)"""
    r = val_eq(it, a, b)
    return it.ctx.branch(r)


def map_find_idx(it, m, key):
    for i, (k, _) in enumerate(m.items):
        if key_eq(it, k, key):
            return i
    return None


class _MapValRef(Ref):
    """reference to the value slot i of a MapV held in `cell/path`"""
    __slots__ = ("mref", "i")

    def __init__(self, mref, i):
        self.cell, self.path, self.dyn_ty = mref.cell, mref.path, None
        self.mref, self.i = mref, i

    def load(self):
        return self.mref.load().items[self.i][1]

    def store(self, val):
        m = self.mref.load()
        m.items[self.i] = (m.items[self.i][0], val)

    def child(self, j):
        return _ChildOf(self, (j,))


class _ChildOf(Ref):
    __slots__ = ("parent", "sub")

    def __init__(self, parent, sub):
        self.cell, self.path, self.dyn_ty = parent.cell, parent.path, None
        self.parent, self.sub = parent, sub

    def load(self):
        v = self.parent.load()
        for i in self.sub:
            v = v.f[i]
        return v

    def store(self, val):
        v = self.parent.load()
        for i in self.sub[:-1]:
            v = v.f[i]
        v.f[self.sub[-1]] = val

    def child(self, j):
        return _ChildOf(self.parent, self.sub + (j,))


def map_find(it, m, key, mref=None):
    i = map_find_idx(it, m, key)
    if i is None:
        return None
    if mref is not None:
        return _MapValRef(mref, i)
    return Ref(Cell(m.items[i][1], "mapval"), ())


@model("std::collections::HashMap::new", "std::collections::HashMap::with_capacity", "std::collections::BTreeMap::new",
       "std::collections::HashSet::new", "std::collections::HashMap::default")
def _map_new(it, args, dty, func):
    return MapV("HashMap", [])


@model("std::collections::HashMap::insert", "std::collections::BTreeMap::insert", "dashmap::DashMap::insert")
def _map_insert(it, args, dty, func):
    m = map_of(args[0])
    i = map_find_idx(it, m, args[1])
    if i is None:
        m.items.append((args[1], args[2]))
        return none()
    old = m.items[i][1]
    m.items[i] = (m.items[i][0], args[2])
    return some(old)


@model("std::collections::HashMap::get", "std::collections::HashMap::get_mut", "std::collections::BTreeMap::get")
def _map_get(it, args, dty, func):
    m = map_of(args[0])
    key = args[1]
    r = map_find(it, m, key, args[0] if isinstance(args[0], Ref) else None)
    return some(r) if r is not None else none()


@model("std::collections::HashMap::contains_key", "dashmap::DashMap::contains_key")
def _map_contains(it, args, dty, func):
    return map_find_idx(it, map_of(args[0]), args[1]) is not None


@model("std::collections::HashMap::remove", "std::collections::BTreeMap::remove")
def _map_remove_fwd(it, args, dty, func):
    return _map_remove(it, args, dty, func)


@model("dashmap::DashMap::remove")
def _dashmap_remove(it, args, dty, func):
    r = _map_remove(it, args, dty, func)       # DashMap::remove returns Option<(K, V)>
    if isinstance(r, Enum) and r.idx == 1:
        return some(Agg("tuple", [args[1], r.f[0]]))
    return r


@model("std::collections::HashMap::remove__impl")
def _map_remove(it, args, dty, func):
    m = map_of(args[0])
    i = map_find_idx(it, m, args[1])
    if i is None:
        return none()
    return some(m.items.pop(i)[1])


@model("std::collections::HashMap::len")
def _map_len(it, args, dty, func):
    return len(map_of(args[0]).items)


@model("std::collections::HashMap::is_empty")
def _map_is_empty(it, args, dty, func):
    return len(map_of(args[0]).items) == 0


@model("std::collections::HashMap::clear")
def _map_clear(it, args, dty, func):
    map_of(args[0]).items.clear()
    return UNIT


@model("std::collections::HashMap::iter", "std::collections::HashMap::iter_mut")
def _map_iter(it, args, dty, func):
    m = map_of(args[0])
    mref = args[0]
    items = [Agg("tuple", [Ref(Cell(k, "key"), ()), _MapValRef(mref, i)]) for i, (k, _) in enumerate(m.items)]
    return Agg("{owned_iter}", [Seq("vec", items, "?"), 0])


@model("std::collections::HashMap::values", "std::collections::HashMap::values_mut")
def _map_values(it, args, dty, func):
    m = map_of(args[0])
    items = [_MapValRef(args[0], i) for i in range(len(m.items))]
    return Agg("{owned_iter}", [Seq("vec", items, "?"), 0])


# HashSet<K> as a map with unit values
@model("std::collections::HashSet::new")
def _set_new(it, args, dty, func):
    return MapV("HashMap", [])


@model("std::collections::HashSet::insert")
def _set_insert(it, args, dty, func):
    m = map_of(args[0])
    if map_find_idx(it, m, args[1]) is not None:
        return False
    m.items.append((args[1], UNIT))
    return True


@model("std::collections::HashSet::contains")
def _set_contains(it, args, dty, func):
    return map_find_idx(it, map_of(args[0]), _deref(args[1])) is not None


@model("std::collections::HashSet::remove")
def _set_remove(it, args, dty, func):
    m = map_of(args[0])
    i = map_find_idx(it, m, _deref(args[1]))
    if i is None:
        return False
    m.items.pop(i)
    return True


@model("std::collections::HashSet::len")
def _set_len(it, args, dty, func):
    return len(map_of(args[0]).items)


@model("std::collections::HashSet::is_empty")
def _set_is_empty(it, args, dty, func):
    return not map_of(args[0]).items


@model("std::collections::HashSet::iter")
def _set_iter(it, args, dty, func):
    m = map_of(args[0])
    return Agg("{owned_iter}", [Seq("vec", [Ref(Cell(k, "key"), ()) for k, _ in m.items], "?"), 0])


@model("std::collections::HashMap::keys")
def _map_keys(it, args, dty, func):
    m = map_of(args[0])
    items = [Ref(Cell(k, "key"), ()) for k, _ in m.items]
    return Agg("{owned_iter}", [Seq("vec", items, "?"), 0])


# --- OnceLock / interior mutability (sequential cells) ------------------------------------------------
@model("std::sync::OnceLock::new", "std::cell::OnceCell::new")
def _oncelock_new(it, args, dty, func):
    return Agg("std::sync::OnceLock", [none()])


@model("std::sync::OnceLock::get")
def _oncelock_get(it, args, dty, func):
    r = args[0]
    o = r.load().f[0]
    return some(r.child(0).child(0)) if o.idx == 1 else none()


@trait_model(r".*", "Buf", "copy_to_bytes")
def _copy_to_bytes(it, args, dty, func):
    g, adv = _cursor_parts(args[0])
    n = simp(args[1])
    items = g()
    if not isinstance(n, int):
        ch = it.ctx.switch(n, list(range(len(items) + 1)))
        n = len(items) + 1 if ch == "otherwise" else ch
    if n > len(items):
        raise Panic("bounds", "`len` greater than remaining")
    out = Seq("bytes", list(items[:n]))
    adv(n)
    return out


def concretize(it, v, limit, what):
    """fork over the feasible concrete values 0..limit of a symbolic size; larger is out of the encoder's reach"""
    v = simp(v)
    if isinstance(v, int):
        return v
    ch = it.ctx.switch(v, list(range(limit + 1)))
    if ch == "otherwise":
        raise Unsupported(f"symbolic {what} may exceed {limit}")
    return ch


@model_re(r"^core::str::<impl str>::(trim_end_matches|trim_start_matches|trim|trim_end|trim_start)$")
def _str_trim(it, args, dty, func):
    return args[0]          # only ever used to prettify log/error text


# --- xs_foundation::VecU8<T>: Vec with u8 length; documented panics at 255 (source: xs_foundation-0.4.10
#     src/collections/vec/u8/mod.rs: with_capacity asserts cap <= 255, push/insert panic at len == 255) ---
VU8 = "xs_foundation::collections::vec::VecU8::"


@model(VU8 + "new")
def _vu8_new(it, args, dty, func):
    return Seq("vecu8", [], "?")


@model(VU8 + "with_capacity")
def _vu8_with_capacity(it, args, dty, func):
    c = concretize(it, args[0], 300, "VecU8 capacity")
    if c > 255:
        raise Panic("assert", "capacity overflow u8 (max 255)")
    return Seq("vecu8", [], "?")


@model(VU8 + "push")
def _vu8_push(it, args, dty, func):
    s = seq_of(args[0])
    if len(s.f) == 255:
        raise Panic("panic", "VecU8<T> maximum length (255) exceeded")
    s.f.append(args[1])
    return UNIT


@model(VU8 + "insert")
def _vu8_insert(it, args, dty, func):
    s = seq_of(args[0])
    i = concretize(it, args[1], 300, "VecU8 insert index")
    if i > len(s.f):
        raise Panic("assert", "insertion index out of bounds")
    if len(s.f) == 255:
        raise Panic("panic", "VecU8<T> maximum length (255) exceeded on insert")
    s.f.insert(i, args[2])
    return UNIT


@model(VU8 + "remove")
def _vu8_remove(it, args, dty, func):
    s = seq_of(args[0])
    i = concretize(it, args[1], 300, "VecU8 remove index")
    if i >= len(s.f):
        raise Panic("assert", "removal index out of bounds")
    return s.f.pop(i)


@model(VU8 + "pop")
def _vu8_pop(it, args, dty, func):
    s = seq_of(args[0])
    return some(s.f.pop()) if s.f else none()


@model(VU8 + "len")
def _vu8_len(it, args, dty, func):
    return len(seq_of(args[0]).f)


@model(VU8 + "is_empty")
def _vu8_is_empty(it, args, dty, func):
    return len(seq_of(args[0]).f) == 0


@model(VU8 + "iter", VU8 + "iter_mut")
def _vu8_iter(it, args, dty, func):
    return Agg("{iter}", [as_slice(args[0]), 0])


@model(VU8 + "clear")
def _vu8_clear(it, args, dty, func):
    seq_of(args[0]).f.clear()
    return UNIT


# --- VecDeque -----------------------------------------------------------------------------------------
VD = "std::collections::VecDeque::"


@model(VD + "new", VD + "with_capacity")
def _vd_new(it, args, dty, func):
    return Seq("vecdeque", [], "?")


@model(VD + "push_back")
def _vd_push_back(it, args, dty, func):
    seq_of(args[0]).f.append(args[1])
    return UNIT


@model(VD + "push_front")
def _vd_push_front(it, args, dty, func):
    seq_of(args[0]).f.insert(0, args[1])
    return UNIT


@model(VD + "pop_front")
def _vd_pop_front(it, args, dty, func):
    s = seq_of(args[0])
    return some(s.f.pop(0)) if s.f else none()


@model(VD + "pop_back")
def _vd_pop_back(it, args, dty, func):
    s = seq_of(args[0])
    return some(s.f.pop()) if s.f else none()


@model(VD + "front", VD + "front_mut", VD + "back", VD + "back_mut")
def _vd_front(it, args, dty, func):
    s = seq_of(args[0])
    if not s.f:
        return none()
    i = 0 if "front" in func else len(s.f) - 1
    return some(args[0].child(i))


@model(VD + "insert")
def _vd_insert(it, args, dty, func):
    s = seq_of(args[0])
    i = concretize(it, args[1], 64, "VecDeque insert index")
    if i > len(s.f):
        raise Panic("assert", "index out of bounds")
    s.f.insert(i, args[2])
    return UNIT


@model(VD + "get", VD + "get_mut")
def _vd_get(it, args, dty, func):
    s = seq_of(args[0])
    i = concretize(it, args[1], 64, "VecDeque index")
    return some(args[0].child(i)) if i < len(s.f) else none()


@model(VD + "drain", "std::vec::Vec::drain")
def _vd_drain(it, args, dty, func):
    s = seq_of(args[0])
    a, b = range_bounds(it, args[1], len(s.f))
    out = s.f[a:b]
    del s.f[a:b]
    return Agg("{owned_iter}", [Seq("vec", out, "?"), 0])


@trait_model(r"^std::(collections::VecDeque|vec::Vec)", "Extend", "extend")
def _extend(it, args, dty, func):
    s = seq_of(args[0])
    src = args[1]
    src = src.load() if isinstance(src, Ref) and not isinstance(src, BoxV) else src
    if isinstance(src, Agg) and str(src.ty).startswith("{"):
        for _ in range(1 << 16):
            x = iter_next(it, src)
            if x.idx == 0:
                return UNIT
            s.f.append(x.f[0])
        raise Unsupported("extend: iterator too long")
    if isinstance(src, Seq):
        s.f.extend(src.f)
        return UNIT
    raise Unsupported(f"extend from {src!r}")


# --- sequential models of atomics and locks (mirsym is single-threaded; interleavings: cfa-bmc) -------
@model_re(r"^std::sync::atomic::Atomic(Usize|Bool|U8|U32|U64|Isize|I64)?::new$")
def _atomic_new(it, args, dty, func):
    return Agg("{atomic}", [args[0]])


@model_re(r"^std::sync::atomic::Atomic(Usize|Bool|U8|U32|U64|Isize|I64)?::(fetch_add|fetch_sub|load|store|swap|fetch_or|fetch_and|compare_exchange)$")
def _atomic_op(it, args, dty, func):
    op = strip_generics(func).rsplit("::", 1)[1]
    cell = args[0]
    a = cell.load()
    old = a.f[0]
    w = 64
    if op == "load":
        return old
    if op == "store":
        a.f[0] = args[1]
        return UNIT
    if op == "swap":
        a.f[0] = args[1]
        return old
    if op in ("fetch_add", "fetch_sub"):
        n = args[1]
        if isinstance(old, int) and isinstance(n, int):
            a.f[0] = mask(old + n if op == "fetch_add" else old - n, w)
        else:
            a.f[0] = simp(bv(old, w) + bv(n, w) if op == "fetch_add" else bv(old, w) - bv(n, w))
        return old
    if op == "compare_exchange":
        eq = val_eq(it, old, args[1])
        if it.ctx.branch(eq):
            a.f[0] = args[2]
            return ok(old)
        return err(old)
    if op in ("fetch_or", "fetch_and"):
        if isinstance(old, bool) or isinstance(args[1], bool):
            a.f[0] = (old or args[1]) if op == "fetch_or" else (old and args[1])
        else:
            a.f[0] = (old | args[1]) if op == "fetch_or" else (old & args[1])
        return old
    raise Unsupported("atomic " + op)


@model_re(r"^(parking_lot::)?(lock_api::)?(rwlock::|mutex::)?(RwLock|Mutex)::new$|^std::sync::(RwLock|Mutex)::new$")
def _lock_new(it, args, dty, func):
    return Agg("{lock}", [args[0]])


@model_re(r"^(parking_lot::)?(lock_api::)?(rwlock::|mutex::)?(RwLock|Mutex)::(read|write|lock|upgradable_read)$")
def _lock_acquire(it, args, dty, func):
    return args[0].child(0)          # the guard is a reference to the protected value


@trait_model(r".*", "Default", "default")
def _default2(it, args, dty, func):
    return default_of(it, dty)


@model("std::collections::HashMap::entry")
def _map_entry(it, args, dty, func):
    return Agg("{entry}", [args[0], args[1]])


@model_re(r"^std::collections::hash_map::Entry::(or_insert_with|or_insert|or_default)$")
def _entry_or_insert(it, args, dty, func):
    e = args[0]
    mref, key = e.f
    m = map_of(mref)
    i = map_find_idx(it, m, key)
    if i is None:
        name = strip_generics(func)
        if name.endswith("or_insert_with"):
            v = it.call_closure(args[1], Agg("tuple", []), "")
        elif name.endswith("or_insert"):
            v = args[1]
        else:
            vt = deref_type(dty or "") or ""
            v = Seq("vecdeque", [], "?") if "VecDeque" in vt else default_of(it, vt)
        m.items.append((key, v))
        i = len(m.items) - 1
    return _MapValRef(mref, i)


@model("tokio::sync::Notify::new")
def _notify_new(it, args, dty, func):
    return Agg("{notify}", [0, False])


class _NotifyPtr:
    """opaque pointer to a modelled Notify (not a Ref: nothing in the interpreter may copy or traverse it)"""
    __slots__ = ("n",)

    def __init__(self, n):
        self.n = n

    @property
    def f(self):
        return self.n.f

    def __repr__(self):
        return f"&{self.n!r}"


def _notify_obj(v):
    if isinstance(v, _NotifyPtr):
        return v.n
    n = _deref(v)
    while isinstance(n, BoxV):
        n = _deref(n.load())
    while len(n.f) < 2:                 # drivers may assemble a bare Agg("{notify}", [])
        n.f.append(0 if not n.f else False)
    return n


@model("tokio::sync::Notify::notify_waiters")
def _notify_waiters(it, args, dty, func):
    _notify_obj(args[0]).f[0] += 1      # generation: wakes every Notified created before this call
    return UNIT


@model("tokio::sync::Notify::notify_one")
def _notify_one(it, args, dty, func):
    _notify_obj(args[0]).f[1] = True    # sequential semantics: nobody is waiting concurrently, so a permit is stored
    return UNIT


@model("tokio::sync::Notify::notified")
def _notify_notified(it, args, dty, func):
    n = _notify_obj(args[0])
    # the future refers to the Notify through a pointer: a Notified that is moved (into tokio::time::timeout, into a
    # select! arm) must stay connected to the one Notify - a by-value field would be copied structurally on the move
    return Agg("{notified}", [_NotifyPtr(n), n.f[0]])


@trait_model(r"^tokio::sync::(futures::)?Notified", "Future", "poll")
def _notified_poll(it, args, dty, func):
    fut = _deref(args[0])
    if not (isinstance(fut, Agg) and fut.ty == "{notified}"):
        raise Unsupported(f"poll of {fut!r}")
    n, gen0 = fut.f[0], fut.f[1]
    if len(fut.f) > 2 and fut.f[2]:                     # completed by enable()
        return Enum("std::task::Poll", 0, "Ready", [UNIT])
    if n.f[0] > gen0:
        return Enum("std::task::Poll", 0, "Ready", [UNIT])
    if n.f[1]:
        n.f[1] = False
        return Enum("std::task::Poll", 0, "Ready", [UNIT])
    return Enum("std::task::Poll", 1, "Pending", [])


@model("tokio::sync::futures::Notified::enable", "tokio::sync::Notified::enable")
def _notified_enable(it, args, dty, func):
    """registers the waiter (a Notified already receives notify_waiters() calls made after its creation) and returns
    whether it has completed: a stored notify_one permit is consumed at this point"""
    fut = _deref(args[0])
    while isinstance(fut, (Ref, BoxV)):
        fut = _deref(fut.load())
    if not (isinstance(fut, Agg) and fut.ty == "{notified}"):
        raise Unsupported(f"enable of {fut!r}")
    n, gen0 = fut.f[0], fut.f[1]
    done = len(fut.f) > 2 and fut.f[2]
    if not done:
        if n.f[0] > gen0:
            done = True
        elif n.f[1]:
            n.f[1] = False
            done = True
    if len(fut.f) > 2:
        fut.f[2] = done
    else:
        fut.f.append(done)
    return done


@trait_model(r"^tokio::sync::(futures::)?Notified", "IntoFuture", "into_future")
def _notified_into(it, args, dty, func):
    return args[0]


# tokio's async mutex, sequential semantics: lock() is Ready when the mutex is free at the moment it is polled;
# the guard's drop (MODEL_DROPS below, consulted by the interpreter's drop handling) releases it
@model("tokio::task::yield_now", "tokio::task::yield_now::yield_now")
def _yield_now(it, args, dty, func):
    return Agg("{yield_now}", [False])


@model("tokio::sync::Mutex::new")
def _amutex_new(it, args, dty, func):
    return Agg("{amutex}", [False, args[0]])


@model("tokio::sync::Mutex::lock")
def _amutex_lock(it, args, dty, func):
    return Agg("{amutex.lockfut}", [args[0]])


def _amutex_poll(it, fut):
    m = _deref(fut.f[0])
    if m.f[0]:
        return Enum("std::task::Poll", 1, "Pending", [])
    m.f[0] = True
    return Enum("std::task::Poll", 0, "Ready", [Agg("{amutex.guard}", [fut.f[0]])])


def _amutex_guard_drop(it, guard):
    m = _deref(guard.f[0])
    m.f[0] = False


MODEL_DROPS = {"{amutex.guard}": _amutex_guard_drop}


# --- fibre channels, sequential semantics (bounded FIFOs); interleavings are cfa-bmc's job ------------
class _ChanM:
    __slots__ = ("items", "cap", "closed", "senders", "receivers")

    def __init__(self, cap):
        self.items, self.cap, self.closed = [], cap, False
        self.senders, self.receivers = 1, 1           # live handles: fibre closes a channel when the LAST handle of a side closes


@model("fibre::spsc::bounded_async", "fibre::mpmc_v2::bounded_async", "fibre::mpmc::bounded_async")
def _chan_new(it, args, dty, func):
    ch = _ChanM(concretize(it, args[0], 1 << 20, "channel capacity"))
    return Agg("tuple", [Agg("{chan.tx}", [ch]), Agg("{chan.rx}", [ch])])


def _chan(v):
    v = _deref(v)
    return v.f[0]


@model("fibre::spsc::BoundedAsyncSender::try_send", "fibre::mpmc_v2::AsyncSender::try_send", "fibre::mpsc::BoundedAsyncSender::try_send")
def _chan_try_send(it, args, dty, func):
    ch = _chan(args[0])
    if ch.closed:
        return err(Enum("fibre::TrySendError", 1, "Closed", [args[1]]))
    if len(ch.items) >= ch.cap:
        return err(Enum("fibre::TrySendError", 0, "Full", [args[1]]))
    ch.items.append(args[1])
    return ok(UNIT)


@model("fibre::spsc::BoundedAsyncReceiver::try_recv", "fibre::mpmc_v2::AsyncReceiver::try_recv")
def _chan_try_recv(it, args, dty, func):
    ch = _chan(args[0])
    if ch.items:
        return ok(ch.items.pop(0))
    return err(Enum("fibre::TryRecvError", 1 if ch.closed else 0, "Disconnected" if ch.closed else "Empty", []))


# awaited channel operations (sequential semantics): the future is Ready when the operation can take effect at
# the moment it is polled and Pending otherwise; a pending send future owns its item until it is polled Ready
@model("fibre::spsc::BoundedAsyncSender::send", "fibre::mpmc_v2::AsyncSender::send", "fibre::mpsc::BoundedAsyncSender::send")
def _chan_send_fut(it, args, dty, func):
    return Agg("{chan.sendfut}", [_chan(args[0]), args[1], False])


@model("fibre::spsc::BoundedAsyncReceiver::recv", "fibre::mpmc_v2::AsyncReceiver::recv")
def _chan_recv_fut(it, args, dty, func):
    return Agg("{chan.recvfut}", [_chan(args[0])])


@trait_model(r"^fibre::(spsc|mpmc_v2|mpsc)::(Bounded)?(SendFuture|RecvFuture|ReceiveFuture)", "Future", "poll")
def _chan_fut_poll(it, args, dty, func):
    fut = _deref(args[0])
    if not isinstance(fut, Agg) or fut.ty not in ("{chan.sendfut}", "{chan.recvfut}"):
        raise Unsupported(f"poll of {fut!r}")
    ch = fut.f[0]
    if fut.ty == "{chan.sendfut}":
        if fut.f[2]:
            raise Panic("poll-after-ready", "send future polled after completion", "", "")
        if ch.closed:
            fut.f[2] = True
            return Enum("std::task::Poll", 0, "Ready", [err(Agg("fibre::SendError", []))])
        if len(ch.items) >= ch.cap:
            return Enum("std::task::Poll", 1, "Pending", [])
        ch.items.append(fut.f[1])
        fut.f[2] = True
        return Enum("std::task::Poll", 0, "Ready", [ok(UNIT)])
    if ch.items:
        return Enum("std::task::Poll", 0, "Ready", [ok(ch.items.pop(0))])
    if ch.closed:
        return Enum("std::task::Poll", 0, "Ready", [err(Agg("fibre::RecvError", []))])
    return Enum("std::task::Poll", 1, "Pending", [])


@trait_model(r"^fibre::(spsc|mpmc_v2|mpsc)::(Bounded)?(SendFuture|RecvFuture|ReceiveFuture)", "IntoFuture", "into_future")
def _chan_fut_into(it, args, dty, func):
    return args[0]


@model("fibre::spsc::BoundedAsyncReceiver::len", "fibre::spsc::BoundedAsyncSender::len")
def _chan_len(it, args, dty, func):
    return len(_chan(args[0]).items)


@model("fibre::spsc::BoundedAsyncReceiver::capacity", "fibre::spsc::BoundedAsyncSender::capacity")
def _chan_cap(it, args, dty, func):
    return _chan(args[0]).cap


@model("fibre::mpsc::BoundedReceiver::try_recv_batch_mut", "fibre::mpsc::BoundedAsyncReceiver::try_recv_batch_mut")
def _chan_try_recv_batch_mut(it, args, dty, func):
    """appends up to `limit` queued items to the vector; Ok(count), or an error when nothing is queued"""
    ch = _chan(args[0])
    vec = args[1].load()
    limit = concretize(it, args[2], 1 << 20, "batch limit")
    n = 0
    while ch.items and n < limit:
        vec.f.append(ch.items.pop(0))
        n += 1
    if n == 0:
        return err(Enum("fibre::TryRecvError", 1 if ch.closed else 0, "Disconnected" if ch.closed else "Empty", []))
    return ok(n)


@model("std::hint::spin_loop", "core::hint::spin_loop")
def _spin_loop(it, args, dty, func):
    return UNIT


@model("fibre::mpsc::BoundedReceiver::is_empty")
def _chan_rx_is_empty(it, args, dty, func):
    return not _chan(args[0]).items


@model("fibre::mpsc::BoundedAsyncSender::is_empty", "fibre::spsc::BoundedAsyncSender::is_empty", "fibre::mpmc_v2::AsyncSender::is_empty",
       "fibre::mpsc::BoundedAsyncReceiver::is_empty", "fibre::spsc::BoundedAsyncReceiver::is_empty", "fibre::mpmc_v2::AsyncReceiver::is_empty")
def _chan_is_empty(it, args, dty, func):
    return not _chan(args[0]).items


@model("fibre::mpsc::BoundedAsyncSender::is_full", "fibre::spsc::BoundedAsyncSender::is_full", "fibre::mpmc_v2::AsyncSender::is_full")
def _chan_is_full(it, args, dty, func):
    ch = _chan(args[0])
    return len(ch.items) >= ch.cap


@model("fibre::mpmc_v2::AsyncSender::close", "fibre::mpmc_v2::AsyncReceiver::close", "fibre::mpsc::BoundedAsyncSender::close")
def _chan_close(it, args, dty, func):
    """fibre: close() retires THIS handle (idempotent per handle); the channel is closed - parked peers woken with an
    error - only when the last handle of that side has been closed or dropped. Dropping a handle is not tracked here,
    so a modelled channel can stay open longer than the real one, never shorter."""
    hd = _deref(args[0])
    ch = hd.f[0]
    if len(hd.f) > 1 and hd.f[1]:
        return err(Agg("fibre::CloseError", []))
    hd.f.append(True) if len(hd.f) == 1 else hd.f.__setitem__(1, True)
    if hd.ty == "{chan.tx}":
        ch.senders -= 1
        if ch.senders <= 0:
            ch.closed = True
    else:
        ch.receivers -= 1
        if ch.receivers <= 0:
            ch.closed = True
    return ok(UNIT)


@trait_model(r"^fibre::", "Clone", "clone")
def _chan_clone(it, args, dty, func):
    hd = _deref(args[0])
    if isinstance(hd, Agg) and hd.ty in ("{chan.tx}", "{chan.rx}"):
        ch = hd.f[0]
        if hd.ty == "{chan.tx}":
            ch.senders += 1
        else:
            ch.receivers += 1
        return Agg(hd.ty, [ch])
    return hd


@model("std::sync::Arc::downgrade")
def _arc_downgrade(it, args, dty, func):
    v = args[0]
    while isinstance(v, Ref) and not isinstance(v, BoxV):
        v = v.load()
    return v


@model("std::sync::Weak::upgrade")
def _weak_upgrade(it, args, dty, func):
    v = args[0]
    while isinstance(v, Ref) and not isinstance(v, BoxV):
        v = v.load()
    # liveness of the pointee is tracked by the registry that owns it (pipes map): a slot removed from the map
    # is marked dead by the `dead` flag on its cell
    if getattr(v.cell, "name", "") == "dead":
        return none()
    return some(v)


@model("std::thread::yield_now")
def _yield_now(it, args, dty, func):
    return UNIT


@model("std::boxed::Box::new_uninit")
def _box_new_uninit(it, args, dty, func):
    # Box<MaybeUninit<T>>: MaybeUninit { uninit: (), value: ManuallyDrop(MaybeDangling(T)) } as laid out in the MIR of vec![..]
    inner = Agg("std::mem::MaybeUninit", [UNIT, Agg("std::mem::ManuallyDrop", [Agg("std::mem::MaybeDangling", [None])])])
    return BoxV(Cell(inner, "heap"), ())


@model("std::boxed::box_assume_init_into_vec_unsafe")
def _box_into_vec(it, args, dty, func):
    arr = args[0].load().f[1].f[0].f[0]
    return Seq("vec", list(arr.f), getattr(arr, "elem_ty", "?"))


# --- more iterator combinators --------------------------------------------------------------------------
def _as_iter_state(v):
    return v.load() if isinstance(v, Ref) else v


@trait_model(r".*", "Iterator", "zip")
def _iter_zip(it, args, dty, func):
    b = args[1]
    bt = _as_iter_state(b)
    if not (isinstance(bt, Agg) and bt.ty.startswith("{")):
        bt = _into_iter(it, [b], "", "into_iter")
    return Agg("{zip}", [args[0], bt])


@trait_model(r".*", "Iterator", "fold")
def _iter_fold(it, args, dty, func):
    acc = args[1]
    for x in iter_all(it, _as_iter_state(args[0])):
        acc = it.call_closure(args[2], Agg("tuple", [acc, x]), "")
    return acc


@trait_model(r".*", "Iterator", "for_each")
def _iter_for_each(it, args, dty, func):
    for x in iter_all(it, _as_iter_state(args[0])):
        it.call_closure(args[1], Agg("tuple", [x]), "")
    return UNIT


@trait_model(r".*", "Iterator", "filter")
def _iter_filter(it, args, dty, func):
    out = []
    for x in iter_all(it, _as_iter_state(args[0])):
        if it.ctx.branch(it.call_closure(args[1], Agg("tuple", [Ref(Cell(x, "item"), ())]), "bool")):
            out.append(x)
    return Agg("{owned_iter}", [Seq("vec", out, "?"), 0])


@trait_model(r".*", "Iterator", "take")
def _iter_take(it, args, dty, func):
    n = concretize(it, args[1], 4096, "take count")
    return Agg("{owned_iter}", [Seq("vec", iter_all(it, _as_iter_state(args[0]))[:n], "?"), 0])


@trait_model(r".*", "Iterator", "skip")
def _iter_skip(it, args, dty, func):
    n = concretize(it, args[1], 4096, "skip count")
    return Agg("{owned_iter}", [Seq("vec", iter_all(it, _as_iter_state(args[0]))[n:], "?"), 0])


@trait_model(r".*", "Iterator", "last")
def _iter_last(it, args, dty, func):
    xs = iter_all(it, _as_iter_state(args[0]))
    return some(xs[-1]) if xs else none()


@trait_model(r".*", "Iterator", "chain")
def _iter_chain(it, args, dty, func):
    b = _as_iter_state(args[1])
    if not (isinstance(b, Agg) and b.ty.startswith("{")):
        b = _into_iter(it, [args[1]], "", "into_iter")
    return Agg("{owned_iter}", [Seq("vec", iter_all(it, _as_iter_state(args[0])) + iter_all(it, b), "?"), 0])


@trait_model(r".*", "Iterator", "copied")
@trait_model(r".*", "Iterator", "cloned")
def _iter_copied(it, args, dty, func):
    xs = [clone_val(x.load() if isinstance(x, Ref) else x) for x in iter_all(it, _as_iter_state(args[0]))]
    return Agg("{owned_iter}", [Seq("vec", xs, "?"), 0])


# --- further Option / Result / Range combinators -----------------------------------------------------------
@model("std::option::Option::filter")
def _opt_filter(it, args, dty, func):
    o = args[0]
    if o.idx == 0:
        return o
    keep = it.call_closure(args[1], Agg("tuple", [Ref(Cell(o.f[0], "opt"), ())]), "bool")
    return o if it.ctx.branch(keep) else none(o.ty)


@model("std::option::Option::or")
def _opt_or(it, args, dty, func):
    return args[0] if args[0].idx == 1 else args[1]


@model("std::option::Option::or_else", "std::result::Result::or_else")
def _opt_or_else(it, args, dty, func):
    o = args[0]
    if o.vname in ("Some", "Ok"):
        return o
    return it.call_closure(args[1], Agg("tuple", list(o.f)), dty)


@model("std::option::Option::and")
def _opt_and(it, args, dty, func):
    return args[1] if args[0].idx == 1 else args[0]


@model("std::option::Option::is_some_and", "std::result::Result::is_ok_and")
def _is_some_and(it, args, dty, func):
    o = _deref(args[0])
    if o.vname not in ("Some", "Ok"):
        return False
    return it.call_closure(args[1], Agg("tuple", [o.f[0]]), "bool")


@model("std::option::Option::is_none_or")
def _is_none_or(it, args, dty, func):
    o = _deref(args[0])
    if o.idx == 0:
        return True
    return it.call_closure(args[1], Agg("tuple", [o.f[0]]), "bool")


@model("std::option::Option::inspect", "std::result::Result::inspect")
def _opt_inspect(it, args, dty, func):
    return args[0]


@model("std::option::Option::get_or_insert_with")
def _get_or_insert_with(it, args, dty, func):
    r = args[0]
    o = r.load()
    if o.idx == 0:
        v = it.call_closure(args[1], Agg("tuple", []), "")
        r.store(some(v, o.ty))
    return r.child(0)


@model("std::option::Option::insert")
def _opt_insert(it, args, dty, func):
    r = args[0]
    r.store(some(args[1], r.load().ty))
    return r.child(0)


@model("std::option::Option::zip")
def _opt_zip(it, args, dty, func):
    a, b = args
    if a.idx == 1 and b.idx == 1:
        return some(Agg("tuple", [a.f[0], b.f[0]]))
    return none()


@model_re(r"^(std|core)::ops::Range(Inclusive|From|To|ToInclusive)?::contains$|^(std|core)::ops::RangeBounds::contains$")
def _range_contains(it, args, dty, func):
    rng = _deref(args[0])
    x = _deref(args[1])
    t = _last(rng.ty)
    w = 64
    from .interp import int_binop
    def ge(a, b):
        return int_binop("Ge", a, b, w, False)
    def lt(a, b):
        return int_binop("Lt", a, b, w, False)
    def le(a, b):
        return int_binop("Le", a, b, w, False)
    conds = []
    if t in ("Range", "RangeFrom", "RangeInclusive"):
        conds.append(ge(x, rng.f[0]))
    if t == "Range":
        conds.append(lt(x, rng.f[1]))
    if t == "RangeInclusive":
        conds.append(le(x, rng.f[1]))
    if t == "RangeTo":
        conds.append(lt(x, rng.f[0]))
    if t == "RangeToInclusive":
        conds.append(le(x, rng.f[0]))
    return conj(conds)


@trait_model(r".*", "RangeBounds", "contains")
def _range_bounds_contains(it, args, dty, func):
    return _range_contains(it, args, dty, func)


@model("std::ops::RangeInclusive::new")
def _range_incl_new(it, args, dty, func):
    return Agg("std::ops::RangeInclusive", [args[0], args[1], False])


# --- awaiting crate `async fn`s: poll the callee's coroutine body from its MIR -------------------------------
@trait_model(r"^\{async fn body of ", "IntoFuture", "into_future")
def _async_into_future(it, args, dty, func):
    return args[0]


@trait_model(r"^\{async fn body of ", "Future", "poll")
def _async_poll(it, args, dty, func):
    m = re.match(r"^<\{async fn body of (.*?)\(\)\} as ", func)
    if not m:
        raise Unsupported("async poll: " + func[:80])
    path = strip_generics(m.group(1))
    if path == "tokio::sync::Mutex::lock":
        return _amutex_poll(it, _deref(args[0]))
    if path.endswith("yield_now"):
        # yields exactly once: Pending at the first poll, Ready at the second
        y = _deref(args[0])
        if isinstance(y, Agg) and y.ty == "{yield_now}":
            if y.f[0]:
                return Enum("std::task::Poll", 0, "Ready", [UNIT])
            y.f[0] = True
            return Enum("std::task::Poll", 1, "Pending", [])
    fn = it.resolve_fn(path, path)
    if fn is None:
        raise Unsupported("async fn body not found: " + path)
    coro = args[0]
    while isinstance(coro, Ref) and not (isinstance(coro.load(), Agg) and str(coro.load().ty).startswith("{coroutine")):
        coro = coro.load()
    return it.run_body(it.prog.body(fn.split("@")[0] + "::{closure#0}"), [coro, args[1]])


# --- tokio::select! : poll_fn over a closure that polls the branches, random or biased start ------------------
@model("std::future::poll_fn", "tokio::macros::support::poll_fn", "tokio::future::poll_fn", "core::future::poll_fn")
def _poll_fn(it, args, dty, func):
    return Agg("{pollfn}", [args[0]])


@trait_model(r"^(std|core)::future::PollFn|^tokio::future::PollFn|^tokio::macros::support::PollFn", "Future", "poll")
def _pollfn_poll(it, args, dty, func):
    pf = _deref(args[0])
    if not (isinstance(pf, Agg) and pf.ty == "{pollfn}"):
        raise Unsupported(f"poll of {pf!r}")
    clos = pf.f[0]
    return it.call_closure(Ref(Cell(clos, "pollfn-closure"), ()) if not isinstance(clos, Ref) else clos, Agg("tuple", [args[1]]), dty)


@trait_model(r"^(std|core)::future::PollFn|^tokio::future::PollFn|^tokio::macros::support::PollFn", "IntoFuture", "into_future")
def _pollfn_into(it, args, dty, func):
    return args[0]


@model("tokio::macros::support::poll_budget_available")
def _poll_budget(it, args, dty, func):
    return Enum("std::task::Poll", 0, "Ready", [UNIT])       # cooperative budget: never exhausted in the model


_RNG = [0]


@model("tokio::macros::support::thread_rng_n")
def _thread_rng_n(it, args, dty, func):
    # the start branch of an unbiased select!: every value is explored
    n = concretize(it, args[0], 64, "select! branch count")
    _RNG[0] += 1
    v = z3.BitVec(f"select_start#{it.steps}", 32)
    c = it.ctx.switch(v, list(range(n)))
    if c == "otherwise":
        raise PathAbort("select start out of range")
    return c


@trait_model(r"^\{async block@", "Future", "poll")
def _async_block_poll(it, args, dty, func):
    coro = args[0]
    while isinstance(coro, Ref) and not (isinstance(coro.load(), Agg) and str(coro.load().ty).startswith("{coroutine")):
        coro = coro.load()
    ty = str(coro.load().ty)
    fn = it.async_block_fn(ty)
    if fn is None:
        raise Unsupported("async block body not found: " + ty[:100])
    return it.run_body(it.prog.body(fn), [coro, args[1]])


@trait_model(r"^std::pin::Pin", "Future", "poll")
def _pinned_box_poll(it, args, dty, func):
    # Pin<Box<dyn Future>> as returned by #[async_trait] methods: the box holds the coroutine of an async block
    coro = args[0]
    while isinstance(coro, Ref) and not (isinstance(coro.load(), Agg) and str(coro.load().ty).startswith("{coroutine")):
        nxt = coro.load()
        if not isinstance(nxt, Ref):
            raise Unsupported(f"poll of pinned {nxt!r}")
        coro = nxt
    fn = it.async_block_fn(str(coro.load().ty))
    if fn is None:
        raise Unsupported("async block body not found: " + str(coro.load().ty)[:100])
    return it.run_body(it.prog.body(fn), [coro, args[1]])


@trait_model(r"^&mut ", "Future", "poll")
def _ref_future_poll(it, args, dty, func):
    """`(&mut fut).poll()` as written in `select! { _ = &mut notified => .. }`: forwards to the future behind the reference"""
    r = args[0]
    v = _deref(r)
    while isinstance(v, (Ref, BoxV)):
        r = v
        v = _deref(v.load()) if isinstance(v, BoxV) else v.load()
    if isinstance(v, Agg) and v.ty == "{notified}":
        return _notified_poll(it, [r, args[1]], dty, func)
    raise Unsupported(f"poll through &mut of {v!r}"[:120])


@trait_model(r"^\{async block@", "IntoFuture", "into_future")
def _async_block_into(it, args, dty, func):
    return args[0]


@model("std::pin::Pin::new_unchecked", "std::pin::Pin::new", "std::pin::Pin::as_mut", "std::pin::Pin::get_mut", "std::pin::Pin::into_inner")
def _pin_identity(it, args, dty, func):
    return args[0]
