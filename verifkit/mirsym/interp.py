"""mirsym interpreter: executes rustc MIR bodies with z3 terms as scalar values.

Exploration is replay-based DFS: a *path* is identified by the list of outcomes of the symbolic
branches met so far (its decision prefix). Running a prefix re-executes the harness from the start,
follows the recorded outcomes without solver calls, and on reaching a new symbolic branch asks z3
which outcomes are feasible under the path condition, continues with the first and schedules the
others. No interpreter state is ever copied.
"""
from __future__ import annotations
import re, time
import z3
from .parser import MirProgram, Place, parsed_block, split_top, find_top, match_close
from .values import *


class Panic(Exception):
    def __init__(self, kind, msg, loc="", fn=""):
        super().__init__(f"{kind}: {msg} @ {loc}")
        self.kind, self.msg, self.loc, self.fn = kind, msg, loc, fn


class Unsupported(Exception):
    """construct or callee outside the encoder: the path is inconclusive, never pass/fail"""


class PathAbort(Exception):
    """driver-requested end of path (assume false etc.)"""


class StepLimit(Exception):
    pass


STD_ENUMS = {
    "Option": ["None", "Some"], "Result": ["Ok", "Err"], "Poll": ["Ready", "Pending"],
    "ControlFlow": ["Continue", "Break"], "Cow": ["Borrowed", "Owned"],
    "Bound": ["Included", "Excluded", "Unbounded"], "Entry": ["Occupied", "Vacant"],
    "TryRecvError": ["Empty", "Disconnected"], "CoroutineState": ["Yielded", "Complete"],
}


class PathCtx:
    """per-path state: decisions, path condition, solver"""

    def __init__(self, prefix, timeout_ms=20000, seed=0):
        self.prefix = list(prefix)
        self.trace = []            # outcomes of all symbolic branches so far
        self.pending = []          # alternative prefixes discovered on this path
        self.pc = []
        self.solver = z3.Solver()
        self.solver.set("timeout", timeout_ms)
        if seed:
            self.solver.set("random_seed", seed)
        self.queries = 0
        self.solver_s = 0.0
        self.fresh = 0
        self.notes = []
        self.site = ""            # set by the interpreter: current function (for fork statistics)
        self.fork_sites = {}

    def check(self, *extra):
        t0 = time.time()
        r = self.solver.check(*extra)
        self.solver_s += time.time() - t0
        self.queries += 1
        if r == z3.unknown:
            # one retry on a fresh solver with a 6x longer limit before giving up on the path
            s2 = z3.Solver()
            s2.set("timeout", 180000)
            for c in self.pc:
                s2.add(bl(c))
            t0 = time.time()
            r = s2.check(*extra)
            self.solver_s += time.time() - t0
            self.queries += 1
            if r == z3.unknown:
                raise Unsupported("solver returned unknown: " + s2.reason_unknown())
            if r == z3.sat:
                self.last_model = s2.model()
            return r == z3.sat
        if r == z3.sat:
            self.last_model = self.solver.model()
        return r == z3.sat

    def add(self, c):
        c = simp(c) if is_sym(c) else c
        if c is True:
            return
        self.pc.append(c)
        self.solver.add(bl(c))
        m = getattr(self, "model_cache", None)
        if m is not None and not z3.is_true(m.eval(bl(c), model_completion=True)):
            self.model_cache = None

    def _eval_cached(self, c):
        m = getattr(self, "model_cache", None)
        if m is None:
            return None
        v = m.eval(c, model_completion=True)
        if z3.is_true(v):
            return True
        if z3.is_false(v):
            return False
        return None

    def branch(self, cond) -> bool:
        """decide a boolean; forks on symbolic conditions"""
        cond = simp(cond)
        if isinstance(cond, bool):
            return cond
        if isinstance(cond, int):
            return cond != 0
        c = bl(cond)
        k = len(self.trace)
        if k < len(self.prefix):
            out = self.prefix[k]
            self.trace.append(out)
            self.add(c if out else z3.Not(c))
            return out
        known = self._eval_cached(c)
        m_t = m_f = None
        if known is True:
            can_t, m_t = True, self.model_cache
            can_f = self.check(z3.Not(c))
            m_f = self.last_model if can_f else None
        elif known is False:
            can_f, m_f = True, self.model_cache
            can_t = self.check(c)
            m_t = self.last_model if can_t else None
        else:
            can_t = self.check(c)
            m_t = self.last_model if can_t else None
            can_f = self.check(z3.Not(c))
            m_f = self.last_model if can_f else None
        if can_t and can_f:
            self.fork_sites[self.site] = self.fork_sites.get(self.site, 0) + 1
            self.pending.append(self.trace + [False])
            self.trace.append(True)
            self.model_cache = m_t
            self.add(c)
            return True
        if not can_t and not can_f:
            raise PathAbort("infeasible path")
        out = can_t
        self.trace.append(out)
        self.model_cache = m_t if out else m_f
        # implied by the path condition; recorded so that replays need no solver call
        return out

    def choose(self, n: int, label="") -> int:
        """n-way nondeterministic choice made by the driver (e.g. an input length)"""
        k = len(self.trace)
        if k < len(self.prefix):
            out = self.prefix[k]
            self.trace.append(out)
            return out
        for alt in range(1, n):
            self.pending.append(self.trace + [alt])
        self.trace.append(0)
        return 0

    def switch(self, val, options):
        """options: list of concrete ints; returns the chosen int or 'otherwise'"""
        val = simp(val)
        if isinstance(val, bool):
            val = int(val)
        if isinstance(val, int):
            return val if val in options else "otherwise"
        w = val.size() if not z3.is_bool(val) else 1
        k = len(self.trace)
        if k < len(self.prefix):
            out = self.prefix[k]
            self.trace.append(out)
            if out == "otherwise":
                for o in options:
                    self.add(bv(val, w) != z3.BitVecVal(o, w))
            else:
                self.add(bv(val, w) == z3.BitVecVal(out, w))
            return out
        # model-guided enumeration of the feasible options (one query per feasible outcome)
        feas, excluded, other = [], [], False
        optset = {mask(o, w) for o in options}
        V = bv(val, w)
        while True:
            cons = [V != z3.BitVecVal(o, w) for o in excluded]
            if other:
                cons.append(z3.Or([V == z3.BitVecVal(o, w) for o in optset]) if optset else z3.BoolVal(False))
            if not self.check(*cons):
                break
            got = self.last_model.eval(V, model_completion=True).as_long()
            if got in optset:
                feas.append(got)
                excluded.append(got)
            else:
                other = True
                feas.append("otherwise")
        feas.sort(key=lambda x: (x == "otherwise", x if x != "otherwise" else 0))
        self.model_cache = None
        if not feas:
            raise PathAbort("infeasible path")
        for alt in feas[1:]:
            self.fork_sites[self.site] = self.fork_sites.get(self.site, 0) + 1
            self.pending.append(self.trace + [alt])
        out = feas[0]
        self.trace.append(out)
        if len(feas) > 1:
            if out == "otherwise":
                for o in options:
                    self.add(bv(val, w) != z3.BitVecVal(mask(o, w), w))
            else:
                self.add(bv(val, w) == z3.BitVecVal(mask(out, w), w))
        return out

    def fresh_bv(self, name, w):
        self.fresh += 1
        return z3.BitVec(f"{name}!{self.fresh}", w)

    def fresh_bool(self, name):
        self.fresh += 1
        return z3.Bool(f"{name}!{self.fresh}")

    def model(self):
        if self.check():
            return self.solver.model()
        return None


class Frame:
    __slots__ = ("body", "cells", "generics")

    def __init__(self, body):
        self.body = body
        self.cells = {}


_TRACE_CALLS = bool(__import__("os").environ.get("MIRSYM_TRACE_CALLS"))


class Interp:
    def __init__(self, prog: MirProgram, ctx: PathCtx, models, max_steps=400000):
        self.prog, self.ctx, self.models = prog, ctx, models
        self.steps, self.max_steps = 0, max_steps
        self.const_cache = {}
        self.called = set()        # crate functions executed (evidence)
        self.models_used = set()
        self.clock = None          # installed by drivers that model time
        self.depth = 0
        self.hooks = {}            # function name -> python override (drivers)
        self.drop_hook = None      # (it, frame, place, type) -> True if the drop was handled (cfa extraction: lock guards)
        self.extern = None         # callable(it, plain_name, args, dest_ty, func) -> value | NotImplemented

    # ------------------------------------------------------------------ types
    def local_type(self, body, n):
        return body.locals.get(n, "?")

    def place_type(self, body, place: Place):
        ty = self.local_type(body, place.local)
        for st in place.proj:
            k = st[0]
            if k == "field":
                ty = st[2]
            elif k == "deref":
                ty = deref_type(ty)
            elif k in ("index", "cindex"):
                ty = elem_type(ty)
            elif k == "subslice":
                ty = "[" + elem_type(ty) + "]"
            # downcast: unchanged
        return ty

    def operand_type(self, body, op):
        if op[0] in ("copy", "move"):
            return self.place_type(body, op[1])
        c = op[1]
        m = re.match(r"^-?\d+_(\w+)$", c)
        if m:
            return m.group(1)
        if c in ("true", "false"):
            return "bool"
        if c.startswith("b\""):
            return "&[u8]"
        if c.startswith('"'):
            return "&str"
        if c.startswith("'"):
            return "char"
        m = re.match(r"^(\w+)::(MAX|MIN|BITS)$", c)
        if m:
            return m.group(1)
        m = re.match(r"^core::num::<impl (\w+)>::(MAX|MIN|BITS)$", c)
        if m:
            return m.group(1) if m.group(2) != "BITS" else "u32"
        tgt = self.resolve_const_item(c)
        if tgt is not None:
            hdr = self.prog.lines[self.prog.const_index[tgt]]
            m = re.match(r"^(?:const|static)(?: mut)? .*?: (.*?) = ", hdr)
            if m:
                return m.group(1).strip()
        return "?"

    # ------------------------------------------------------------------ places
    def eval_place_ref(self, fr: Frame, place: Place):
        """-> Ref | SliceRef (for subslices / unsized)"""
        cell = fr.cells.get(place.local)
        if cell is None:
            cell = fr.cells[place.local] = Cell(None, f"_{place.local}")
        cur = Ref(cell, ())
        pending_variant = 0
        for st in place.proj:
            k = st[0]
            if k == "deref":
                v = cur.load() if isinstance(cur, Ref) else cur
                if isinstance(v, (Ref, SliceRef)):
                    cur = v
                elif isinstance(v, Agg) and v.ty.startswith("{dynfat}"):
                    cur = v.f[0]
                else:
                    raise Unsupported(f"deref of non-pointer {v!r} in {fr.body.name}")
            elif k == "field":
                if isinstance(cur, SliceRef):
                    raise Unsupported("field of slice")
                v = cur.load()
                if isinstance(v, (Ref,)) and not isinstance(v, SliceRef):
                    # Box internals: (box.0: Unique<T>).0: NonNull<T> -> the pointer itself
                    cur = _PtrSelf(cur)
                    continue
                if isinstance(cur, _PtrSelf):
                    continue
                cur = cur.child(st[1] + pending_variant)
                pending_variant = 0
            elif k == "downcast":
                if st[1].startswith("variant#"):
                    pending_variant = (int(st[1][8:]) + 1) * 1000
                continue
            elif k == "index":
                idx = fr.cells[st[1]].v
                cur = self.index_ref(cur, idx, fr)
            elif k == "cindex":
                off, minlen, from_end = st[1], st[2], st[3]
                base = cur.load() if isinstance(cur, Ref) else cur
                if isinstance(cur, SliceRef):
                    n = cur.len
                    i = n - abs(off) if from_end else off
                    cur = cur.elem_ref(i)
                else:
                    n = len(base.f)
                    i = n - abs(off) if from_end else off
                    cur = cur.child(i)
            elif k == "subslice":
                frm, to = st[1], st[2]
                if isinstance(cur, SliceRef):
                    n = cur.len
                    end = n - abs(int(to)) if to not in ("", None) else n
                    cur = SliceRef(cur.base, cur.start + frm, end - frm, cur.is_str)
                else:
                    n = len(cur.load().f)
                    end = n - abs(int(to)) if to not in ("", None) else n
                    cur = SliceRef(cur, frm, end - frm)
            else:
                raise Unsupported("projection " + k)
        if isinstance(cur, _PtrSelf):
            return cur.inner
        return cur

    def index_ref(self, cur, idx, fr):
        if isinstance(cur, SliceRef):
            n = cur.len
        else:
            base = cur.load()
            n = len(base.f)
        idx = simp(idx)
        if is_sym(idx):
            # pick a concrete index by forking over the feasible ones (n is small by construction)
            opts = list(range(n))
            ch = self.ctx.switch(idx, opts)
            if ch == "otherwise":
                raise Panic("bounds", f"index out of bounds: the len is {n}", fn=fr.body.name)
            idx = ch
        if idx >= n:
            raise Panic("bounds", f"index out of bounds: the len is {n} but the index is {idx}", fn=fr.body.name)
        return cur.elem_ref(idx) if isinstance(cur, SliceRef) else cur.child(idx)

    def read_place(self, fr, place):
        r = self.eval_place_ref(fr, place)
        if isinstance(r, SliceRef):
            return r
        try:
            v = r.load()
        except AttributeError:
            raise Unsupported(f"read of an uninitialised place: _{place.local} {place.proj!r} in {fr.body.name[-60:]}")
        return v

    def write_place(self, fr, place, val):
        if not place.proj:
            cell = fr.cells.get(place.local)
            if cell is None:
                fr.cells[place.local] = Cell(val, f"_{place.local}")
            else:
                cell.v = val
            return
        # writing a field of an uninitialised aggregate: materialise it
        r = self._ref_for_write(fr, place)
        r.store(val)

    def _ref_for_write(self, fr, place):
        # ensure parents exist (MIR initialises aggregates field by field after Deinit)
        cell = fr.cells.get(place.local)
        if cell is None:
            cell = fr.cells[place.local] = Cell(None, f"_{place.local}")
        if cell.v is None and place.proj and place.proj[0][0] in ("field", "downcast"):
            cell.v = Agg(self.local_type(fr.body, place.local), [])
        r = self.eval_place_ref_w(fr, place)
        return r

    def eval_place_ref_w(self, fr, place):
        # like eval_place_ref but grows field lists on demand
        cell = fr.cells[place.local]
        cur = Ref(cell, ())
        if any(st[0] == "downcast" and st[1].startswith("variant#") for st in place.proj) or any(st[0] == "deref" for st in place.proj):
            return self.eval_place_ref(fr, place)
        for st in place.proj:
            if st[0] == "field":
                v = cur.load()
                if isinstance(v, (Agg, Enum)):
                    while len(v.f) <= st[1]:
                        v.f.append(None)
                    if v.f[st[1]] is None and st is not place.proj[-1]:
                        v.f[st[1]] = Agg(st[2], [])
                    cur = cur.child(st[1])
                    continue
                return self.eval_place_ref(fr, place)
            elif st[0] == "downcast":
                continue
            else:
                return self.eval_place_ref(fr, place)
        return cur

    # ------------------------------------------------------------------ operands / consts
    def eval_operand(self, fr, op):
        k = op[0]
        if k == "copy":
            v = self.read_place(fr, op[1])
            if type(v) is SharedEnumV:
                return v.snapshot()
            return clone_val(v) if isinstance(v, (Agg, Enum, Seq, MapV)) else v
        if k == "move":
            v = self.read_place(fr, op[1])
            if type(v) is SharedEnumV:
                return v.snapshot()
            return v
        return self.eval_const(fr, op[1])

    def eval_const(self, fr, c: str):
        m = re.match(r"^(-?\d+)_(\w+)$", c)
        if m:
            w = int_width(m.group(2))
            return mask(int(m.group(1)), w)
        mf = re.match(r"^(-?[\d.]+(?:[eE][-+]?\d+)?|-?inf|NaN)(f32|f64)$", c)
        if mf:
            return float(mf.group(1).replace("NaN", "nan"))
        if c == "true":
            return True
        if c == "false":
            return False
        if c.startswith("ZeroSized: "):
            t = c[len("ZeroSized: "):].strip()
            if t.startswith("{closure@"):
                return Agg(t, [])
            if t == "()":
                return UNIT
            return Agg(strip_generics(t), [])
        if c == "()" or c.startswith("ZeroSized"):
            return UNIT
        if c.startswith('b"'):
            data = parse_bytes_literal(c[1:])
            cell = Cell(Seq("array", list(data)), "bytes-lit")
            return Ref(cell, ())          # &[u8; N]
        if c.startswith('"'):
            data = parse_bytes_literal(c)
            cell = Cell(Seq("str", list(data)), "str-lit")
            return SliceRef(Ref(cell, ()), 0, len(data), True)
        if c.startswith("'"):
            body = c[1:-1]
            return ord(bytes(body, "utf-8").decode("unicode_escape")) if body.startswith("\\") else ord(body)
        m = re.match(r"^(?:core::num::<impl )?(\w+?)>?::(MAX|MIN|BITS)$", c)
        if m and int_width(m.group(1)):
            w = int_width(m.group(1))
            if m.group(2) == "BITS":
                return w
            if m.group(1) in SIGNED:
                return mask((1 << (w - 1)) - 1, w) if m.group(2) == "MAX" else mask(-(1 << (w - 1)), w)
            return (1 << w) - 1 if m.group(2) == "MAX" else 0
        if c.startswith("{alloc") or c.startswith("{transmute") or c.startswith("{0x"):
            return Opaque(c[:40])
        key = c
        if key in self.const_cache:
            return clone_val(self.const_cache[key])
        v = self._eval_named_const(fr, c)
        self.const_cache[key] = v
        return clone_val(v)

    def _eval_named_const(self, fr, c):
        # model-provided constants
        mv = self.models.const(self, c)
        if mv is not None:
            return mv
        name = c
        # promoted / named consts of the crate
        target = self.resolve_const_item(name)
        if target is not None:
            hdr = self.prog.lines[self.prog.const_index[target]]
            m = re.search(r" = const (.*);\s*(//.*)?$", hdr)
            if m and not hdr.rstrip().endswith("{"):
                return self.eval_const(fr, m.group(1).strip())
            return self.run_body(self.prog.body(target), [])
        # unit-like enum variant or unit struct
        plain = strip_generics(c)
        ev = self.enum_variant(plain)
        if ev is not None:
            ty, idx, vname = ev
            return Enum(ty, idx, vname, [])
        # function item / fn pointer
        if c.startswith("<") or self.resolve_fn(plain, c) is not None or self.models.lookup(plain) is not None:
            if __import__("os").environ.get("MIRSYM_DEBUG"):
                print("FnItem(fn) for const", c)
            return FnItem(c)
        if re.match(r"^[\w:]+$", plain) and plain.split("::")[-1][0].isupper():
            return Agg(plain, [])   # unit struct
        if __import__("os").environ.get("MIRSYM_DEBUG"):
            print("FnItem for const", c)
        return FnItem(c)

    def resolve_const_item(self, name):
        if name in self.prog.const_index:
            return name
        plain = strip_generics(name)
        if plain in self.prog.const_index:
            return plain
        m = re.match(r"^<(.*?) as (.*?)>::(\w+)::(promoted\[\d+\])$", plain)
        if m:
            cand = f"{strip_generics(m.group(2))}::{m.group(3)}::{m.group(4)}"
            if cand in self.prog.const_index:
                return cand
            fn = self.prog.resolve_method("", m.group(1), m.group(3), strip_generics(m.group(2)))
            if fn is not None and (fn + "::" + m.group(4)) in self.prog.const_index:
                return fn + "::" + m.group(4)
        # <Type as Trait>::method::{closure#n}::ITEM  (async_trait bodies)
        m = re.match(r"^<(.*?) as (.*?)>::(\w+)((?:::\{closure#\d+\})+)::(\w+|promoted\[\d+\])$", plain)
        if m:
            fn = self.prog.resolve_method("", m.group(1), m.group(3), strip_generics(m.group(2)))
            if fn is not None:
                cand = fn.split("@")[0] + m.group(4) + "::" + m.group(5)
                if cand in self.prog.const_index:
                    return cand
        # Type::method::promoted[N]  ->  <impl at ..>::method::promoted[N]
        m = re.match(r"^(.*)::(\w+)::(promoted\[\d+\])$", plain)
        if m:
            fn = self.resolve_fn(m.group(1) + "::" + m.group(2), m.group(1) + "::" + m.group(2))
            if fn is not None and (fn + "::" + m.group(3)) in self.prog.const_index:
                return fn + "::" + m.group(3)
            # closures: path::{closure#0}::promoted[..] appear verbatim
        # item nested in a method / closure:  Type::method[::{closure#n}]::NAME
        m = re.match(r"^(.*?)((?:::\{closure#\d+\})+)::(\w+|promoted\[\d+\])$", plain)
        if m:
            fn = self.resolve_fn(m.group(1), m.group(1))
            if fn is not None:
                cand = fn.split("@")[0] + m.group(2) + "::" + m.group(3)
                if cand in self.prog.const_index:
                    return cand
        m = re.match(r"^(.*)::(\w+)::(\w+)$", plain)
        if m:
            fn = self.resolve_fn(m.group(1) + "::" + m.group(2), "")
            if fn is not None and (fn.split("@")[0] + "::" + m.group(3)) in self.prog.const_index:
                return fn.split("@")[0] + "::" + m.group(3)
        m = re.match(r"^.*?::<impl (.*?)>::(\w+)$", plain) or re.match(r"^(.*)::(\w+)$", plain)
        if m:
            # associated const: Type::NAME -> <impl at ..>::NAME
            for cand in self.prog.const_index:
                if cand.endswith(">::" + m.group(2)) and "<impl at" in cand:
                    tag = re.search(r"<(impl at [^>]*)>", cand).group(1)
                    tr, ty = self.prog.impl_info(tag)
                    if ty is None or "$" in ty:
                        hm = re.match(r"^(?:const|static)(?: mut)? .*?: (.*?) = ", self.prog.lines[self.prog.const_index[cand]])
                        ty = hm.group(1) if hm else None
                    if ty and _last(ty) == _last(m.group(1)):
                        return cand
        return None

    def enum_variant(self, plain: str):
        """'a::b::Enum::Variant' -> (enum type path, idx, vname) if a::b::Enum is an enum"""
        if "::" not in plain:
            return None
        ety, vname = plain.rsplit("::", 1)
        base = ety.split("::")[-1]
        if ety.endswith("::__tokio_select_util::Out"):
            # the output enum tokio::select! declares at every expansion: Out::_0(..), Out::_1(..), ..., Out::Disabled
            m = re.match(r"^_(\d+)$", vname)
            if m:
                return ety, int(m.group(1)), vname
            if vname == "Disabled":
                cache = self.prog.__dict__.setdefault("_select_out", {})
                if ety not in cache:
                    ks = set()
                    for fname in self.prog.fn_index:
                        mm = re.match(r"^(.*::__tokio_select_util::Out)::_(\d+)(@\d+)?$", fname)
                        if mm and strip_generics(re.sub(r"<impl at [^>]*>", "", mm.group(1))).split("::")[-4:] == strip_generics(re.sub(r"<impl at [^>]*>", "", ety)).split("::")[-4:]:
                            ks.add(int(mm.group(2)))
                    cache[ety] = (max(ks) + 1) if ks else 2
                return ety, cache[ety], vname
            return None
        if base in STD_ENUMS and vname in STD_ENUMS[base]:
            return ety, STD_ENUMS[base].index(vname), vname
        if ety.startswith(("std::", "core::", "alloc::")):
            if base == "Ordering" and vname in ("Less", "Equal", "Greater"):
                return ety, {"Less": mask(-1, 8), "Equal": 0, "Greater": 1}[vname], vname
            return None
        vs = self.models.extern_enum(ety)
        if vs is None and not ety.startswith(("std::", "core::", "alloc::", "bytes::", "tokio", "fibre", "parking_lot")):
            vs = self.prog.enum_variants(ety)
        if vs and vname in vs:
            return ety, vs.index(vname), vname
        return None

    # ------------------------------------------------------------------ rvalues
    def eval_rvalue(self, fr, rv, dest_ty):
        k = rv[0]
        if k == "use":
            return self.eval_operand(fr, rv[1])
        if k == "ref":
            r = self.eval_place_ref(fr, rv[2])
            return r
        if k == "binop":
            return self.binop(fr, rv[1], rv[2], rv[3], dest_ty)
        if k == "unop":
            return self.unop(fr, rv[1], rv[2], dest_ty)
        if k == "cast":
            return self.cast(fr, rv[1], rv[2], rv[3])
        if k == "discr":
            v = self.read_place(fr, rv[1])
            if type(v) is SharedEnumV:
                return v.reader()
            if isinstance(v, Enum):
                return v.idx
            if isinstance(v, (int, bool)) or is_sym(v):
                return v
            if isinstance(v, Agg) and v.ty.startswith("{coroutine"):
                return v.f["state"]
            raise Unsupported(f"discriminant of {v!r}")
        if k == "len":
            r = self.eval_place_ref(fr, rv[1])
            return r.len if isinstance(r, SliceRef) else len(r.load().f)
        if k == "aggregate":
            return self.aggregate(fr, rv, dest_ty)
        if k == "repeat":
            v = self.eval_operand(fr, rv[1])
            n = self.eval_count(fr, rv[2])
            return Seq("array", [clone_val(v) for _ in range(n)], elem_type(dest_ty))
        if k == "shallow_box":
            v = self.eval_operand(fr, rv[1])
            return v
        if k == "nullary":
            raise Unsupported("nullary op " + rv[1])
        raise Unsupported("rvalue " + k)

    def eval_count(self, fr, s):
        s = s.strip()
        m = re.match(r"^(\d+)(_usize)?$", s)
        if m:
            return int(m.group(1))
        v = self.eval_const(fr, s.replace("const ", ""))
        if isinstance(v, int):
            return v
        raise Unsupported("repeat count " + s)

    def aggregate(self, fr, rv, dest_ty):
        _, kind, name, ops = rv
        vals = [self.eval_operand(fr, o) for o in ops]
        if kind == "tuple":
            return Agg(dest_ty if dest_ty.startswith("(") else "tuple", vals)
        if kind == "array":
            return Seq("array", vals, elem_type(dest_ty))
        if kind == "closure":
            vals = self._complete_upvars(fr, name, ops, vals)
            if name.startswith("{coroutine"):
                return Agg(name, SparseF(vals))
            if "/.cargo/registry/" in name or "/rustc/" in name:
                # a closure written inside a macro of another crate (tokio::select!, tracing): its span is the same
                # at every expansion site, so remember the function that creates it
                return Agg(name + "#in:" + fr.body.name, vals)
            return Agg(name, vals)
        plain = strip_generics(name)
        ev = self.enum_variant(plain)
        if ev is not None:
            ty, idx, vname = ev
            return Enum(ty, idx, vname, vals)
        return Agg(plain, vals)

    def _complete_upvars(self, fr, name, ops, vals):
        """rustc's MIR printer names the captured *variables* of a closure / async block, so with disjoint field
        capture (`self.a`, `self.b` captured separately) it prints `{ self: move _45 }` although the aggregate has
        one operand per captured place. The operands are temporaries assigned right before the aggregate with
        consecutive numbers; the expected count comes from the `(*_N).K` upvar places in the body's debug lines."""
        if not ops or ops[-1][0] not in ("move", "copy") or ops[-1][1].proj:
            return vals
        fn = self.async_block_fn(name) if name.startswith("{coroutine") else None
        if fn is None and name.startswith("{closure@"):
            try:
                fn = self.closure_fn(Agg(name, []))
            except Exception:
                fn = None
        if fn is None:
            return vals
        cache = self.prog.__dict__.setdefault("_upvar_count", {})
        if fn not in cache:
            i = self.prog.fn_index[fn]
            mx = -1
            while i < len(self.prog.lines) and not self.prog.lines[i].lstrip().startswith("bb0:"):
                m = re.match(r"^\s*debug \w+ => \(?\*?\(?\(\*_\d+\)\.(\d+): ", self.prog.lines[i]) or re.match(r"^\s*debug \w+ => \(?\*?\(_1\.(\d+): ", self.prog.lines[i])
                if m:
                    mx = max(mx, int(m.group(1)))
                i += 1
            cache[fn] = mx + 1
        want = cache[fn]
        last = ops[-1][1].local
        out = list(vals)
        while len(out) < want:
            last += 1
            c = fr.cells.get(last)
            if c is None or c.v is None:
                break
            out.append(c.v)
        return out

    def int_ty(self, fr, op):
        return self.operand_type(fr.body, op)

    def binop(self, fr, opname, a_op, b_op, dest_ty):
        a, b = self.eval_operand(fr, a_op), self.eval_operand(fr, b_op)
        ty = self.int_ty(fr, a_op)
        if ty == "?" or (int_width(ty) is None and int_width(self.int_ty(fr, b_op)) is not None):
            ty = self.int_ty(fr, b_op)        # e.g. a named const on the left whose type is not printed at the use
        if opname == "Offset":
            raise Unsupported("pointer offset")
        if isinstance(a, float) or isinstance(b, float):
            import operator as _o
            return {"Add": _o.add, "Sub": _o.sub, "Mul": _o.mul, "Div": _o.truediv, "Lt": _o.lt, "Le": _o.le,
                    "Gt": _o.gt, "Ge": _o.ge, "Eq": _o.eq, "Ne": _o.ne}[opname](a, b)
        if isinstance(a, Enum) and isinstance(b, Enum):   # fieldless enum compare (derive PartialEq lowers to ints, rare)
            a, b = a.idx, b.idx
        w = int_width(ty)
        if w is None and dest_ty:
            d = dest_ty.strip()
            if d.startswith("(") and d.endswith(", bool)"):
                d = d[1:-7]
            if int_width(d) and d != "bool":
                ty, w = d, int_width(d)
        if w is None:
            if isinstance(a, (Ref, SliceRef)) or isinstance(b, (Ref, SliceRef)):
                if opname in ("Eq", "Ne"):
                    same = _same_ptr(a, b)
                    return same if opname == "Eq" else (not same)
            if is_sym(a):
                w = 1 if z3.is_bool(a) else a.size()
            elif is_sym(b):
                w = 1 if z3.is_bool(b) else b.size()
            elif isinstance(a, bool):
                w = 1
            else:
                raise Unsupported(f"binop {opname} on type {ty}: {a!r} {b!r}")
        signed = ty in SIGNED
        return int_binop(opname, a, b, w, signed, ty == "bool")

    def unop(self, fr, opname, a_op, dest_ty):
        a = self.eval_operand(fr, a_op)
        if opname == "PtrMetadata":
            if isinstance(a, SliceRef):
                return a.len
            if isinstance(a, Ref):
                v = a.load()
                if isinstance(v, Seq):
                    return len(v.f)
            raise Unsupported(f"PtrMetadata of {a!r}")
        ty = self.int_ty(fr, a_op)
        if opname == "Not":
            if isinstance(a, bool):
                return not a
            if is_sym(a) and z3.is_bool(a):
                return simp(z3.Not(a))
            w = int_width(ty) or (a.size() if is_sym(a) else None)
            if isinstance(a, int):
                return mask(~a, w)
            return simp(~a)
        if opname == "Neg":
            w = int_width(ty) or a.size()
            if isinstance(a, int):
                return mask(-a, w)
            return simp(-a)
        raise Unsupported("unop " + opname)

    def cast(self, fr, op, to_ty, kind):
        v = self.eval_operand(fr, op)
        from_ty = self.operand_type(fr.body, op)
        if kind in ("IntToInt",):
            fw, tw = int_width(from_ty), int_width(to_ty)
            if isinstance(v, Enum):
                v, fw = v.idx, 64
            if isinstance(v, bool):
                return int(v)
            if is_sym(v) and z3.is_bool(v):
                return simp(bv(v, tw))
            if fw is None:
                fw = v.size() if is_sym(v) else 64
            if isinstance(v, int):
                if from_ty in SIGNED:
                    return mask(to_signed(v, fw), tw)
                return mask(v, tw)
            if tw == fw:
                return v
            if tw < fw:
                return simp(z3.Extract(tw - 1, 0, v))
            return simp(z3.SignExt(tw - fw, v) if from_ty in SIGNED else z3.ZeroExt(tw - fw, v))
        if kind.startswith("PointerCoercion(Unsize"):
            if isinstance(v, Ref):
                tgt = v.load() if v.cell.v is not None or v.path else None
                if isinstance(tgt, Seq) and ("[" in to_ty and "dyn" not in to_ty):
                    return SliceRef(v, 0, len(tgt.f))
                if "dyn " in to_ty:
                    conc = deref_type(from_ty)
                    r = type(v)(v.cell, v.path, conc)
                    return r
            return v
        if kind == "Transmute" and to_ty.strip() in ("usize", "u64") and isinstance(v, (Ref, SliceRef)):
            return 0x1000       # address of a live object: non-null, maximally aligned (UB checks)
        if kind in ("Transmute", "PtrToPtr", "PointerCoercion(MutToConstPointer, Implicit)", "PointerCoercion(MutToConstPointer, AsCast)") or kind.startswith("PointerCoercion(") or kind in ("FnPtrToPtr",):
            return v
        if kind in ("PointerExposeProvenance", "PointerWithExposedProvenance"):
            raise Unsupported("pointer/int cast")
        if kind in ("IntToFloat", "FloatToInt", "FloatToFloat"):
            raise Unsupported("float cast")
        return v

    # ------------------------------------------------------------------ execution
    def run_body(self, body, args, generics=None, start_bb="bb0", preset=None):
        """start_bb / preset: region mode - execution starts at a basic block in the middle of the body with the
        given locals pre-assigned (used for loops inside long-lived coroutines whose state is assembled by a driver)"""
        self.depth += 1
        if self.depth > 200:
            raise Unsupported("call depth")
        fr = Frame(body)
        for n, a in zip(body.params, args):
            fr.cells[n] = Cell(a, f"_{n}")
        for n, a in (preset or {}).items():
            fr.cells[n] = Cell(a, f"_{n}")
        if body.kind == "fn":
            self.called.add(body.name)
        bb = start_bb
        try:
            while True:
                stmts, (term, tloc) = parsed_block(body, bb)
                for st, loc in stmts:
                    self.steps += 1
                    k = st[0]
                    if k == "assign":
                        place, rv = st[1], st[2]
                        dty = self.place_type(body, place) if rv[0] in ("aggregate", "repeat", "binop", "unop") else ""
                        try:
                            val = self.eval_rvalue(fr, rv, dty)
                        except Panic as p:
                            if not p.loc:
                                p.loc = loc
                            raise
                        self.write_place(fr, place, val)
                    elif k == "setdiscr":
                        r = self.eval_place_ref(fr, st[1])
                        v = r.load()
                        if isinstance(v, Enum):
                            v.idx = st[2]
                        elif isinstance(v, Agg) and v.ty.startswith("{coroutine"):
                            v.f["state"] = st[2]
                        else:
                            ty = self.place_type(body, st[1])
                            vs = self.prog.enum_variants(ty) or STD_ENUMS.get(_last(ty), [])
                            r.store(Enum(strip_generics(ty), st[2], vs[st[2]] if st[2] < len(vs) else str(st[2]), v.f if isinstance(v, Agg) else []))
                    elif k == "assume":
                        c = self.eval_operand(fr, st[1])
                        if not self.ctx.branch(c):
                            raise PathAbort("assume(false)")
                    elif k == "intrinsic":
                        raise Unsupported("intrinsic statement " + st[1][:40])
                if self.steps > self.max_steps:
                    raise StepLimit(f"{self.steps} steps")
                self.ctx.site = body.name
                self.steps += 1
                k = term[0]
                if k == "goto":
                    bb = term[1]
                elif k == "return":
                    c = fr.cells.get(0)
                    return c.v if c is not None and c.v is not None else UNIT
                elif k == "switch":
                    v = self.eval_operand(fr, term[1])
                    tg = term[2]
                    if isinstance(v, Enum):
                        v = v.idx
                    opts = [int(x) for x in tg if x != "otherwise"]
                    ty = self.operand_type(body, term[1])
                    w = int_width(ty)
                    ch = self.ctx.switch(v, [mask(o, w) if w else o for o in opts])
                    if ch == "otherwise":
                        bb = tg["otherwise"]
                    else:
                        key = None
                        for x in tg:
                            if x != "otherwise" and (mask(int(x), w) if w else int(x)) == ch:
                                key = x
                                break
                        bb = tg[key]
                elif k == "call":
                    dest, func, aops, tg = term[1], term[2], term[3], term[4]
                    args2 = [self.eval_operand(fr, a) for a in aops]
                    try:
                        rv = self.call(fr, func, args2, self.place_type(body, dest), aops)
                    except Panic as p:
                        if not p.loc:
                            p.loc = tloc
                        if not p.fn:
                            p.fn = body.name
                        raise
                    if "return" not in tg:
                        raise Unsupported(f"diverging call {func} returned")
                    self.write_place(fr, dest, rv)
                    bb = tg["return"]
                elif k == "assert":
                    neg, cop, msg, tg = term[1], term[2], term[3], term[4]
                    c = self.eval_operand(fr, cop)
                    ok = self.ctx.branch(simp(z3.Not(bl(c))) if (neg and is_sym(c)) else ((not c) if neg else c))
                    if not ok:
                        raise Panic("assert", msg.strip('"'), tloc, body.name)
                    bb = tg["success"]
                elif k == "drop":
                    self.drop_place(fr, term[1])
                    bb = term[2]["return"]
                elif k == "unreachable":
                    raise Unsupported(f"reached `unreachable` in {body.name} ({tloc})")
                elif k == "resume":
                    raise Unsupported("resume")
                elif k == "yield":
                    raise Unsupported("yield outside coroutine driver")
                else:
                    raise Unsupported("terminator " + k)
        finally:
            self.depth -= 1

    def drop_place(self, fr, place):
        ty = self.place_type(fr.body, place)
        base = strip_generics(ty)
        if self.drop_hook is not None and self.drop_hook(self, fr, place, base):
            return
        if "Guard" in base or base.startswith("{"):
            # values of modelled external types with a drop effect (async mutex guards)
            try:
                v = self.eval_place_ref(fr, place).load()
            except Exception:
                v = None
            from . import models as _models_mod
            md = _models_mod.MODEL_DROPS
            if isinstance(v, Agg) and v.ty in md:
                md[v.ty](self, v)
                return
        if ty.startswith("{async fn body of tokio::"):
            return
        if ty.startswith("{async block@"):
            fn = self.async_block_fn(ty)
            shim = (fn + "::{coroutine_drop}") if fn else None
            if shim and shim in self.prog.fn_index:
                try:
                    r = self.eval_place_ref(fr, place)
                except Exception:
                    return
                self.drop_coroutine(r, shim)
            return
        if ty.startswith("{async fn body of "):
            # a suspended (or never polled) future of a crate `async fn`: run its drop shim from the MIR dump
            m = re.match(r"^\{async fn body of (.*?)\(\)\}$", ty)
            fn = self.resolve_fn(strip_generics(m.group(1)), m.group(1)) if m else None
            shim = (fn.split("@")[0] + "::{closure#0}::{coroutine_drop}") if fn else None
            if shim and shim in self.prog.fn_index:
                try:
                    r = self.eval_place_ref(fr, place)
                except Exception:
                    return
                self.drop_coroutine(r, shim)
            else:
                raise Unsupported("no drop shim for " + ty[:120])
            return
        if "::" in base and not base.startswith(("std::", "core::", "alloc::", "bytes::", "&")):
            fn = self.prog.resolve_method("", base, "drop", "Drop")
            if fn is not None:
                try:
                    r = self.eval_place_ref(fr, place)
                except Exception:
                    return
                if r.load() is not None:
                    self.run_body(self.prog.body(fn), [r])

    def drop_coroutine(self, coro_ref, shim):
        """run the compiler-generated drop shim of a crate coroutine (what happens when its future is dropped)"""
        c = coro_ref
        while isinstance(c, Ref) and not (isinstance(c.load(), Agg) and str(c.load().ty).startswith("{coroutine")):
            c = c.load()
        if not isinstance(c, Ref):
            return
        self.dropped_coroutines = getattr(self, "dropped_coroutines", 0) + 1
        self.run_body(self.prog.body(shim), [c])

    # ------------------------------------------------------------------ calls
    def resolve_fn(self, plain: str, full: str):
        """crate function for a printed callee path (generics stripped), or None"""
        if plain in self.prog.fn_index:
            return plain
        m = re.match(r"^(.*?)::<impl (.*?)>::(\w+)$", plain)
        if m and not m.group(2).startswith("at "):
            return self.prog.resolve_method(m.group(1), m.group(2), m.group(3), None)
        if "::" in plain and not plain.startswith("<"):
            ty, method = plain.rsplit("::", 1)
            if method.startswith("{closure"):
                base = self.resolve_fn(ty, ty)
                if base and (base + "::" + method) in self.prog.fn_index:
                    return base + "::" + method
                return None
            mod = ty.rsplit("::", 1)[0] if "::" in ty else ""
            return self.prog.resolve_method(mod, ty, method, None)
        return None

    def call(self, fr, func: str, args, dest_ty, aops=None):
        if _TRACE_CALLS:
            import sys as _sys
            print("CALL", strip_generics(func)[:140], file=_sys.stderr)
        # indirect call through an operand:  move _5(args)
        if func.startswith(("move ", "copy ")):
            fv = self.eval_operand(fr, (func.split(" ", 1)[0], __import__("verifkit.mirsym.parser", fromlist=["parse_place"]).parse_place(func.split(" ", 1)[1])))
            return self.call_value(fr, fv, args, dest_ty)
        if func in self.hooks:
            return self.hooks[func](self, args, dest_ty, func)
        if func.startswith("<"):
            k = match_close_angle(func, 0)
            inner, rest = func[1:k], func[k + 1:]
            method = strip_generics(rest.lstrip(":"))
            a = find_top(inner, " as ")
            if a >= 0:
                self_ty, trait = inner[:a].strip(), inner[a + 4:].strip()
            else:
                self_ty, trait = inner.strip(), None
            return self.call_trait(fr, self_ty, trait, method, args, dest_ty, func)
        plain = strip_generics(func)
        if self.extern is not None:
            r = self.extern(self, plain, args, dest_ty, func)
            if r is not NotImplemented:
                return r
        m = self.models.lookup(plain)
        if m is not None:
            self.models_used.add(plain)
            return m(self, args, dest_ty, func)
        fn = self.resolve_fn(plain, func)
        if fn is not None:
            if fn in self.hooks:
                return self.hooks[fn](self, args, dest_ty, func)
            return self.run_body(self.prog.body(fn), args)
        # tuple-struct / enum-variant constructors used as functions
        ev = self.enum_variant(plain)
        if ev is not None:
            return Enum(ev[0], ev[1], ev[2], list(args))
        raise Unsupported("no model for callee " + plain)

    def call_trait(self, fr, self_ty, trait, method, args, dest_ty, func):
        tr_plain = strip_generics(trait) if trait else None
        st_plain = strip_generics(self_ty)
        key = f"<{st_plain} as {tr_plain}>::{method}" if trait else f"<{st_plain}>::{method}"
        if key in self.hooks:
            return self.hooks[key](self, args, dest_ty, func)
        if self.extern is not None:
            r = self.extern(self, key, args, dest_ty, func)
            if r is not NotImplemented:
                return r
        # closures: <{closure@..} as FnOnce<..>>::call_once(closure, (args,))
        if self_ty.startswith("{closure@") or self_ty.startswith("&{closure@") or self_ty.startswith("&mut {closure@"):
            return self.call_closure(args[0], args[1], dest_ty)
        if tr_plain in ("std::ops::FnOnce", "std::ops::FnMut", "std::ops::Fn", "core::ops::FnOnce", "core::ops::FnMut", "core::ops::Fn") and method in ("call_once", "call_mut", "call"):
            return self.call_value(fr, args[0], list(args[1].f) if isinstance(args[1], Agg) else [args[1]], dest_ty)
        # dynamic dispatch / generic parameter: use the runtime type
        rt = None
        if st_plain.startswith("dyn ") or re.match(r"^[A-Z]\w*$", st_plain) or st_plain.startswith("impl "):
            rt = runtime_type(args[0]) if args else None
            if rt is None:
                raise Unsupported(f"cannot determine runtime type for {func}")
        m = self.models.lookup_trait(rt or st_plain, tr_plain, method)
        if m is not None:
            self.models_used.add(f"<{_short(rt or st_plain)} as {_short(tr_plain or '')}>::{method}")
            return m(self, args, dest_ty, func)
        ty = rt or st_plain
        if not ty.startswith(("std::", "core::", "alloc::", "&", "[", "(", "bytes::")) or "::" not in ty:
            mod = ty.rsplit("::", 1)[0] if "::" in ty else ""
            fn = self.prog.resolve_method(mod, ty, method, tr_plain)
            if fn is None and tr_plain:
                # default method of a crate trait
                cand = f"{tr_plain}::{method}"
                if cand in self.prog.fn_index:
                    fn = cand
            if fn is not None:
                if fn in self.hooks:
                    return self.hooks[fn](self, args, dest_ty, func)
                return self.run_body(self.prog.body(fn), args)
        raise Unsupported(f"no model for trait call <{ty} as {tr_plain}>::{method}")

    def call_value(self, fr, fv, args, dest_ty):
        if isinstance(fv, FnItem):
            return self.call(fr, fv.name, args, dest_ty)
        if isinstance(fv, Ref):
            tgt = fv.load()
            return self.call_value(fr, tgt, args, dest_ty)
        if isinstance(fv, Agg) and fv.ty.startswith("{closure@"):
            return self.call_closure(fv, Agg("tuple", list(args)), dest_ty)
        raise Unsupported(f"call of value {fv!r}")

    def closure_fn(self, clos):
        """find the MIR body of a closure aggregate via its span"""
        name = clos.ty
        within = None
        if "#in:" in name:
            name, within = name.split("#in:", 1)
        span = name[len("{closure@"):-1]
        cache = self.prog.__dict__.setdefault("_closure_cache", {})
        key = (span, within)
        if key in cache:
            return cache[key]
        found = None
        needle = "{closure@" + span + "}"
        for fname, ln in self.prog.fn_index.items():
            if "{closure#" in fname and needle in self.prog.lines[ln]:
                # the closure's own type is the type of its first parameter; the same text in the return type or in a later
                # parameter belongs to ANOTHER closure (e.g. `|g| g.iter().map(|m| ..)` returns Map<_, {inner closure}>)
                hdr = self.prog.lines[ln]
                first = hdr.split(", _2:")[0].split(") ->")[0]
                if needle not in first:
                    continue
                if within is not None:
                    base = within.split("@")[0]
                    if not (fname.startswith(base + "::") and re.fullmatch(r"\{closure#\d+\}", fname[len(base) + 2:])):
                        continue          # a closure of the same macro span created by another function
                found = fname
                break
        cache[key] = found
        return found

    def async_block_fn(self, ty):
        """resume function of an `{async block@span}` / `{coroutine@span}` value"""
        m = re.match(r"^\{(?:async block|coroutine)@(.*?)(?: \(#\d+\))?\}$", ty)
        if not m:
            return None
        span = m.group(1)
        cache = self.prog.__dict__.setdefault("_ablock_cache", {})
        if span in cache:
            return cache[span]
        found = None
        needle = "{async block@" + span + "}"
        for fname, ln in self.prog.fn_index.items():
            if "{closure#" in fname and not fname.endswith("{coroutine_drop}") and needle in self.prog.lines[ln]:
                found = fname
                break
        cache[span] = found
        return found

    def call_closure(self, clos, argtuple, dest_ty):
        c = clos
        byref = False
        if isinstance(c, Ref):
            byref = True
            cv = c.load()
        else:
            cv = c
        if not (isinstance(cv, Agg) and cv.ty.startswith("{closure@")):
            if isinstance(cv, FnItem):
                return self.call(None, cv.name, list(argtuple.f), dest_ty)
            raise Unsupported(f"closure call on {cv!r}")
        fn = self.closure_fn(cv)
        if fn is None:
            raise Unsupported("closure body not found: " + cv.ty)
        body = self.prog.body(fn)
        p0 = body.locals[body.params[0]]
        if p0.startswith("&"):
            selfarg = c if byref else Ref(Cell(cv, "closure"), ())
        else:
            selfarg = cv
        return self.run_body(body, [selfarg] + list(argtuple.f))


class _PtrSelf:
    """marker while walking Box -> Unique -> NonNull field projections"""
    __slots__ = ("inner",)

    def __init__(self, inner):
        self.inner = inner

    def load(self):
        return self.inner.load()

    def child(self, i):
        return self


def _same_ptr(a, b):
    if isinstance(a, Ref) and isinstance(b, Ref):
        return a.cell is b.cell and a.path == b.path
    if isinstance(a, SliceRef) and isinstance(b, SliceRef):
        return a.base.cell is b.base.cell and a.start == b.start and a.len == b.len
    return False


def _last(t):
    t = re.sub(r"'\w+\s+", "", strip_generics(t or "").strip().lstrip("&")).replace("mut ", "").replace("dyn ", "").strip()
    return t.split("::")[-1]


def _short(t):
    return _last(t)


def match_close_angle(s, i):
    depth = 0
    n = len(s)
    while i < n:
        c = s[i]
        if c == "<":
            depth += 1
        elif c == ">" and not (i > 0 and s[i - 1] in "-="):
            depth -= 1
            if depth == 0:
                return i
        i += 1
    raise ValueError("unbalanced <>: " + s)


def runtime_type(v):
    if isinstance(v, Ref):
        if v.dyn_ty:
            return strip_generics(v.dyn_ty)
        t = v.load()
        return runtime_type(t)
    if isinstance(v, (Agg, Enum)):
        return v.ty
    if isinstance(v, Seq):
        return {"vec": "std::vec::Vec", "bytes": "bytes::Bytes", "bytesmut": "bytes::BytesMut", "string": "std::string::String"}.get(v.kind, v.kind)
    return None


def deref_type(ty: str) -> str:
    ty = ty.strip()
    if ty.startswith("&"):
        ty = ty[1:].lstrip()
        ty = re.sub(r"^'\w+\s+", "", ty)
        if ty.startswith("mut "):
            ty = ty[4:]
        return ty.strip()
    if ty.startswith("*const "):
        return ty[7:].strip()
    if ty.startswith("*mut "):
        return ty[5:].strip()
    m = re.match(r"^(std::boxed::Box|std::sync::Arc|std::rc::Rc|std::pin::Pin|std::ptr::NonNull|std::ptr::Unique)<(.*)>$", ty)
    if m:
        inner = split_top(m.group(2))[0]
        return inner
    return ty


def elem_type(ty: str) -> str:
    ty = ty.strip()
    if ty.startswith("&"):
        ty = deref_type(ty)
    if ty.startswith("["):
        inner = ty[1:-1]
        k = find_top(inner, "; ")
        return inner[:k].strip() if k >= 0 else inner.strip()
    m = re.match(r"^std::vec::Vec<(.*)>$", ty)
    if m:
        return split_top(m.group(1))[0]
    return "?"


def parse_bytes_literal(lit: str) -> bytes:
    """'"..."' with Rust escapes -> bytes"""
    s = lit[1:-1]
    out = bytearray()
    i = 0
    while i < len(s):
        c = s[i]
        if c == "\\":
            n = s[i + 1]
            if n == "x":
                out.append(int(s[i + 2:i + 4], 16))
                i += 4
            elif n == "u":
                j = s.index("}", i)
                out += chr(int(s[i + 3:j], 16)).encode()
                i = j + 1
            else:
                out.append({"n": 10, "r": 13, "t": 9, "0": 0, "\\": 92, '"': 34, "'": 39}[n])
                i += 2
        else:
            out += c.encode()
            i += 1
    return bytes(out)


def int_binop(op, a, b, w, signed, is_bool=False):
    sym = is_sym(a) or is_sym(b)
    if is_bool or isinstance(a, bool) or isinstance(b, bool) or (is_sym(a) and z3.is_bool(a)) or (is_sym(b) and z3.is_bool(b)):
        if not sym:
            a, b = bool(a), bool(b)
            return {"BitAnd": a and b, "BitOr": a or b, "BitXor": a != b, "Eq": a == b, "Ne": a != b,
                    "Lt": a < b, "Le": a <= b, "Gt": a > b, "Ge": a >= b}[op]
        A, B = bl(a), bl(b)
        r = {"BitAnd": lambda: z3.And(A, B), "BitOr": lambda: z3.Or(A, B), "BitXor": lambda: z3.Xor(A, B),
             "Eq": lambda: A == B, "Ne": lambda: A != B}[op]()
        return simp(r)
    if not sym:
        a, b = mask(a, w), mask(b, w)
        sa, sb = (to_signed(a, w), to_signed(b, w)) if signed else (a, b)
        if op in ("Add", "AddUnchecked"):
            return mask(a + b, w)
        if op in ("Sub", "SubUnchecked"):
            return mask(a - b, w)
        if op in ("Mul", "MulUnchecked"):
            return mask(sa * sb, w)
        if op == "Div":
            if sb == 0:
                raise Panic("div", "attempt to divide by zero")
            q = abs(sa) // abs(sb)
            return mask(q if (sa < 0) == (sb < 0) else -q, w)
        if op == "Rem":
            if sb == 0:
                raise Panic("div", "attempt to calculate the remainder with a divisor of zero")
            r = abs(sa) % abs(sb)
            return mask(r if sa >= 0 else -r, w)
        if op == "BitAnd":
            return a & b
        if op == "BitOr":
            return a | b
        if op == "BitXor":
            return a ^ b
        if op in ("Shl", "ShlUnchecked"):
            return mask(a << (b % w), w)
        if op in ("Shr", "ShrUnchecked"):
            return mask(sa >> (b % w), w) if signed else a >> (b % w)
        if op == "Eq":
            return a == b
        if op == "Ne":
            return a != b
        if op == "Lt":
            return sa < sb
        if op == "Le":
            return sa <= sb
        if op == "Gt":
            return sa > sb
        if op == "Ge":
            return sa >= sb
        if op == "Cmp":
            return Enum("std::cmp::Ordering", mask(-1, 8) if sa < sb else (0 if sa == sb else 1),
                        "Less" if sa < sb else ("Equal" if sa == sb else "Greater"), [])
        if op in ("AddWithOverflow", "SubWithOverflow", "MulWithOverflow"):
            r = {"AddWithOverflow": sa + sb, "SubWithOverflow": sa - sb, "MulWithOverflow": sa * sb}[op]
            lo, hi = (-(1 << (w - 1)), (1 << (w - 1)) - 1) if signed else (0, (1 << w) - 1)
            return Agg("tuple", [mask(r, w), not (lo <= r <= hi)])
        raise Unsupported("binop " + op)
    A = bv(a, w)
    # shift amounts may have a different width
    if op in ("Shl", "Shr", "ShlUnchecked", "ShrUnchecked"):
        if is_sym(b):
            bw = b.size()
            B = z3.ZeroExt(w - bw, b) if bw < w else (z3.Extract(w - 1, 0, b) if bw > w else b)
        else:
            B = z3.BitVecVal(b % w, w)
        if op.startswith("Shl"):
            return simp(A << B)
        return simp(A >> B if signed else z3.LShR(A, B))
    B = bv(b, w)
    if op in ("Add", "AddUnchecked"):
        return simp(A + B)
    if op in ("Sub", "SubUnchecked"):
        return simp(A - B)
    if op in ("Mul", "MulUnchecked"):
        return simp(A * B)
    if op == "BitAnd":
        return simp(A & B)
    if op == "BitOr":
        return simp(A | B)
    if op == "BitXor":
        return simp(A ^ B)
    if op == "Eq":
        return simp(A == B)
    if op == "Ne":
        return simp(A != B)
    if op == "Lt":
        return simp(A < B if signed else z3.ULT(A, B))
    if op == "Le":
        return simp(A <= B if signed else z3.ULE(A, B))
    if op == "Gt":
        return simp(A > B if signed else z3.UGT(A, B))
    if op == "Ge":
        return simp(A >= B if signed else z3.UGE(A, B))
    if op == "AddWithOverflow":
        if signed:
            ov = z3.Or(z3.Not(z3.BVAddNoOverflow(A, B, True)), z3.Not(z3.BVAddNoUnderflow(A, B)))
        else:
            ov = z3.Not(z3.BVAddNoOverflow(A, B, False))
        return Agg("tuple", [simp(A + B), simp(ov)])
    if op == "SubWithOverflow":
        if signed:
            ov = z3.Or(z3.Not(z3.BVSubNoOverflow(A, B)), z3.Not(z3.BVSubNoUnderflow(A, B, True)))
        else:
            ov = z3.ULT(A, B)
        return Agg("tuple", [simp(A - B), simp(ov)])
    if op == "MulWithOverflow":
        ov = z3.Or(z3.Not(z3.BVMulNoOverflow(A, B, signed)), z3.Not(z3.BVMulNoUnderflow(A, B)) if signed else z3.BoolVal(False))
        return Agg("tuple", [simp(A * B), simp(ov)])
    if op in ("Div", "Rem"):
        # rustc emits `assert(!(b == 0))` (and the MIN / -1 check for signed types) before the operation itself
        if op == "Div":
            return simp(A / B) if signed else simp(z3.UDiv(A, B))
        return simp(z3.SRem(A, B)) if signed else simp(z3.URem(A, B))
    if op == "Cmp":
        raise Unsupported("symbolic three-way compare")
    raise Unsupported("binop " + op)
