"""Parser for rustc's `-Zunpretty=mir -Zmir-include-spans=on -Ztrim-diagnostic-paths=no` text dump.

The dump is regenerated from /repo on every run (see mirdump.py). Bodies are parsed lazily.
"""
from __future__ import annotations
import os, re

# ------------------------------------------------------------------------------------------
# low-level bracket-aware string helpers

OPEN = {"(": ")", "[": "]", "{": "}", "<": ">"}
CLOSE = {")", "]", "}", ">"}


def split_top(s: str, sep: str = ",", brackets="([{<"):
    """Split s at top-level occurrences of sep (not inside brackets / string literals)."""
    out, depth, cur, i, n = [], 0, [], 0, len(s)
    while i < n:
        c = s[i]
        if c == '"' or (c == "b" and i + 1 < n and s[i + 1] == '"' and (i == 0 or not (s[i - 1].isalnum() or s[i - 1] == "_"))):
            j = i + (2 if c == "b" else 1)
            while j < n:
                if s[j] == "\\":
                    j += 2
                    continue
                if s[j] == '"':
                    break
                j += 1
            cur.append(s[i:j + 1])
            i = j + 1
            continue
        if c == "'" and i + 2 < n:  # char literal or lifetime
            m = re.match(r"'(\\.[^']*|[^'\\])'", s[i:])
            if m:
                cur.append(m.group(0))
                i += len(m.group(0))
                continue
        if c in brackets:
            depth += 1
        elif c in CLOSE and OPEN_INV.get(c) in brackets:
            if c == ">" and i > 0 and s[i - 1] in "-=":  # '->' / '=>'
                pass
            else:
                depth -= 1
        if depth == 0 and s.startswith(sep, i):
            out.append("".join(cur).strip())
            cur = []
            i += len(sep)
            continue
        cur.append(c)
        i += 1
    last = "".join(cur).strip()
    if last or out:
        out.append(last)
    return out


OPEN_INV = {v: k for k, v in OPEN.items()}


def match_close(s: str, i: int) -> int:
    """Index of the bracket closing the one at s[i] (handles nesting and string literals)."""
    depth, n = 0, len(s)
    while i < n:
        c = s[i]
        if c == '"':
            j = i + 1
            while j < n and s[j] != '"':
                j += 2 if s[j] == "\\" else 1
            i = j + 1
            continue
        if c in "([{":
            depth += 1
        elif c in ")]}":
            depth -= 1
            if depth == 0:
                return i
        i += 1
    raise ValueError("unbalanced: " + s[:120])


def find_top(s: str, pat: str, start=0) -> int:
    """First top-level index of pat in s (ignoring (), [], {}, <> nesting and strings), or -1."""
    depth, i, n = 0, start, len(s)
    while i < n:
        c = s[i]
        if c == '"':
            j = i + 1
            while j < n and s[j] != '"':
                j += 2 if s[j] == "\\" else 1
            i = j + 1
            continue
        if depth == 0 and s.startswith(pat, i):
            return i
        if c in "([{<":
            depth += 1
        elif c in ")]}":
            depth -= 1
        elif c == ">" and not (i > 0 and s[i - 1] in "-="):
            depth -= 1
        i += 1
    return -1


# ------------------------------------------------------------------------------------------
# places, operands, rvalues

class Place:
    __slots__ = ("local", "proj")

    def __init__(self, local, proj):
        self.local, self.proj = local, proj  # proj: tuple of steps

    def __repr__(self):
        return f"_{self.local}{list(self.proj) if self.proj else ''}"


def parse_place(s: str) -> Place:
    p, rest = _parse_place_prefix(s.strip())
    if rest.strip():
        raise ValueError(f"trailing in place: {s!r} -> {rest!r}")
    return p


def _parse_place_prefix(s: str):
    s = s.lstrip()
    if s.startswith("("):
        k = match_close(s, 0)
        inner, rest = s[1:k].strip(), s[k + 1:]
        if inner.startswith("*"):
            base, r2 = _parse_place_prefix(inner[1:])
            assert not r2.strip(), inner
            pl = Place(base.local, base.proj + (("deref",),))
        else:
            base, r2 = _parse_place_prefix(inner)
            r2 = r2.strip()
            if r2.startswith("as "):
                pl = Place(base.local, base.proj + (("downcast", r2[3:].strip()),))
            elif r2.startswith("."):
                m = re.match(r"\.(\d+): (.*)$", r2, re.S)
                assert m, (s, r2)
                pl = Place(base.local, base.proj + (("field", int(m.group(1)), m.group(2).strip()),))
            else:
                raise ValueError("place inner: " + inner)
    else:
        m = re.match(r"_(\d+)", s)
        if not m:
            raise ValueError("place: " + s)
        pl = Place(int(m.group(1)), ())
        rest = s[m.end():]
    # index suffixes
    while rest.startswith("["):
        k = match_close(rest, 0)
        idx = rest[1:k].strip()
        rest = rest[k + 1:]
        m = re.match(r"^_(\d+)$", idx)
        if m:
            step = ("index", int(m.group(1)))
        else:
            m = re.match(r"^(-?\d+) of (\d+)$", idx)
            if m:
                v = int(m.group(1))
                step = ("cindex", v if not idx.startswith("-") else v, int(m.group(2)), idx.startswith("-"))
            else:
                m = re.match(r"^(\d*):(-?\d*)$", idx)
                if m:
                    step = ("subslice", int(m.group(1) or 0), m.group(2))
                else:
                    raise ValueError("index: " + idx)
        pl = Place(pl.local, pl.proj + (step,))
    return pl, rest


def parse_operand(s: str):
    s = s.strip()
    if s.startswith("no_retag "):
        s = s[9:]
    if s.startswith("copy "):
        return ("copy", parse_place(s[5:]))
    if s.startswith("move "):
        return ("move", parse_place(s[5:]))
    if s.startswith("const "):
        return ("const", s[6:].strip())
    if re.match(r"^[<\w]", s):      # bare item path (fn item used as a value)
        return ("const", s)
    raise ValueError("operand: " + s)


BINOPS = {"Add", "Sub", "Mul", "Div", "Rem", "BitXor", "BitAnd", "BitOr", "Shl", "Shr", "Eq", "Lt", "Le", "Ne",
          "Ge", "Gt", "Cmp", "Offset", "AddWithOverflow", "SubWithOverflow", "MulWithOverflow",
          "AddUnchecked", "SubUnchecked", "MulUnchecked", "ShlUnchecked", "ShrUnchecked"}
UNOPS = {"Not", "Neg", "PtrMetadata"}


def parse_rvalue(s: str):
    s = s.strip()
    if s.startswith("&"):
        m = re.match(r"&(raw const \(fake\) |raw mut \(fake\) |raw const |raw mut |mut |fake shallow |fake )?", s)
        kind = (m.group(1) or "").strip()
        return ("ref", kind, parse_place(s[m.end():]))
    if s.endswith(")") and find_top(s, " as ") > 0 and not s.startswith(("&", "[", "(")):
        depth = 0
        for j in range(len(s) - 1, -1, -1):
            if s[j] == ")":
                depth += 1
            elif s[j] == "(":
                depth -= 1
                if depth == 0:
                    break
        kind = s[j + 1:-1]
        if re.match(r"^(IntToInt|IntToFloat|FloatToInt|FloatToFloat|Transmute|PtrToPtr|FnPtrToPtr|PointerCoercion\(|PointerExposeProvenance|PointerWithExposedProvenance|Subtype)", kind) and s[j - 1] == " ":
            k = find_top(s, " as ")
            opnd = s[:k].strip()
            if not opnd.startswith(("copy ", "move ", "const ", "no_retag ")):
                opnd = "const " + opnd
            return ("cast", parse_operand(opnd), s[k + 4:j].strip(), kind)
    if s.startswith(("copy ", "move ", "const ", "no_retag ")):
        # cast?   OP as TYPE (Kind)
        m = re.match(r"^(.*) as (.*) \(([A-Za-z]+(\(.*\))?)\)$", s, re.S)
        if m and find_top(s, " as ") >= 0:
            k = find_top(s, " as ")
            op = parse_operand(s[:k])
            tail = s[k + 4:]
            depth = 0
            for j in range(len(tail) - 1, -1, -1):
                if tail[j] == ")":
                    depth += 1
                elif tail[j] == "(":
                    depth -= 1
                    if depth == 0:
                        break
            return ("cast", op, tail[:j].strip(), tail[j + 1:-1])
        return ("use", parse_operand(s))
    m = re.match(r"^([A-Za-z]+)\(", s)
    if m and m.group(1) in BINOPS and s.endswith(")"):
        a, b = split_top(s[m.end():-1])
        return ("binop", m.group(1), parse_operand(a), parse_operand(b))
    if m and m.group(1) in UNOPS and s.endswith(")"):
        return ("unop", m.group(1), parse_operand(s[m.end():-1]))
    if s.startswith("discriminant(") and s.endswith(")"):
        return ("discr", parse_place(s[13:-1]))
    if s.startswith("Len(") and s.endswith(")"):
        return ("len", parse_place(s[4:-1]))
    if s.startswith("CopyForDeref(") and s.endswith(")"):
        return ("use", ("copy", parse_place(s[13:-1])))
    if s.startswith("ShallowInitBox("):
        a, t = split_top(s[15:-1])
        return ("shallow_box", parse_operand(a), t)
    if s.startswith("SizeOf(") or s.startswith("AlignOf(") or s.startswith("NullaryOp(") or s.startswith("OffsetOf("):
        return ("nullary", s)
    if s.startswith("["):
        k = match_close(s, 0)
        inner = s[1:k]
        semi = find_top(inner, "; ")
        if semi >= 0 and not inner.lstrip().startswith("closure@"):
            return ("repeat", parse_operand(inner[:semi]), inner[semi + 2:].strip())
        return ("aggregate", "array", "", [parse_operand(x) for x in split_top(inner) if x])
    if s.startswith("("):
        k = match_close(s, 0)
        assert k == len(s) - 1, s
        items = [x for x in split_top(s[1:k]) if x]
        return ("aggregate", "tuple", "", [parse_operand(x) for x in items])
    if s.startswith("{closure@") or s.startswith("{coroutine@") or s.startswith("{async "):
        k = match_close(s, 0)
        name, rest = s[:k + 1], s[k + 1:].strip()
        ops = []
        if rest.startswith("{"):
            k2 = match_close(rest, 0)
            for item in split_top(rest[1:k2]):
                if item:
                    ops.append(parse_operand(item.split(": ", 1)[1]))
        elif rest.startswith("("):
            k2 = match_close(rest, 0)
            ops = [parse_operand(x) for x in split_top(rest[1:k2]) if x]
        return ("aggregate", "closure", name, ops)
    # ADT aggregate: Path { f: op, .. } | Path(op, ..) | Path
    b = find_top(s, " {")
    if b >= 0 and s.endswith("}"):
        name = s[:b].strip()
        ops = []
        for item in split_top(s[b + 2:-1]):
            if item:
                ops.append(parse_operand(item.split(": ", 1)[1]))
        return ("aggregate", "adt", name, ops)
    if s.endswith(")"):
        # find the '(' matching the final ')'
        depth = 0
        for i in range(len(s) - 1, -1, -1):
            if s[i] == ")":
                depth += 1
            elif s[i] == "(":
                depth -= 1
                if depth == 0:
                    break
        name = s[:i].strip()
        ops = [parse_operand(x) for x in split_top(s[i + 1:-1]) if x]
        return ("aggregate", "adt", name, ops)
    return ("aggregate", "adt", s, [])


# ------------------------------------------------------------------------------------------
# functions

class Body:
    __slots__ = ("name", "params", "ret", "locals", "blocks", "argc", "kind", "span", "raw_header")

    def __init__(self):
        self.locals, self.blocks = {}, {}


_LOC = re.compile(r"\s*// scope \d+ at (.*)$")


def _strip_comment(line: str):
    m = re.search(r";\s+// (scope \d+ at .*|.*)$", line)
    if m:
        return line[:m.start() + 1], m.group(1)
    return line, ""


def parse_statement(text: str):
    """text without trailing ';'. Returns a tuple."""
    t = text.strip()
    if t.startswith(("StorageLive(", "StorageDead(", "nop", "Retag(", "FakeRead(", "AscribeUserType(", "Coverage",
                     "ConstEvalCounter", "PlaceMention(", "BackwardIncompatibleDropHint(")):
        return ("nop",)
    if t.startswith("assume("):
        return ("assume", parse_operand(t[7:-1]))
    if t.startswith("Deinit("):
        return ("nop",)
    if t.startswith("discriminant(") and ") = " in t:
        k = match_close(t, 12)
        return ("setdiscr", parse_place(t[13:k]), int(t[k + 4:].strip()))
    if t.startswith("copy_nonoverlapping("):
        return ("intrinsic", t)
    eq = find_top(t, " = ")
    if eq < 0:
        raise ValueError("statement: " + t)
    return ("assign", parse_place(t[:eq]), parse_rvalue(t[eq + 3:]))


def parse_targets(s: str):
    """'[return: bb1, unwind: bb2]' / '[0: bb1, otherwise: bb2]' -> dict"""
    s = s.strip()
    assert s.startswith("[") and s.endswith("]"), s
    out = {}
    for item in split_top(s[1:-1]):
        if not item:
            continue
        if ": " in item:
            k, v = item.split(": ", 1)
        else:
            k, v = (item.split(" ", 1) + [""])[:2]
        out[k.strip()] = v.strip()
    return out


def parse_terminator(text: str):
    t = text.strip()
    if t.startswith("goto -> "):
        return ("goto", t[8:].strip())
    if t == "return":
        return ("return",)
    if t == "unreachable":
        return ("unreachable",)
    if t.startswith("resume") or t.startswith("abort") or t.startswith("terminate"):
        return ("resume",)
    if t.startswith("coroutine_drop"):
        return ("coroutine_drop",)
    if t.startswith("switchInt("):
        k = match_close(t, 9)
        op = parse_operand(t[10:k])
        arrow = t.index("->", k)
        tg = parse_targets(t[arrow + 2:])
        return ("switch", op, tg)
    if t.startswith("drop("):
        k = match_close(t, 4)
        arrow = t.index("->", k)
        return ("drop", parse_place(t[5:k]), parse_targets(t[arrow + 2:]))
    if t.startswith("assert("):
        k = match_close(t, 6)
        args = split_top(t[7:k])
        cond = args[0].strip()
        neg = cond.startswith("!")
        if neg:
            cond = cond[1:]
        arrow = t.index("->", k)
        return ("assert", neg, parse_operand(cond), args[1] if len(args) > 1 else "", parse_targets(t[arrow + 2:]),
                [a for a in args[2:]])
    if t.startswith("yield("):
        k = match_close(t, 5)
        arrow = t.index("->", k)
        return ("yield", parse_operand(t[6:k]), parse_targets(t[arrow + 2:]))
    if t.startswith("falseEdge") or t.startswith("falseUnwind"):
        m = re.search(r"\[real: (bb\d+)", t)
        return ("goto", m.group(1))
    if t.startswith("tailcall "):
        raise ValueError("tailcall unsupported")
    # call:  PLACE = FUNC(args) -> [return: bbN, unwind ...]
    eq = find_top(t, " = ")
    arrow = t.rfind(" -> [")
    if eq >= 0:
        dest = parse_place(t[:eq])
        if arrow >= 0:
            callpart, tg = t[eq + 3:arrow].strip(), parse_targets(t[arrow + 4:])
        else:  # diverging: '_x = f(args) -> unwind continue'
            a2 = t.rfind(" -> ")
            callpart, tg = t[eq + 3:a2].strip(), {}
        # split func and args: args are the last (...) group
        assert callpart.endswith(")"), t
        depth = 0
        for i in range(len(callpart) - 1, -1, -1):
            if callpart[i] == ")":
                depth += 1
            elif callpart[i] == "(":
                depth -= 1
                if depth == 0:
                    break
        func = callpart[:i].strip()
        args = [parse_operand(a) for a in split_top(callpart[i + 1:-1]) if a]
        return ("call", dest, func, args, tg)
    raise ValueError("terminator: " + t)


class MirProgram:
    """Index over the dump; bodies parsed on demand."""

    def __init__(self, path: str, repo_core: str):
        self.path = path
        self.repo_core = repo_core
        with open(path, errors="replace") as f:
            self.lines = f.read().split("\n")
        self.fn_index = {}      # full header name -> line no
        self.const_index = {}   # name -> line no (const/static/promoted items)
        self._bodies = {}
        hdr = re.compile(r"^fn (.*?)\((.*)$")
        for i, ln in enumerate(self.lines):
            if ln.startswith("fn "):
                # name is up to the '(' that starts the parameter list: first top-level '('
                rest = ln[3:]
                k = find_top(rest, "(")
                nm = rest[:k]
                if nm in self.fn_index:
                    nm = f"{nm}@{i}"
                self.fn_index[nm] = i
            elif ln.startswith("const ") or ln.startswith("static "):
                rest = ln.split(" ", 1)[1]
                if rest.startswith("mut "):
                    rest = rest[4:]
                k = find_top(rest, ": ")
                if "<impl at " in rest[:k + 40] and rest.find(">::", 0) > k:
                    # `<impl at file.rs:46:1: 46:35>::NAME: Type = ...`: the span itself contains ": "
                    e = rest.find(" = ")
                    head = rest[:e] if e > 0 else rest.rstrip(" {")
                    k = head.rfind(": ")
                if k > 0:
                    self.const_index.setdefault(rest[:k], i)
        self._impl_cache = {}
        self._build_impl_index()
        self._enum_cache = {}

    # --- impl blocks -> (trait, self type)
    def _read_src_line(self, file, line):
        p = file if os.path.isabs(file) else os.path.join(os.path.dirname(self.repo_core.rstrip("/")), file)
        try:
            with open(p, errors="replace") as f:
                ls = f.read().split("\n")
            # join a few lines in case the impl header wraps
            return " ".join(x.strip() for x in ls[line - 1: line + 6])
        except OSError:
            return ""

    def impl_info(self, impl_tag: str):
        """impl_tag = 'impl at core/src/x.rs:83:1: 83:16' -> (trait or None, self type text)"""
        if impl_tag in self._impl_cache:
            return self._impl_cache[impl_tag]
        m = re.match(r"impl at (.*?):(\d+):(\d+): (\d+):(\d+)", impl_tag)
        res = (None, None)
        if m:
            src = self._read_src_line(m.group(1), int(m.group(2)))
            col = int(m.group(3)) - 1
            line0 = src
            # derive macros: '#[derive(Debug, Clone)]' spans point into the attribute
            mm = re.search(r"\bimpl\b\s*(<.*?>\s*)?(.*?)\s*(\{|where\b)", src)
            first = self._read_src_line(m.group(1), int(m.group(2))).strip()
            if first.startswith("#[derive") or "derive(" in first.split("impl")[0] if "impl" in first else first.startswith("#["):
                # span of a derive: trait = the derive name at that column; type = next struct/enum name
                raw = self._raw_line(m.group(1), int(m.group(2)))
                trait = re.match(r"\w+", raw[col:]).group(0) if re.match(r"\w+", raw[col:]) else None
                ty = self._next_type_name(m.group(1), int(m.group(2)))
                res = (trait, ty)
            elif mm:
                head = mm.group(2).strip()
                if find_top(head, " for ") >= 0:
                    k = find_top(head, " for ")
                    res = (head[:k].strip(), head[k + 5:].strip())
                else:
                    res = (None, head)
        self._impl_cache[impl_tag] = res
        return res

    def _raw_line(self, file, line):
        p = file if os.path.isabs(file) else os.path.join(os.path.dirname(self.repo_core.rstrip("/")), file)
        try:
            with open(p, errors="replace") as f:
                return f.read().split("\n")[line - 1]
        except (OSError, IndexError):
            return ""

    def _next_type_name(self, file, line):
        p = file if os.path.isabs(file) else os.path.join(os.path.dirname(self.repo_core.rstrip("/")), file)
        try:
            ls = open(p, errors="replace").read().split("\n")
        except OSError:
            return None
        for l in ls[line - 1: line + 30]:
            m = re.search(r"\b(struct|enum|union)\s+(\w+)", l)
            if m:
                return m.group(2)
        return None

    def header_self_types(self, name):
        """Self type of a method guessed from its header (macro-generated impls): the first
        parameter's type if it is a self-like parameter, else the return type."""
        hdr = self.lines[self.fn_index[name]]
        rest = hdr[3 + len(name.split("@")[0]):]
        k = match_close(rest, 0)
        params = split_top(rest[1:k])
        def clean(t):
            t = t.strip()
            t = re.sub(r"^&('\w+ )?(mut )?", "", t)
            return t
        out = []
        if params and params[0]:
            m = re.match(r"_1: (.*)$", params[0], re.S)
            if m:
                out.append(clean(m.group(1)))
        m = re.match(r"\s*->\s*(.*)\s*\{\s*$", rest[k + 1:], re.S)
        if m:
            r = clean(m.group(1))
            out.append(r)
            mm = re.match(r"^std::(?:option::Option|result::Result)<(.*)>$", r)
            if mm:
                out.append(clean(split_top(mm.group(1))[0]))
        return out

    def header_self_type(self, name):
        t = self.header_self_types(name)
        return t[0] if t else None

    def _build_impl_index(self):
        """(last type name, method) -> [full fn names]; also trait-qualified."""
        self.methods = {}
        for name in self.fn_index:
            m = re.search(r"<(impl at [^>]*)>::([^:@]+(::\{closure#\d+\})*)(@\d+)?$", name)
            if not m:
                continue
            self.methods.setdefault(m.group(2), []).append(name)

    def resolve_method(self, module_hint: str, self_ty: str, method: str, trait: str | None):
        """Find the fn whose impl block is for `self_ty` (compared by last path segment, generics
        stripped) and, if given, trait (last segment)."""
        def last(t):
            t = re.sub(r"<.*>", "", t or "").strip()
            t = re.sub(r"'\w+\s+", "", t.lstrip("&")).replace("mut ", "").replace("dyn ", "").strip()
            return t.split("::")[-1]
        want_ty, want_tr = last(self_ty), (last(trait) if trait else None)
        cands = []
        for name in self.methods.get(method, []):
            tag = re.search(r"<(impl at [^>]*)>", name).group(1)
            tr, ty = self.impl_info(tag)
            if ty is None or "$" in ty:
                tys = self.header_self_types(name)
                if want_ty not in [last(t) for t in tys]:
                    continue
                ty = want_ty
            if ty is None:
                continue
            if last(ty) != want_ty:
                continue
            if want_tr is not None and (tr is None or last(tr) != want_tr):
                continue
            if want_tr is None and tr is not None:
                # inherent lookup: prefer inherent impls but allow trait impls as fallback
                cands.append((1, name))
                continue
            cands.append((0, name))
        cands.sort()
        if not cands:
            return None
        best = [n for r, n in cands if r == cands[0][0]]
        if len(best) > 1 and module_hint:
            pref = [n for n in best if n.startswith(module_hint)]
            if pref:
                best = pref
        return best[0]

    # --- enums (variant order) from the crate sources
    def enum_variants(self, ty: str):
        """ty: path of a crate enum (generics stripped). Returns list of variant names or None."""
        base = re.sub(r"<.*>", "", ty).strip()
        name = base.split("::")[-1]
        if name in self._enum_cache:
            return self._enum_cache[name]
        res = None
        mod = base.split("::")[:-1]
        cands = []
        srcroot = os.path.join(self.repo_core, "src")
        for d, _, fn in os.walk(srcroot):
            for f in fn:
                if f.endswith(".rs"):
                    cands.append(os.path.join(d, f))
        # prefer the file matching the module path
        def score(p):
            rel = os.path.relpath(p, srcroot)[:-3].replace("/mod", "").split("/")
            return -sum(1 for a, b in zip(rel, mod) if a == b)
        for p in sorted(cands, key=score):
            txt = open(p, errors="replace").read()
            m = re.search(r"\benum\s+" + re.escape(name) + r"\b[^{]*\{", txt)
            if not m:
                continue
            k = match_close(txt, m.end() - 1)
            body = txt[m.end():k]
            body = re.sub(r"//[^\n]*", "", body)
            body = re.sub(r"/\*.*?\*/", "", body, flags=re.S)
            body = re.sub(r"#\[[^\]]*\]", "", body)
            res = []
            for item in split_top(body, ","):
                mm = re.match(r"\s*(\w+)", item)
                if mm:
                    res.append(mm.group(1))
            break
        self._enum_cache[name] = res
        return res

    # --- struct field order (with cfg(feature) filtering) from the crate sources
    def struct_fields(self, ty: str, features=("ipc", "inproc", "plain")):
        base = re.sub(r"<.*>", "", ty).strip()
        name = base.split("::")[-1]
        key = ("struct", name)
        if key in self._enum_cache:
            return self._enum_cache[key]
        mod = base.split("::")[:-1]
        srcroot = os.path.join(self.repo_core, "src")
        cands = []
        for d, _, fn in os.walk(srcroot):
            for f in fn:
                if f.endswith(".rs"):
                    cands.append(os.path.join(d, f))
        def score(p):
            rel = os.path.relpath(p, srcroot)[:-3].replace("/mod", "").split("/")
            return -sum(1 for a, b in zip(rel, mod) if a == b)
        res = None
        for p in sorted(cands, key=score):
            txt = open(p, errors="replace").read()
            m = re.search(r"\bstruct\s+" + re.escape(name) + r"\b[^{;(]*\{", txt)
            if not m:
                continue
            k = match_close(txt, m.end() - 1)
            body = txt[m.end():k]
            body = re.sub(r"//[^\n]*", "", body)
            body = re.sub(r"/\*.*?\*/", "", body, flags=re.S)
            res = []
            for item in split_top(body, ","):
                item = item.strip()
                if not item:
                    continue
                skip = False
                for cm in re.finditer(r"#\[cfg\((.*?)\)\]", item):
                    cond = cm.group(1)
                    fm = re.match(r'(not\()?feature\s*=\s*"([\w-]+)"\)?', cond)
                    if fm:
                        on = fm.group(2) in features
                        if fm.group(1):
                            on = not on
                        if not on:
                            skip = True
                item2 = re.sub(r"#\[[^\]]*\]", "", item).strip()
                mm = re.match(r"(?:pub(?:\([^)]*\))?\s+)?(\w+)\s*:\s*(.*)$", item2, re.S)
                if mm and not skip:
                    res.append(mm.group(1))
                    self._enum_cache.setdefault(("ftypes", name), {})[mm.group(1)] = " ".join(mm.group(2).split())
            break
        self._enum_cache[key] = res
        return res

    def struct_field_types(self, ty: str):
        """field name -> source type text (after struct_fields has parsed the definition)"""
        self.struct_fields(ty)
        name = re.sub(r"<.*>", "", ty).strip().split("::")[-1]
        return self._enum_cache.get(("ftypes", name), {})

    # --- bodies
    def body(self, name: str) -> Body:
        if name in self._bodies:
            return self._bodies[name]
        if name in self.fn_index:
            b = self._parse_body(self.fn_index[name], name, "fn")
        elif name in self.const_index:
            b = self._parse_body(self.const_index[name], name, "const")
        else:
            raise KeyError(name)
        self._bodies[name] = b
        return b

    def _parse_body(self, start: int, name: str, kind: str) -> Body:
        b = Body()
        b.name, b.kind = name, kind
        hdr = self.lines[start]
        b.raw_header = hdr
        if kind == "fn":
            rest = hdr[3 + len(name.split("@")[0]):]
            k = match_close(rest, 0)
            params = split_top(rest[1:k])
            b.params = []
            for p in params:
                if not p:
                    continue
                m = re.match(r"_(\d+): (.*)$", p, re.S)
                b.params.append(int(m.group(1)))
                b.locals[int(m.group(1))] = m.group(2).strip()
            tail = rest[k + 1:]
            m = re.match(r"\s*->\s*(.*)\s*\{\s*$", tail, re.S)
            b.ret = m.group(1).strip() if m else "()"
            b.locals[0] = b.ret
        else:
            b.params = []
            m = re.match(r"^(?:const|static)(?: mut)? .*?: (.*) = \{\s*$", hdr)
            b.ret = m.group(1).strip() if m else "?"
            b.locals[0] = b.ret
        b.argc = len(b.params)
        i = start + 1
        cur, cur_stmts = None, None
        n = len(self.lines)
        while i < n:
            ln = self.lines[i]
            if ln == "}":
                break
            s = ln.strip()
            i += 1
            if not s or s.startswith("//"):
                continue
            if s.startswith("let "):
                m = re.match(r"let (?:mut )?_(\d+): (.*?);\s*(//.*)?$", s)
                if m:
                    b.locals[int(m.group(1))] = m.group(2).strip()
                continue
            if s.startswith("debug ") or s.startswith("scope ") or s == "}":
                continue
            m = re.match(r"^(bb\d+)( \(cleanup\))?: \{$", s)
            if m:
                cur = m.group(1)
                cur_stmts = []
                b.blocks[cur] = cur_stmts
                continue
            if cur is None:
                continue
            code, loc = _strip_comment(s)
            if code.endswith(";"):
                code = code[:-1]
            cur_stmts.append((code, loc))
        # lazily parsed: keep raw text; parse on first execution
        return b


_parsed_cache = {}


def parsed_block(body: Body, bb: str):
    key = (id(body), bb)
    r = _parsed_cache.get(key)
    if r is None:
        raw = body.blocks[bb]
        stmts = []
        for code, loc in raw[:-1]:
            stmts.append((parse_statement(code), loc))
        term = (parse_terminator(raw[-1][0]), raw[-1][1])
        r = (stmts, term)
        _parsed_cache[key] = r
    return r
