"""Which obligations decide which property, per engine and tier."""
from __future__ import annotations
import os
from .common import *
from . import kani_engine

FMT = "std::fmt::format -> empty String"
TRC = ["tracing_core::callsite::DefaultCallsite::register -> Interest::never",
       "tracing_core::dispatcher::get_default -> no-op dispatcher"]
NOW = "std::time::Instant::now -> arbitrary instant"


def K(name, module, functions, bounds, stubs=(), tiers=("quick", "thorough"), timeout=None):
    return dict(name=name, module=module, functions=list(functions), bounds=bounds, stubs=list(stubs),
                tiers=tiers, timeout=timeout)


MP = "rzmq::protocol::zmtp::manual_parser::ZmtpManualParser::"
WIN = "12 symbolic bytes (9-byte header + 3 payload bytes), symbolic logical length 0..12, MAXMSGSIZE any i64; header length field ranges over all of u64"
CUT = "8 symbolic bytes, short header, payload <= 3 bytes, every cut position 0..n"
ENC5 = ["<rzmq::protocol::zmtp::ZmtpCodec as Encoder<Msg>>::encode", "ZmtpCodec::encode_header_only",
        "ZmtpFrameEncoder::frame_contiguous", "ZmtpFrameEncoder::frame_vectored", "NullFramer::write_msg_split"]


def _enc(lenclass, tiers):
    names = ["codec", "header_only", "contiguous", "vectored", "split"]
    return [K(f"c03_enc_{n}_len{lenclass}", "c03_framing", [ENC5[i]],
              f"payload length {lenclass} (symbolic bytes), MORE and COMMAND symbolic; encoder output == reference header ++ payload",
              tiers=tiers) for i, n in enumerate(names)]


PROPERTIES = {
    "C03": {
        "kani": [
            K("c03_peek_frame_len_vs_spec", "c03_framing", [MP + "peek_frame_len"], WIN, [FMT]),
            K("c03_decode_slice_vs_spec", "c03_framing", [MP + "decode_frame_from_slice"], WIN, [FMT]),
            K("c03_decode_bytes_vs_spec", "c03_framing", [MP + "decode_frame_from_bytes"], WIN, [FMT]),
            K("c03_decode_buffer_vs_spec", "c03_framing", [MP + "decode_from_buffer"], WIN, [FMT]),
            K("c03_codec_decode_vs_spec", "c03_framing", ["<ZmtpCodec as Decoder>::decode"], WIN + "; lengths above the codec's 64 MiB cap must be refused", [FMT] + TRC),
            K("c03_decode_buffer_cut_independent", "c03_framing", [MP + "decode_from_buffer"], CUT, [FMT]),
            K("c03_codec_decode_cut_independent", "c03_framing", ["<ZmtpCodec as Decoder>::decode"], CUT, [FMT] + TRC),
            K("c03_decode_buffer_cut_long_header", "c03_framing", [MP + "decode_from_buffer"], "11 symbolic bytes, long header announcing <= 2 payload bytes, every cut position", [FMT]),
            K("c03_codec_decode_cut_long_header", "c03_framing", ["<ZmtpCodec as Decoder>::decode"], "11 symbolic bytes, long header announcing <= 2 payload bytes, every cut position", [FMT] + TRC),
            *_enc(0, ("quick", "thorough")), *_enc(3, ("quick", "thorough")),
            *_enc(255, ("thorough",)), *_enc(256, ("thorough",)),
        ],
        "assumptions": [
            "Kani 0.68 / CBMC 6.11 (cadical) model of rustc MIR and of std is sound",
            "payload bytes beyond the bound are copied opaquely (memcpy) by encoders and decoders",
            "stubs: " + "; ".join([FMT] + TRC),
        ],
        "outside": "payloads longer than the stated bounds; tokio codec refuses > 64 MiB frames that the manual parser accepts (stated difference)",
    },
}


# ---------------------------------------------------------------------------------------------
def run_kani(prop, obls, tier, seed):
    tmo = 240 if tier == "quick" else 1500
    return kani_engine.run_harnesses(obls, timeout_s=tmo, tag=prop)


ENGINES = {"kani": run_kani}


def replay(prop, result, failure):
    cex = failure.cex or {}
    if cex.get("engine") == "kani":
        ok, note, path = kani_engine.playback(cex["module"], cex["harness"])
        failure.replayed, failure.replay_note, failure.replay_path = ok, note, path
