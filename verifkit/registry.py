"""Which obligations decide which property, per engine and tier."""
from __future__ import annotations
import os
from .common import *
from . import kani_engine, mirsym_engine, cfabmc_engine

FMT = "std::fmt::format -> empty String"
TRC = ["tracing_core::callsite::DefaultCallsite::register -> Interest::never",
       "tracing_core::dispatcher::get_default -> no-op dispatcher"]
NOW = "std::time::Instant::now -> arbitrary instant"


def K(name, module, functions, bounds, stubs=(), tiers=("quick", "thorough"), timeout=None):
    return dict(name=name, module=module, functions=list(functions), bounds=bounds, stubs=list(stubs),
                tiers=tiers, timeout=timeout)


MP = "rzmq::protocol::zmtp::manual_parser::ZmtpManualParser::"
WIN = "12 symbolic bytes (9-byte header + 3 payload bytes), symbolic logical length 0..12, MAXMSGSIZE any i64; header length field ranges over all of u64"
CUT = "8 symbolic bytes, short header, payload <= 3 bytes, every cut position 0..n"
ENC5 = ["<rzmq::protocol::zmtp::ZmtpCodec as Encoder<Msg>>::encode", "ZmtpCodec::encode_header_only",
        "ZmtpFrameEncoder::frame_contiguous", "ZmtpFrameEncoder::frame_vectored", "NullFramer::write_msg_split"]


def _enc(lenclass, tiers):
    names = ["codec", "header_only", "contiguous", "vectored", "split"]
    return [K(f"c03_enc_{n}_len{lenclass}", "c03_framing", [ENC5[i]],
              f"payload length {lenclass} (symbolic bytes), MORE and COMMAND symbolic; encoder output == reference header ++ payload",
              tiers=tiers) for i, n in enumerate(names)]


PROPERTIES = {
    "C03": {
        "kani": [
            K("c03_peek_frame_len_vs_spec", "c03_framing", [MP + "peek_frame_len"], WIN, [FMT]),
            K("c03_decode_slice_vs_spec", "c03_framing", [MP + "decode_frame_from_slice"], WIN, [FMT]),
            K("c03_decode_bytes_vs_spec", "c03_framing", [MP + "decode_frame_from_bytes"], WIN, [FMT]),
            K("c03_decode_buffer_vs_spec", "c03_framing", [MP + "decode_from_buffer"], WIN, [FMT]),
            K("c03_codec_decode_vs_spec", "c03_framing", ["<ZmtpCodec as Decoder>::decode"], WIN + "; lengths above the codec's 64 MiB cap must be refused", [FMT] + TRC),
            K("c03_decode_buffer_cut_independent", "c03_framing", [MP + "decode_from_buffer"], CUT, [FMT]),
            K("c03_codec_decode_cut_independent", "c03_framing", ["<ZmtpCodec as Decoder>::decode"], CUT, [FMT] + TRC),
            K("c03_decode_buffer_cut_long_header", "c03_framing", [MP + "decode_from_buffer"], "11 symbolic bytes, long header announcing <= 2 payload bytes, every cut position", [FMT]),
            K("c03_codec_decode_cut_long_header", "c03_framing", ["<ZmtpCodec as Decoder>::decode"], "11 symbolic bytes, long header announcing <= 2 payload bytes, every cut position", [FMT] + TRC),
            *_enc(0, ("quick", "thorough")), *_enc(3, ("quick", "thorough")),
            *_enc(255, ("quick", "thorough")), *_enc(256, ("quick", "thorough")),
        ],
        "assumptions": [
            "Kani 0.68 / CBMC 6.11 (cadical) model of rustc MIR and of std is sound",
            "payload bytes beyond the bound are copied opaquely (memcpy) by encoders and decoders",
            "stubs: " + "; ".join([FMT] + TRC),
        ],
        "manifest": {
            "engine": "kani",
            "technique": "bounded model checking (Kani/CBMC) of the real encoders/decoders against a reference ZMTP framing spec",
            "text": "Every decoder entry point equals the reference parse and every encoder entry point emits the reference header, for all header bytes (64-bit length field over its full range), all flag combinations, all MAXMSGSIZE values and all cut positions, within a 12-byte symbolic window / payload length classes 0,3,255,256; SAT-decided, unwinding assertions on.",
            "design_ref": "DESIGN.md §5 C03",
            "note": "Bounded: payload bytes beyond the window are assumed to be copied opaquely; Kani's model of std/bytes/tokio-util and the three listed stubs (format!, two tracing entry points) are trusted. Round trip of encoder e and decoder d follows from both meeting the same reference spec.",
        },
        "outside": "payloads longer than the stated bounds; tokio codec refuses > 64 MiB frames that the manual parser accepts (stated difference)",
    },
}


def M(name, module, func, bounds, params=None, budget=None, required_covers=(), tiers=("quick", "thorough"), features=None):
    return dict(name=name, module="verifkit.mirsym.drivers." + module, func=func, bounds=bounds,
                params=params or {}, budget=budget or {}, required_covers=list(required_covers), tiers=tiers, features=features)


MIRSYM_TRUST = [
    "mirsym: own interpreter of rustc's MIR dump (regenerated from /repo each run); functions of the rzmq crate are executed from their MIR, calls leaving the crate go to the hand-written models listed under models_used",
    "container lengths are concrete per path (inputs of symbolic length are enumerated by forking up to the stated bound); bytes and integers are z3 bit-vectors",
    "tracing macros are statically disabled; format!/Display produce opaque strings",
    "every counterexample is replayed natively (/verif/replay, debug and release) before it is reported",
]

PROPERTIES["C06"] = {
    "mirsym": [
        M("c06_plain_server_arbitrary_stream", "d_c06", "plain_server_arbitrary_stream",
          {"quick": "PLAIN server (REP), ALLOW_ZMTP2 both values, credentials 1+1 symbolic bytes, peer stream = 84 fully symbolic bytes delivered in one read (64-byte greeting + 20 bytes: enough for HELLO(1,1)+READY); exploration stops when the Data phase is entered",
           "thorough": "same with credentials 2+2 symbolic bytes and 92 symbolic peer bytes"},
          params={"quick": {"n": 84, "cred_len": 1}, "thorough": {"n": 92, "cred_len": 2}},
          budget={"quick": 400, "thorough": 3000},
          required_covers=["c06.plain-server.rejected", "c06.plain-server.handshake-complete-with-valid-hello"]),
        M("c06_gate_without_available_mechanism", "d_c06", "gate_without_available_mechanism",
          "engine (both roles, ALLOW_ZMTP2 both values) whose configured mechanism is neither NULL nor PLAIN - the greeting / negotiation / ZMTP-2.0 gate a CURVE or NOISE_XX socket shares with PLAIN; 84 fully symbolic peer bytes: the handshake must not progress past the greeting",
          params={"quick": {"n": 84}, "thorough": {"n": 96}}, budget={"quick": 300, "thorough": 900},
          required_covers=["c06.gate.refused"]),
    ],
    "assumptions": MIRSYM_TRUST + ["CURVE and NOISE_XX are not in the default feature set the dump is built with; their bypass checks are limited to the version/mechanism gate shared with PLAIN (greeting, negotiate_security_mechanism, v2 refusal)"],
    "manifest": {
        "engine": "mirsym",
        "technique": "symbolic execution of the engine's MIR (z3) over a fully symbolic peer byte stream; oracle on the tokens reaching the mechanism",
        "text": "For a PLAIN-configured listener and EVERY peer byte stream within the bound (all greetings: any revision, mechanism field, as-server byte, padding; any following frames), the engine leaves the Security phase (Ready, Data, HandshakeComplete or DeliverMessage) only if a HELLO carrying exactly the configured username and password was processed, and the listener never emits a HELLO of its own (its credentials never travel to the peer). All paths are enumerated; each verdict is a z3 query.",
        "design_ref": "DESIGN.md §5 C06",
        "note": "Bounded by the stream length (84/92 bytes, one read; cut independence is C04) and credential length. For CURVE / NOISE_XX only the gate they share with PLAIN is decided (no NULL / PLAIN / unknown-mechanism / ZMTP-2.0 peer gets past the greeting of a socket whose mechanism is neither NULL nor PLAIN); their own handshakes (cryptography) and the PLAIN connector role are outside. Model library and MIR semantics are trusted; counterexamples are replayed natively.",
    },
    "outside": "PLAIN connector role, CURVE/NOISE_XX handshakes (cryptography, non-default features), streams longer than the bound",
}

PROPERTIES["C07"] = {
    "kani": [k for k in PROPERTIES["C03"]["kani"] if "vs_spec" in k["name"]],
    "mirsym": [
        M("c07_greeting_phase", "d_c07", "greeting_phase",
          {"quick": "fresh engine, both roles, ALLOW_ZMTP2 both, 70 symbolic bytes in one read", "thorough": "76 symbolic bytes"},
          params={"quick": {"n": 70}, "thorough": {"n": 76}}, budget={"quick": 300, "thorough": 2000},
          required_covers=["c07.greeting.closed", "c07.greeting.reached-ready-or-data"]),
        M("c07_ready_phase", "d_c07", "ready_phase",
          {"quick": "engine in Ready phase (honest NULL greeting replayed), both roles, 20 symbolic bytes", "thorough": "28 symbolic bytes"},
          params={"quick": {"n": 20}, "thorough": {"n": 28}}, budget={"quick": 300, "thorough": 2500},
          required_covers=["c07.ready.handshake-complete", "c07.ready.closed"]),
        M("c07_data_phase", "d_c07", "data_phase",
          {"quick": "engine in Data phase (v3 and v2), partial multipart message of L in {0,2,255} frames pending, then 5 symbolic bytes",
           "thorough": "L in {0,1,2,254,255}, 6 symbolic bytes"},
          params={"quick": {"n": 5, "partial_lens": [0, 2, 255]}, "thorough": {"n": 6, "partial_lens": [0, 1, 2, 254, 255]}},
          budget={"quick": 400, "thorough": 3000},
          required_covers=["c07.data.delivered", "c07.data.closed"]),
        dict(PROPERTIES["C06"]["mirsym"][0], name="c07_plain_security_phase"),
        M("c07_maxmsgsize_limit", "d_c07", "maxmsgsize_limit",
          "engine in Data phase, MAXMSGSIZE = any limit >= 28 (symbolic i64), one frame header with any flags/any 8- or 64-bit length: refused iff length > limit, nothing but the header buffered",
          budget={"quick": 120, "thorough": 300},
          required_covers=["c07.maxmsgsize.exact-limit-accepted", "c07.maxmsgsize.limit-plus-one-refused"]),
        M("c07_handshake_interval", "d_c07", "handshake_deadline",
          "tokio session actor, handshake loop of run_loop in region mode (from self.read_half.take() of the handshake block; apply_engine_output_handshake stubbed): a peer delivers one signature byte per read, each read finishing before the timer guarding it fires; HANDSHAKE_IVL symbolic (1 ms .. 1 h); timers are recording objects on a symbolic monotone clock shared with Instant::now(); 3 reads",
          budget={"quick": 200, "thorough": 300}, required_covers=["c07.handshake-ivl.three-slow-reads"]),
        M("c07_curve_metadata", "d_c07", "curve_metadata",
          "CURVE (MIR dump built with --features curve,noise_xx): security::curve::handshake::decode_metadata on 0..12 arbitrary bytes - the parser every CURVE handshake command runs on peer bytes before any cryptographic check",
          budget={"quick": 200, "thorough": 300}, required_covers=["c07.curve-metadata.accepted", "c07.curve-metadata.refused"], features="full"),
        M("c07_curve_command_tokens", "d_c07", "curve_command_tokens",
          "CURVE: CurveHandshake::process_server_welcome (connector) and process_client_initiate (listener) on a command whose Cookie / Ciphertext metadata value has 0, 1, 15, 16, 17 or 48 arbitrary bytes; dryoc primitives opaque (opening a box of attacker bytes fails)",
          budget={"quick": 200, "thorough": 300}, required_covers=["c07.curve-command.reached-the-box-opening", "c07.curve-command.refused"], features="full"),
    ],
    "assumptions": MIRSYM_TRUST + ["Kani harnesses: see C03"],
    "manifest": {
        "engine": "mirsym+kani",
        "technique": "symbolic execution of the engine's MIR (z3), one step from every protocol phase on arbitrary bytes; Kani/CBMC for the frame decoders over the full 64-bit length range",
        "text": "Panic freedom and size bounds: from each phase (Greeting, Ready, Data with 0..255 pending MORE frames, v2 and v3) one on_network_bytes call with arbitrary bytes never panics, every fatal error closes the engine, Closed is absorbing; MAXMSGSIZE accepts exactly-limit and refuses limit+1 for every limit (engine level: limit >= 28, in the ZMTP/3 and ZMTP/2.0 Data phases; an over-limit announcement is also refused before READY and before the PLAIN HELLO/WELCOME; parser level via Kani: every i64) and refuses before buffering the body. CURVE: the metadata parser and the WELCOME / INITIATE command handlers return an error, never panic, on arbitrary peer bytes (feature curve). Handshake interval (tokio session): every timer armed while the handshake is incomplete expires no later than HANDSHAKE_IVL after the handshake loop was entered, however the peer paces its bytes.",
        "design_ref": "DESIGN.md §5 C07",
        "note": "NOT claimed: release of the connection slot after a handshake timeout, survival of the owning socket and its other connections, the io_uring handler (async runtime behaviour); PLAIN-phase robustness is exercised by the C06 driver; of CURVE only the command parsers in front of the cryptography are covered (metadata decoding, WELCOME cookie and INITIATE ciphertext framing; dryoc opaque), NOISE_XX parsers are not.",
    },
    "outside": "handshake timer, connection-slot release, socket survival (tokio actors); CURVE/NOISE parsers; io_uring handler",
}

PROPERTIES["C02"] = {
    "mirsym": [PROPERTIES["C07"]["mirsym"][2],
               M("c02_sender_frame_limit", "d_c02", "sender_frame_limit",
                 "Socket::send_multipart (public API body) with 0,1,2,3,255,256,300 frames; the pattern-specific inner socket is stubbed right after the Vec -> FrameBatch conversion",
                 budget={"quick": 120, "thorough": 200}, required_covers=["c02.sender.accepted", "c02.sender.refused"]),
               M("c02_ingress_mixed_reads", "d_c02", "ingress_mixed_reads",
                 {"quick": "AnonymousIngressEngine over the real ReadyPipeQueue (sequential channel models): message A (3 frames) and B (2 frames) queued on two pipes in either order, every sequence of 4 calls from {recv, recv_multipart} with RCVTIMEO 0",
                  "thorough": "sequences of 5 calls"},
                 params={"quick": {"calls": 4}, "thorough": {"calls": 5}}, budget={"quick": 200, "thorough": 600}, required_covers=["c02.ingress.mixed-read"]),
               M("c02_ingress_detach", "d_c02", "ingress_detach",
                 {"quick": "same, every sequence of 4 calls from {recv, recv_multipart, deregister_pipe(0), deregister_pipe(1)}", "thorough": "sequences of 5 calls"},
                 params={"quick": {"calls": 4}, "thorough": {"calls": 5}}, budget={"quick": 300, "thorough": 1200}, required_covers=["c02.ingress.mixed-read"])],
    "assumptions": MIRSYM_TRUST,
    "manifest": {
        "engine": "mirsym",
        "technique": "symbolic execution of ZmtpEngine::process_data (MIR, z3): one inductive step from a state with L pending frames",
        "text": "Sender side: Socket::send_multipart refuses a message of more than 255 frames with an error before anything is queued and never panics; the frames ROUTER::send_multipart hands to the connection form ONE message (MORE on all but the last) whatever MORE flags the application left on the payload frames. Receiver side of a connection: whatever bytes arrive while L in {0..255} MORE-frames are pending, the engine only delivers whole messages (MORE on all but the last frame, no COMMAND frame inside), and a message with more frames than FrameBatch supports closes the connection instead of panicking.",
        "design_ref": "DESIGN.md §5 C02",
        "note": "Also: the PULL/SUB ingress engine keeps a partially read message contiguous under every mix of recv()/recv_multipart() and detach events (two peers, bounded call sequences). NOT claimed: the addressed (ROUTER/REQ) ingress engine, MORE-flag normalisation in the per-pattern send_multipart bodies, peer attach/detach interleavings (socket level).",
    },
    "outside": "socket-level ingress (recv/recv_multipart mixing), sender-side limits, attach/detach interleavings",
}

PROPERTIES["C02"]["mirsym"].append(
        M("c02_router_send_multipart_flags", "d_c02", "router_send_multipart_flags",
          "RouterSocket::send_multipart in region mode (from prepare_wire_frames of the peer's strategy to the hand-over to the connection, inside its coroutine MIR): payload of 1..3 frames, each empty or one symbolic byte, each with an arbitrary MORE flag as set by the application; peer strategies DEALER / REQ / ROUTER / default; auto framing",
          budget={"quick": 200, "thorough": 300}, required_covers=["c02.router.multi-frame-payload", "c02.router.flags-not-preset"]))

PROPERTIES["C17"] = {
    "kani": [
        K("c17_backoff_single", "c17_backoff", ["rzmq::socket::core::state::ReconnectState::on_connection_failure"],
          "attempt counter: any u32; RECONNECT_IVL: any 1..=i32::MAX ms; RECONNECT_IVL_MAX: any 0..=i32::MAX ms (the full range the option parsers produce); one call", [NOW]),
        K("c17_is_due", "c17_backoff", ["ReconnectState::is_due", "ReconnectState::on_connection_failure"], "attempts < 4, any interval, arbitrary clock values", [NOW]),
        K("c17_success_resets", "c17_backoff", ["ReconnectState::on_connection_failure", "ReconnectState::on_connection_success"],
          "same ranges; failure (retry deadline stored), success, failure: counter and deadline cleared by the success, the next delay is the first delay again", [NOW]),
        K("c17_backoff_step", "c17_backoff", ["ReconnectState::on_connection_failure", "ReconnectState::on_connection_success"],
          "same ranges; two consecutive failures: monotone, at most doubling, capped; success resets", [NOW], tiers=("thorough",)),
    ],
    "assumptions": ["Kani 0.68 / CBMC 6.11 model of std::time::Duration arithmetic (real std code, not a model)", "Instant::now stubbed by an arbitrary instant below 2^40 s"],
    "manifest": {
        "engine": "kani",
        "technique": "bounded model checking (Kani/CBMC) of ReconnectState over the full option range",
        "text": "Back-off arithmetic for ALL (RECONNECT_IVL, RECONNECT_IVL_MAX, attempt) triples: first delay = IVL (capped), delay never below IVL unless capped, never above IVL_MAX when set, attempt counter saturates; a success - also one that arrives while a retry deadline is still stored - clears counter and deadline so that the next outage starts at IVL again; thorough tier adds monotone / at-most-geometric growth across two consecutive failures.",
        "design_ref": "DESIGN.md §5 C17",
        "note": "NOT claimed: failure isolation between connections, reconnection actually happening, traffic resumption (socket-core event loop, tokio).",
    },
    "outside": "failure isolation and reconnect scheduling in the socket core (async event loop)",
}

PROPERTIES["C04"] = {
    "mirsym": [
        M("c04_cut_independence", "d_c04", "cut_independence",
          {"quick": "4 peer transcripts (v3 NULL seen by server with identity / by client, ZMTP/2.0 with identity, v3 PLAIN) each followed by 3 data frames (MORE flag, payload and identity bytes symbolic); every single cut position 0..len; engine output (actions, sent bytes, leftover) compared with the uncut delivery",
           "thorough": "same transcripts, every pair of cut positions c1 <= c2 (3 reads)"},
          params={"quick": {"cuts": 1}, "thorough": {"cuts": 2}}, budget={"quick": 400, "thorough": 3000},
          required_covers=["c04.cut-inside-handshake", "c04.data-delivered"]),
        M("c04_actor_handshake_output", "d_c04", "actor_handshake_output",
          "tokio session actor: apply_engine_output_handshake (coroutine MIR) on a hand-assembled actor whose engine has just emitted HandshakeComplete + DeliverMessage for one read (v3 NULL and ZMTP/2.0 transcripts); socket writes and the pipe manager are stubbed",
          budget={"quick": 120, "thorough": 200}, required_covers=["c04.actor.handler-ran"]),
        M("c04_read_cycles", "d_c04", "read_cycles",
          {"quick": "ZmqMessageProcessor::read_and_process (the tokio session's read cycle: awaited read, greedy try_read_chunk drain, on_network_bytes; coroutine MIR) over a scripted stream of 1..2 small data frames (symbolic payload byte), or one 28-byte frame with MAXMSGSIZE symbolic in 28..64 (a legal frame at the size limit), that ends with EOF: every split of the bytes over awaited reads and greedy chunks with piece sizes {1 byte, to the end of the frame, everything}, the end of the stream seen by the greedy drain or by the next awaited read",
           "thorough": "all piece sizes for the small-frame streams (the 28-byte frame keeps the quick tier's cuts)"},
          params={"quick": {}, "thorough": {"all_piece_sizes": True}}, budget={"quick": 600, "thorough": 2400},
          required_covers=["c04.reader.eof-seen-by-greedy-drain", "c04.reader.all-delivered"]),
    ],
    "assumptions": MIRSYM_TRUST + ["the actor value for c04_actor_handshake_output is assembled by the driver (I/O halves absent, pipe manager reports 'not attached'); 'delivered' is judged by the frames still being reachable from the actor's state after the handler returns"],
    "manifest": {
        "engine": "mirsym",
        "technique": "symbolic execution of the sans-IO engine's MIR (z3): differential run of the same transcript under every segmentation; plus execution of the session actor's handshake-output handler",
        "text": "For four honest peer transcripts with symbolic identity/payload bytes, the sequence of HandshakeComplete/DeliverMessage actions, the bytes sent and the unconsumed residue are identical for every segmentation into 2 (quick) or 3 (thorough) reads, including cuts inside the greeting, inside frame headers and exactly at the end of the handshake; data sharing a read with the last handshake byte is emitted by the engine. The session's read cycle hands every byte it read to the engine however the peer's last frames are split over awaited reads and greedy drain chunks and wherever the end of the stream is observed: frames written right before the peer closed are delivered.",
        "design_ref": "DESIGN.md §5 C04",
        "note": "Engine level, plus one step of the tokio session actor: data delivered by the engine together with HandshakeComplete is kept by apply_engine_output_handshake (it used to be dropped: finding F12, fixed). NOT claimed: the io_uring handler, kernel read scheduling, CURVE/NOISE transcripts, the operational loop draining what was kept (shown only by the native replay).",
    },
    "outside": "io_uring handler; operational loop of the session actor; CURVE/NOISE transcripts",
}

PROPERTIES["C19"] = {
    "mirsym": [
        M("c19_heartbeat_timeline", "d_c19", "heartbeat_timeline",
          {"quick": "HEARTBEAT_IVL and HEARTBEAT_TIMEOUT any 1..2^31-1 ms (symbolic), clock = symbolic non-decreasing instants shared with Instant::now(); all timelines of 4 events from {tick, inbound data, inbound PING with 0- or 2-byte symbolic context, inbound PONG}",
           "thorough": "timelines of 5 events, PING contexts of 0, 2 and 16 bytes"},
          params={"quick": {"events": 4, "ctx_lens": [0, 2]}, "thorough": {"events": 5, "ctx_lens": [0, 2, 16]}},
          budget={"quick": 400, "thorough": 3000},
          required_covers=["c19.ping-sent", "c19.pong-echo", "c19.timeout"]),
        M("c19_v2_never_pings", "d_c19", "v2_never_pings", "ZMTP/2.0 session, 3 ticks at arbitrary instants, any IVL/TIMEOUT",
          budget={"quick": 60, "thorough": 60}, required_covers=["c19.v2-ticks"]),
    ],
    "assumptions": MIRSYM_TRUST + ["Instant/Duration are modelled as 128-bit nanosecond counts with std's saturating/checked semantics"],
    "manifest": {
        "engine": "mirsym",
        "technique": "symbolic execution of the engine's heartbeat code (MIR, z3) with time as a solver variable, compared against a reference automaton",
        "text": "For all (IVL, TIMEOUT) and all timelines within the bound: a PING is sent at a tick iff none is outstanding and at least IVL elapsed since the last activity; Timeout is raised only with a PING outstanding for at least TIMEOUT and never after the peer answered or sent any frame; every inbound PING is answered by exactly one PONG with identical context; nothing is emitted on ZMTP/2.0.",
        "design_ref": "DESIGN.md §5 C19",
        "note": "Engine level. NOT claimed: the actor-side timers that call on_tick, the io_uring worker, placement of the PONG in the egress buffer (see C01's EgressBuffer check), encrypted links.",
    },
    "outside": "actor timers, io_uring backend, encrypted framers",
}

CFA_TRUST = [
    "CFAs are extracted by executing the real MIR of each operation with mirsym; only the shared-state vocabulary is hand-written: AtomicUsize fetch_add/fetch_sub/load/store as a sequentially consistent cell, fibre spsc/mpmc channels as linearizable bounded FIFOs (try_send Full iff len == capacity, awaited send/recv block until possible), Arc/Weak as plain pointers",
    "weak-memory effects below SeqCst and fibre's / tokio's own lock-free internals are outside the claim",
    "channel-closed outcomes and pipe deregistration are not part of the scenarios",
]

PROPERTIES["C08"] = {
    "cfabmc": [
        dict(name="c08_rpq_interleavings", module="verifkit.cfabmc.rpq_check",
             scenarios={
                 "quick": [dict(npipes=1, cap=2, ready_cap=1, items_per_producer=2, consumer_calls=2),
                           dict(npipes=1, cap=2, ready_cap=1, items_per_producer=2, consumer_calls=2, batch=True)],
                 "thorough": [dict(npipes=1, cap=2, ready_cap=1, items_per_producer=2, consumer_calls=2),
                              dict(npipes=1, cap=2, ready_cap=1, items_per_producer=2, consumer_calls=2, batch=True),
                              dict(npipes=1, cap=1, ready_cap=1, items_per_producer=2, consumer_calls=2, batch=True),
                              dict(npipes=1, cap=1, ready_cap=1, items_per_producer=2, consumer_calls=2),
                              dict(npipes=1, cap=2, ready_cap=1, items_per_producer=2, consumer_calls=3)],
             },
             timeout_ms={"quick": 900000, "thorough": 3600000}, tiers=("quick", "thorough")),
        dict(name="c08_filtered_batch_after_pending_item", module="verifkit.cfabmc.rpq_check",
             scenarios={
                 "quick": [dict(npipes=1, cap=2, ready_cap=1, items_per_producer=2, consumer_calls=3, batch=True, filtered=True, pre_items=1)],
                 "thorough": [dict(npipes=1, cap=2, ready_cap=1, items_per_producer=2, consumer_calls=3, batch=True, filtered=True, pre_items=1),
                              dict(npipes=1, cap=3, ready_cap=1, items_per_producer=2, consumer_calls=3, batch=True, filtered=True, pre_items=1),
                              dict(npipes=1, cap=2, ready_cap=1, items_per_producer=2, consumer_calls=2, batch=True, filtered=True)],
             },
             queries_by_tier={"quick": ["cover.consumer-completes", "lost-wakeup", "loop-bound-exceeded"]},
             timeout_ms={"quick": 1200000, "thorough": 3600000}, tiers=("quick", "thorough")),
    ],
    "assumptions": CFA_TRUST + ["filtered batch path: every item matches the subscription (SubscriptionTrie::matches = true), FrameBatch::first/len are stubbed (items are opaque ids)"],
    "manifest": {
        "engine": "cfabmc",
        "technique": "bounded model checking of interleavings (z3, QF_BV): control-flow automata of send/try_send/pop/try_pop extracted from MIR, scheduler choice per step as solver variable",
        "text": "For one producer sending 2 items using the async or the non-blocking enqueue path (solver's choice per call) or one batched try_send_batch (generic ReadyPipeSender path; and the subscription-filtered PipeMessageSender path, also with an item already pending when the batch arrives and 3 dequeues) and a consumer using pop/try_pop (solver's choice, last call blocking), over ALL interleavings of the individual channel and counter operations within K steps: no state with all producers done, the consumer parked on an empty ready list and a message still queued (lost wake-up); no counter underflow; reserved_count >= queued_count; debug_assert!(prev > 0) unreachable; spin/retry loops stay within the extraction bound.",
        "design_ref": "DESIGN.md §5 C08",
        "note": "Bounds: ONE pipe (one producer, one consumer), 2 items, pipe capacity 2 (quick) and also capacity 1 / 3 dequeue calls (thorough); scenarios with two pipes did not finish within an hour of solver time and are NOT covered. cancellation of a blocked dequeue, deregister_pipe/close, wait_for_connection and WaitGroup are NOT covered. Counterexample schedules are printed; they are not replayed natively (no scheduling hook in the repo), so a reported schedule is a solver witness over the extracted CFAs.",
    },
    "outside": "try_send_batch, cancellation, deregistration/close, more than 2 producers, fibre internals",
}

PROPERTIES["C12"] = {
    "mirsym": [
        M("c12_trie_history", "d_c12", "history",
          {"quick": "all histories of 3 subscribe/unsubscribe calls over topics of length 0..2 (symbolic bytes, alphabet of 2 values so that prefixes collide), after every call matches() checked for every message of length 0..2",
           "thorough": "topics of length 0..2, messages of length 0..3"},
          params={"quick": {"ops": 3, "topic_len": 2, "msg_len": 2}, "thorough": {"ops": 3, "topic_len": 2, "msg_len": 3}},
          budget={"quick": 600, "thorough": 3300}, required_covers=["c12.match", "c12.no-match"]),
        M("c12_sub_socket_option_history", "d_c12", "history",
          {"quick": "the same histories issued as SUBSCRIBE / UNSUBSCRIBE socket options through SubSocket::set_pattern_option (coroutine MIR; the upstream fan-out to peers is a no-op): 3 calls, topics of length 0..1, messages of length 0..2",
           "thorough": "topics of length 0..2, messages of length 0..2"},
          params={"quick": {"ops": 3, "topic_len": 1, "msg_len": 2, "via_socket": True}, "thorough": {"ops": 3, "topic_len": 2, "msg_len": 2, "via_socket": True}},
          budget={"quick": 500, "thorough": 3300}, required_covers=["c12.match", "c12.no-match"]),
        M("c12_filtered_enqueue", "d_c12", "filtered_enqueue",
          {"quick": "PipeMessageSender::FilteredAnonymous {try_send_sync, send (coroutine), try_send_batch} over the real AnonymousIngressEngine / ReadyPipeQueue (capacity 1) and SubscriptionTrie: all histories of 3 operations from {subscribe t, unsubscribe t, arrival}, topics of 0..1 symbolic bytes, an arrival being one message through try_send_sync or send or a batch of two through try_send_batch, messages of 1..2 frames with a first frame of 0..1 symbolic bytes; after every arrival the queue is read out through recv_multipart",
           "thorough": "topics of 0..2 bytes, first frames of 0..2 bytes"},
          params={"quick": {"ops": 3, "topic_len": 1, "msg_len": 1}, "thorough": {"ops": 3, "topic_len": 2, "msg_len": 2}},
          budget={"quick": 600, "thorough": 3000},
          required_covers=["c12.filter.arrival-after-unsubscribe", "c12.filter.single-delivered", "c12.filter.single-dropped", "c12.filter.batch-mixed", "c12.filter.batch-backpressured"]),
        M("c12_pub_never_blocks", "d_c12", "pub_never_blocks",
          "Distributor::{send_to_all, send_to_all_multipart} (the PUB fan-out, coroutine MIR) over two real connection objects (ScaConnectionIface for tcp/ipc sessions, DirectInprocConnection for inproc), one of them with a full queue of capacity 1 (a subscriber that stopped reading), either order of the two in the fan-out; the connections carry the send timeout that the crate's creation site for that kind of connection computes for a PUB socket and a symbolic SNDTIMEO option (-1, 0, any positive value up to i32::MAX ms): the site's MIR is sliced backwards from the timeout argument to the expression that computes it, which is then evaluated (executed when it is a crate function); one poll of the publish call",
          budget={"quick": 300, "thorough": 600},
          required_covers=["c12.pub.dropped-for-the-stalled-subscriber.sca", "c12.pub.dropped-for-the-stalled-subscriber.inproc"]),
        M("c12_pub_never_blocks_uring", "d_c12", "pub_never_blocks",
          "the same with the MIR dump built with --features io-uring: adds the io_uring backend's ZmtpSmartConnection, whose send timeout comes from ZmtpEngineConfig::from(&SocketOptions) (sliced and evaluated the same way); signal_worker() stubbed",
          budget={"quick": 300, "thorough": 600},
          required_covers=["c12.pub.dropped-for-the-stalled-subscriber.engine_cfg"], features="uring"),
    ],
    "assumptions": MIRSYM_TRUST + ["HashMap<u8, Arc<RwLock<TrieNode>>> is modelled as an association list, AtomicUsize as a sequential cell (single-threaded histories)"],
    "manifest": {
        "engine": "mirsym",
        "technique": "symbolic execution of SubscriptionTrie (MIR, z3) against a multiset-of-prefixes reference over all bounded histories",
        "text": "matches(t) holds iff some subscription with positive reference count is a byte-prefix of t (empty subscription matches everything), a topic subscribed N times stays active until unsubscribed N times, unsubscribing an inactive topic returns false and changes nothing - for every history within the bound, with topic and message bytes symbolic; the same holds when the history is issued as SUBSCRIBE / UNSUBSCRIBE options through SubSocket::set_pattern_option (the application's path).",
        "design_ref": "DESIGN.md §5 C12",
        "note": "Also decided: a publish call completes at its first poll when a subscriber's queue is full and the other subscriber still gets the message - for every connection kind and the send timeout the crate gives a PUB socket's connections (known finding F27: with SNDTIMEO -1 or positive the publisher parks on the stalled subscriber). Also decided: the subscriber-side filter in front of the receive queue (PipeMessageSender::FilteredAnonymous, single, awaited and batched paths) enqueues exactly the messages whose FIRST frame has an active subscription as prefix when they arrive, whole, in order, once, and leaves what does not fit in the caller's deque. NOT claimed: delivery order / no duplicates across live sockets, concurrent matching while the subscription set changes (the trie's per-node locks).",
    },
    "outside": "live PUB/SUB sockets, concurrency, more than two subscribers",
}

PROPERTIES["C13"] = {
    "mirsym": [
        M("c13_load_balancer_history", "d_c13", "history",
          {"quick": "rotation state reached through the real code (0..3 peers, cursor advanced 0..n times), then all sequences of 3 operations from {add(uri), remove(uri), get_next} over 3 URIs",
           "thorough": "then all sequences of 4 operations"},
          params={"quick": {"ops": 3}, "thorough": {"ops": 4}}, budget={"quick": 300, "thorough": 1500}, required_covers=["c13.rotation"]),
        M("c13_route_sweep", "d_c13", "route_sweep",
          {"quick": "OutgoingMessageOrchestrator::{try_route_sync, route_message(wait_for_peer false/true)} (route_message as its coroutine) over 1..3 scripted peers, every rotation cursor; per peer a symbolic 'queue has room' boolean for the first poll and another for a second poll after the call parked in its blocking send; in the wait_for_peer case all peers connect while the sender waits",
           "thorough": "1..4 peers"},
          params={"quick": {"max_peers": 3}, "thorough": {"max_peers": 4}}, budget={"quick": 300, "thorough": 900},
          required_covers=["c13.route.delivered-on-fast-path", "c13.route.skipped-a-full-peer", "c13.route.waited-for-first-peer", "c13.route.refused-when-all-full",
                           "c13.route.parked-on-a-full-peer", "c13.route.resumed-after-park"]),
    ],
    "assumptions": MIRSYM_TRUST + ["histories are enumerated by forking (operation and URI choice); URIs are concrete strings, so this obligation is bounded exhaustive execution of the MIR rather than a solver query over symbolic data"],
    "manifest": {
        "engine": "mirsym",
        "technique": "bounded exhaustive execution of LoadBalancer's MIR against an identity-based round-robin reference",
        "text": "After any bounded history of add/remove/next, the next message goes to the cyclic successor (in join order) of the peer served last; removing a peer neither repeats nor skips a peer; counts are exact; no out-of-bounds.",
        "design_ref": "DESIGN.md §5 C13",
        "note": "NOT claimed: skipping of full peers in route_message, wait_for_connection's check-then-wait window, fairness over time on live sockets.",
    },
    "outside": "route_message readiness sweep, wait_for_connection, live sockets",
}

PROPERTIES["C01"] = {
    "mirsym": [
        M("c01_egress_buffer_ops", "d_egress", "op_sequences",
          {"quick": "all sequences of 4 operations from {push(chunk of 1..2 symbolic bytes, msg_count 0..2), push_priority(chunk of 1..2 bytes), partial write of 1..4 bytes}",
           "thorough": "all sequences of 5 operations"},
          params={"quick": {"ops": 4, "chunk_len": 2}, "thorough": {"ops": 5, "chunk_len": 2}}, budget={"quick": 300, "thorough": 2400},
          required_covers=["egress.partial-write", "egress.priority-behind-partial-head"]),
        M("c01_batch_assembly_carryover", "d_c01", "carryover_branch",
          {"quick": "the carry-over branch of the session actor's operational loop (SessionConnectionActorX::run_loop, executed in region mode inside its coroutine MIR: from the `!core_carryover.is_empty()` test to the hand-over of the finished batch): 1..3 messages in the carry-over, 0..3 in the pipe from the socket, every message size symbolic (< 1 MiB), SNDBATCH_COUNT 1..8, SNDBATCH_BYTES and its physical ceiling symbolic, SNDHWM 1..8 symbolic",
           "thorough": "1..4 messages in the carry-over, 0..4 in the pipe"},
          params={"quick": {"max_carry": 3, "max_pipe": 3}, "thorough": {"max_carry": 4, "max_pipe": 4}}, budget={"quick": 600, "thorough": 3000},
          required_covers=["c01.batch.assembled", "c01.batch.topped-up-from-pipe", "c01.batch.left-carry-over"]),
        M("c01_batch_assembly_first_path", "d_c01", "first_batch_path",
          {"quick": "the other batch assembly of the operational loop (the select! arm that received a message from the socket core with an empty carry-over), region mode from its `outgoing_batch.clear()` to the hand-over of the batch: 0..3 further messages in the pipe, symbolic sizes and batch options as above",
           "thorough": "0..4 further messages"},
          params={"quick": {"max_pipe": 3}, "thorough": {"max_pipe": 4}}, budget={"quick": 400, "thorough": 1500},
          required_covers=["c01.batch.assembled", "c01.batch.topped-up-from-pipe", "c01.batch.left-carry-over"]),
        M("c01_dealer_pending_queue_drained", "d_c01", "dealer_pending_drain",
          {"quick": "DealerSocketOutgoingProcessor::run (the DEALER's background task: a loop around two nested tokio::select!, executed from its coroutine MIR together with the macro's poll_fn closures; the unbiased inner select's start branch is explored for every value): 1, 2, 3, 4, 17 or 33 messages queued with notify_one() each while no peer was attached, then a peer with room attaches (before or after the task's first poll); the task is polled until it parks with no notification pending; the random start branch is explored for the first 3 draws and fixed afterwards",
           "thorough": "also 5, 6 and 65 messages, 4 explored draws"},
          params={"quick": {"queued_options": [1, 2, 3, 4, 17, 33]}, "thorough": {"queued_options": [1, 2, 3, 4, 5, 6, 17, 33, 65], "explored_rng_draws": 4}}, budget={"quick": 400, "thorough": 1200},
          required_covers=["c01.dealer-drain.drained", "c01.dealer-drain.several-queued", "c01.dealer-drain.long-backlog"]),
    ],
    "assumptions": MIRSYM_TRUST + ["VecDeque is modelled as a list",
                                   "region mode: the coroutine object of run_loop is assembled by the driver (variable places taken from the coroutine's debug-info lines in the MIR dump), execution starts at the loop's first basic block and stops at AdaptiveThrottle::begin_work_bulk; Msg::size returns the symbolic size, the pipe hands out its oldest messages, ZmtpEngine::config returns the symbolic options"],
    "manifest": {
        "engine": "mirsym",
        "technique": "region-mode symbolic execution of the session actor's batch-assembly loop inside its coroutine MIR (z3 decides every size comparison); symbolic execution of the session's EgressBuffer (MIR, z3) against a reference byte stream under every partial-write split",
        "text": "The bytes handed to the socket writer are, chunk for chunk, exactly the pushed chunks in order (priority chunks ahead of queued data but never inside a chunk that is partly on the wire), for every split of the stream into partial writes; pending message/byte counters are exact. Batch assembly (both paths of the operational loop: from the carry-over, and from a freshly received message): for every carry-over / pipe content within the bound and every message size and batch option, the batch handed to the framer followed by what stays in the carry-over and in the pipe is exactly the send order - nothing lost, duplicated or overtaken - and the batch is never empty. DEALER: messages accepted while no peer was attached are all handed to the peer once it attaches (in order), the background task never parks with messages queued, a peer with room and no notification pending.",
        "design_ref": "DESIGN.md §5 C01",
        "note": "Three kernels of the property (write queue, carry-over batch assembly, DEALER pending queue). NOT claimed: the io_uring handler's batching, HWM back-pressure, transports, runtime flavours, end-to-end exactly-once delivery.",
    },
    "outside": "io_uring batching, HWM back-pressure, transports",
}
PROPERTIES["C19"]["mirsym"].append(PROPERTIES["C01"]["mirsym"][0])

PROPERTIES["C11"] = {
    "mirsym": [
        M("c11_envelope_roundtrip", "d_c11", "envelope_roundtrip",
          "payload of 0..3 frames, each empty or 1 symbolic byte, incoming MORE flags arbitrary; DEALER->ROUTER and ROUTER->DEALER auto-framing",
          budget={"quick": 120, "thorough": 300}, required_covers=["c11.payload-starting-with-empty-frame"]),
        M("c11_identity_announced", "d_c05", "pair_convergence",
          "DEALER client announcing a routing id of 1, 254 or 255 symbolic bytes to a ROUTER engine (NULL mechanism), first 2 deliveries free: the identity reported with HandshakeComplete is exactly the announced one",
          params={"quick": {"decisions": 2, "id_lens": [1, 254, 255], "mechs": [0]}, "thorough": {"decisions": 3, "id_lens": [1, 2, 254, 255], "mechs": [0]}},
          budget={"quick": 300, "thorough": 900}, required_covers=["c05.pair.converged"]),
        M("c11_router_map_history", "d_c11", "router_map_history",
          {"quick": "all histories of 4 operations from {add_peer, update_peer_identity, remove_peer_by_read_pipe, remove_peer_by_identity} over 2 pipes x 2 identities (collisions and re-identification included)",
           "thorough": "same bound (5 operations would be 10^6 histories)"},
          params={"quick": {"ops": 4}, "thorough": {"ops": 4}}, budget={"quick": 500, "thorough": 1500},
          required_covers=["c11.routermap.routable"]),
        M("c11_router_identity_gate", "d_c11", "router_identity_gate",
          {"quick": "RouterSocket::recv_logical_finalized in non-blocking mode over the real AddressedIngressEngine / ReadyPipeQueue (two connections): all histories of 4 operations from {message arrives on connection 0/1, identity of connection 0/1 finalized, recv}",
           "thorough": "histories of 5 operations"},
          params={"quick": {"ops": 4}, "thorough": {"ops": 5}}, budget={"quick": 400, "thorough": 2400},
          required_covers=["c11.gate.released-after-finalize", "c11.gate.wouldblock-while-pending"]),
        M("c11_router_recv_blocking", "d_c11", "router_recv_blocking",
          {"quick": "RouterSocket::recv_logical_finalized in blocking / timed mode (coroutine MIR: the loop around a biased tokio::select! over the identity-finalized Notify, AddressedIngressEngine::pop and the RCVTIMEO deadline) over the real ingress engine with two connections; RCVTIMEO -1 or any positive value (symbolic); symbolic monotone clock read by Instant::now() and by every timer arming, sleep_until / sleep recording what they were armed with; all histories of 4 events from {message arrives on connection 0/1, identity of connection 0/1 finalized, poll the pending call (start one if none), drop the pending call, deadline passes + poll}; epilogue: finalize both, read everything without blocking", "thorough": "histories of 5 events"},
          params={"quick": {"ops": 4, "family": "c11"}, "thorough": {"ops": 5, "family": "c11"}}, budget={"quick": 600, "thorough": 3000},
          required_covers=['c11.router-recv.delivered', 'c11.router-recv.parked']),
    ],
    "assumptions": MIRSYM_TRUST + ["RouterMap histories are enumerated by forking with concrete identities (bounded exhaustive execution of the MIR)"],
    "manifest": {
        "engine": "mirsym",
        "technique": "symbolic execution of the envelope framing functions and of RouterMap (MIR, z3) over all bounded payload shapes / histories",
        "text": "Delimiter insertion and stripping round-trips every payload shape unchanged in both directions (including payloads starting with an empty frame), with a well-formed MORE chain on the inserted frames; a RouterMap lookup never yields a connection that did not announce that identity and a pipe is never labelled with another peer's identity, for every bounded history including collisions and re-identification. Identity gate: ROUTER's receive path hands a message to the application only when the identity of its connection is final (never earlier, so never under a placeholder for a peer that announces one), in per-connection arrival order, and reports would-block only when no message of a finalized connection is waiting.",
        "design_ref": "DESIGN.md §5 C11",
        "note": "Safety only: that an announced identity stays routable after a colliding peer leaves is NOT claimed (observed as reachable, see DESIGN.md). Identity gate timing, ROUTER_MANDATORY error kinds and REQ/REP envelope handling on live sockets are outside.",
    },
    "outside": "live ROUTER sockets (identity gate, mandatory errors), REQ/REP envelope save/restore",
}

PROPERTIES["C05"] = {
    "mirsym": [
        M("c05_pair_convergence", "d_c05", "pair_convergence",
          {"quick": "client(DEALER)+server(ROUTER) engines wired back to back; NULL / PLAIN with equal / PLAIN with unequal symbolic credentials; routing id absent or 1 symbolic byte; the first 5 deliveries chosen freely from {direction} x {one byte, everything pending}, then alternate flushing",
           "thorough": "first 7 deliveries free"},
          params={"quick": {"decisions": 5, "uneq_shapes": [0]}, "thorough": {"decisions": 7, "uneq_shapes": [0]}}, budget={"quick": 500, "thorough": 3300},
          required_covers=["c05.pair.converged", "c05.pair.refused"]),
        M("c05_pair_credential_prefixes", "d_c05", "pair_convergence",
          {"quick": "same two engines, PLAIN only, credentials unequal because one side's user name or password is a proper prefix of the other's (4 shapes, all bytes symbolic); first 3 deliveries free",
           "thorough": "first 5 deliveries free"},
          params={"quick": {"decisions": 3, "mechs": [2], "uneq_shapes": [1, 2, 3, 4], "id_lens": [0]},
                  "thorough": {"decisions": 5, "mechs": [2], "uneq_shapes": [1, 2, 3, 4], "id_lens": [0]}}, budget={"quick": 400, "thorough": 1500},
          required_covers=["c05.pair.refused", "c05.pair.uneq-shape-1", "c05.pair.uneq-shape-2", "c05.pair.uneq-shape-3", "c05.pair.uneq-shape-4"]),
        M("c05_fragmented_peers", "d_c04", "cut_independence",
          "the four honest peer transcripts of C04 (including a ZMTP/2.0 peer) delivered with a cut at every position: handshake outcome and reported peer type / identity independent of the fragmentation",
          params={"quick": {"cuts": 1}, "thorough": {"cuts": 1}}, budget={"quick": 400, "thorough": 600},
          required_covers=["c04.cut-inside-handshake"]),
        M("c05_compat_v3_vs_v2", "d_c05", "compat_v3_vs_v2",
          "local type: each of the 8 implemented socket types; peer type: each of the 11 ZMTP wire names; ZMTP/3 READY path vs ZMTP/2.0 greeting path vs the ZeroMQ pairing table",
          budget={"quick": 200, "thorough": 300}, required_covers=["c05.compat.accepted", "c05.compat.refused"]),
        M("c05_compat_inproc", "d_c05", "compat_inproc",
          "all 8x8 SocketType pairs through transport::inproc::handshake::validate_socket_compatibility vs the ZeroMQ pairing table",
          budget={"quick": 100, "thorough": 100}, required_covers=["c05.inproc.accepted"]),
    ],
    "assumptions": MIRSYM_TRUST + ["delivery schedules beyond the free prefix are covered through C04 (engine output is a function of the concatenated input)"],
    "manifest": {
        "engine": "mirsym",
        "technique": "symbolic execution of two real engines wired back to back (MIR, z3) under solver-enumerated delivery schedules; table equivalence by exhaustive symbolic execution of the three verdict paths",
        "text": "Compatible endpoints always reach Data and agree on peer socket type and identity; unequal PLAIN credentials - differing in a byte, or one side's user name / password being a proper prefix of the other's - end in failure without a HandshakeComplete on either side; the verdict for every (local, peer) socket-type pair is identical over ZMTP/3 and ZMTP/2.0 and equals the ZeroMQ pairing table; the inproc table is compared against the same table.",
        "design_ref": "DESIGN.md §5 C05",
        "note": "NOT claimed: CURVE/NOISE convergence, connect()/monitor-level outcomes, mechanism mismatch at socket level. The inproc table deviates for six ordered pairs (known finding, pinned by an existing unit test).",
    },
    "outside": "CURVE/NOISE, socket-level connect outcomes",
}

NOTIFY_TRUST = CFA_TRUST + ["tokio::sync::Notify: notified() registers at creation; awaiting it blocks until a notify_waiters() issued after that registration (tokio's documented guarantee)",
                           "a Vec behind a parking_lot Mutex is tracked by its length only; lock scopes are not modelled (over-approximation of interleavings)"]

PROPERTIES["C16"] = {
    "cfabmc": [
        dict(name="c16_waitgroup", module="verifkit.cfabmc.wg_check",
             scenarios={"quick": [dict(workers=1), dict(workers=2), dict(workers=1, waiters=2)],
                        "thorough": [dict(workers=1), dict(workers=2), dict(workers=3, K=22), dict(workers=1, waiters=2), dict(workers=2, waiters=2)]},
             timeout_ms={"quick": 300000, "thorough": 1800000}, tiers=("quick", "thorough")),
    ],
    "assumptions": NOTIFY_TRUST + ["notify_one stores a single permit that the next awaiting task consumes (tokio's documented behaviour)"],
    "manifest": {
        "engine": "cfabmc",
        "technique": "bounded model checking of interleavings (z3): CFAs of WaitGroup::wait / done and LoadBalancer::wait_for_connection / deactivate extracted from MIR, scheduler as solver variables",
        "text": "With 1..3 workers calling done() and one task (also: two tasks, as with two concurrent Context::term() calls) in wait(), over all interleavings of the individual counter / Notify operations: the waiter never remains parked on the Notify while the count is zero, done() never underflows, the re-check loop stays within its bound.",
        "design_ref": "DESIGN.md §5 C16",
        "note": "Kernels only: the WaitGroup that Context::term() and socket shutdown wait on, the release of parked senders and of parked receivers. NOT claimed: bounded completion time of close()/term(), that the socket core actually stops every session (the step the receive kernel depends on), ports and inproc names being released, no task left running (actors, tokio, OS state).",
    },
    "outside": "everything except the WaitGroup, parked-sender and parked-receiver kernels",
}
PROPERTIES["C16"]["mirsym"] = [
    M("c16_blocked_recv_released", "d_c16", "blocked_recv_released",
      "{AnonymousIngressEngine::recv, recv_multipart, AddressedIngressEngine::recv_logical_message, pop} (coroutine MIR, nested ReadyPipeQueue::pop) parked on an empty queue fed by 1..2 connections, RCVTIMEO -1 or positive (timer never fires); then engine.close() and the end of each session (its sender handle retired as fibre's Drop does), in every order, the parked call polled after each step; fibre's rule 'receivers are woken when the LAST sender handle is gone' is part of the channel model (handle counting)",
      budget={"quick": 300, "thorough": 300},
      required_covers=["c16.recv.released-with-error", "c16.recv.call-after-shutdown-fails", "c16.recv.still-parked-after-close-while-a-session-lives"]),
]
PROPERTIES["C16"]["cfabmc"].append(
    dict(name="c16_deactivate_releases_all_senders", module="verifkit.cfabmc.lb_check",
         scenarios={"quick": [dict(mode="deactivate", waiters=2)], "thorough": [dict(mode="deactivate", waiters=2), dict(mode="deactivate", waiters=3, K=36)]},
         timeout_ms={"quick": 600000, "thorough": 3000000}, tiers=("quick", "thorough")))
PROPERTIES["C16"]["manifest"]["text"] += " A recv parked on an empty queue (PULL/SUB and REQ/REP/DEALER/ROUTER ingress engines) is released with an error once the engine has been closed and every session has dropped its sender - in whichever order that happens - and calls made afterwards fail at their first poll; close() alone does not release it while a session still holds a sender (witnessed)."
PROPERTIES["C16"]["manifest"]["engine"] = "cfabmc+mirsym"
PROPERTIES["C16"]["manifest"]["technique"] += "; symbolic execution (mirsym) of the ingress engines' receive coroutines through the shutdown steps"
PROPERTIES["C16"]["assumptions"] = PROPERTIES["C16"]["assumptions"] + MIRSYM_TRUST + ["fibre mpmc: close()/drop of a sender handle retires that handle; parked receivers get Disconnected when the last sender handle is gone and the queue is empty (read from fibre 0.5.13 mpmc_v2/mod.rs close_internal)"]
PROPERTIES["C16"]["manifest"]["text"] += " Closing a socket releases every sender parked in wait_for_connection: with 2 (3) senders parked and one deactivate(), no sender remains parked at the end of any interleaving."
PROPERTIES["C13"]["cfabmc"] = [
    dict(name="c13_wait_for_connection", module="verifkit.cfabmc.lb_check", scenarios={"quick": [dict()], "thorough": [dict(K=20, wait_ops=12)]},
         timeout_ms={"quick": 300000, "thorough": 900000}, tiers=("quick", "thorough")),
]
PROPERTIES["C13"]["assumptions"] = PROPERTIES["C13"]["assumptions"] + NOTIFY_TRUST
PROPERTIES["C13"]["manifest"]["engine"] = "mirsym+cfabmc"
PROPERTIES["C13"]["manifest"]["technique"] += "; interleaving BMC (z3) of wait_for_connection vs add_connection over CFAs extracted from MIR"
PROPERTIES["C13"]["manifest"]["text"] += " A sender in wait_for_connection never stays parked once a peer has been added, for every interleaving of the check / subscribe / add / notify operations."
PROPERTIES["C13"]["manifest"]["text"] += " The readiness sweep of try_route_sync / route_message visits the peers in rotation order, each once; it parks on a peer or reports 'no room' only when no other peer has room at that moment; a message is handed over exactly once (1..3 scripted peers, symbolic readiness). One known finding: a send already parked on a full peer is not moved when ANOTHER peer gets room later."
PROPERTIES["C13"]["manifest"]["technique"] += "; symbolic execution of the orchestrator's sweep (route_message coroutine from MIR) with z3 deciding the readiness conditions"
PROPERTIES["C13"]["manifest"]["note"] = "NOT claimed: fairness over time on live sockets, SNDTIMEO interplay, DEALER's pending queue, real pipe capacities (readiness is a scripted boolean per peer and poll)."
PROPERTIES["C13"]["outside"] = "live sockets, DEALER pending queue, timeouts"

PROPERTIES["C10"] = {
    "mirsym": [
        M("c10_req_state_under_detach", "d_c10", "req_pipe_detached",
          "ReqSocket::pipe_detached executed from MIR on a hand-assembled ReqSocket (two peers A, B; state ReadyToSend or ExpectingReply{A}); detached pipe in {A, B, unknown}; SocketCore, ingress engine and Notify are stubbed",
          budget={"quick": 100, "thorough": 100}, required_covers=["c10.req-detach.unrelated", "c10.req-detach.holder-left"]),
        M("c10_req_call_histories", "d_c10", "req_history",
          {"quick": "ReqSocket::{send, recv} (coroutine MIR; recv contains a biased tokio::select! over the reply notifier and the ingress engine, executed from the macro expansion) on a hand-assembled socket with one peer, the real AddressedIngressEngine and RCVTIMEO = 0: all histories of 4 operations from {send, recv, a reply arrives}",
           "thorough": "histories of 5 operations"},
          params={"quick": {"ops": 4}, "thorough": {"ops": 5}}, budget={"quick": 300, "thorough": 1200},
          required_covers=["c10.req-history.request-reply-cycle"]),
        M("c10_rep_call_histories", "d_c10", "rep_history",
          {"quick": "RepSocket::{recv, send} (coroutine MIR) on a hand-assembled socket with two connections, the real AddressedIngressEngine, RCVTIMEO = 0, endpoints map with one scripted connection per peer: all histories of 4 operations from {a request from A / from B arrives (one routing-prefix frame, delimiter, payload), recv, send}",
           "thorough": "histories of 5 operations"},
          params={"quick": {"ops": 4}, "thorough": {"ops": 5}}, budget={"quick": 300, "thorough": 1200},
          required_covers=["c10.rep-history.request-reply-cycle"]),
    ],
    "cfabmc": [
        dict(name="c10_req_concurrent_send", module="verifkit.cfabmc.req_check",
             scenarios={"quick": [dict(tasks=2)], "thorough": [dict(tasks=2), dict(tasks=3)]},
             timeout_ms={"quick": 300000, "thorough": 1200000}),
        dict(name="c10_rep_concurrent_recv", module="verifkit.cfabmc.rep_check",
             scenarios={"quick": [dict(tasks=2)], "thorough": [dict(tasks=2), dict(tasks=3)]},
             timeout_ms={"quick": 300000, "thorough": 1200000}),
    ],
    "assumptions": MIRSYM_TRUST + ["REP: RepSocket assembled the same way; the state mutex, reads/writes of RepState and the awaited recv_complete_request (any of Ok((peer, payload)) / ConnectionClosed) are the visible operations; RCVTIMEO unset",
                                   "the ReqSocket value is assembled by the driver field by field (core = opaque, ingress engine's deregister_pipe = no-op); the detach obligation is a bounded exhaustive execution with concrete peers",
                                   "cfa-bmc: the request-state mutex (lock / guard drop), reads and writes of ReqState and the connection's send_multipart().await (any of Ok / ConnectionClosed, no shared-state effect) are the visible operations; one connected peer; SNDTIMEO unset; SocketCore::is_running() = true"],
    "manifest": {
        "engine": "mirsym+cfabmc",
        "technique": "interleaving BMC (z3, symbolic scheduler) over the CFAs of ReqSocket::send and RepSocket::recv extracted by executing their MIR, with the state mutex, state reads/writes and the awaited peer send as visible operations; plus execution of ReqSocket::pipe_detached's MIR over all bounded state x event combinations",
        "text": "Two kernels of the property. (1) Racing senders: for 2 (thorough: 3) tasks calling send() concurrently on one REQ socket in state ReadyToSend, under every interleaving of their lock/unlock, state read/write and awaited peer-send steps and every outcome of the peer send: at most one call returns Ok; when all calls have returned the state is ExpectingReply exactly if one succeeded and ReadyToSend otherwise (a refused or failed send never leaves the socket unusable); the state mutex is released. (2) A peer-detach event changes the request state only when the detached peer holds the outstanding request (then the socket returns to ReadyToSend). (4) Single-caller histories on REQ through the real send()/recv(): successful operations alternate send, recv, send ...; a call in the wrong state is refused with InvalidState and changes nothing; a recv that fails for lack of a reply (would-block / timeout) leaves the socket expecting that reply; recv returns the oldest queued reply. (5) Single-caller histories on REP: successful operations alternate recv, send, ...; refused calls change nothing; every reply goes to the connection whose request was received last, with that request's routing prefix and an empty delimiter in front. (3) Racing receivers on REP: for 2 (thorough: 3) tasks calling recv() concurrently in state ReadyToReceive, under every interleaving and every outcome of the awaited request, at most one call returns Ok (no request's PeerInfo is overwritten by a second one), mutexes released.",
        "design_ref": "DESIGN.md §5 (C10)",
        "note": "NOT claimed: recv() racing with send()/recv() from several tasks, multipart replies, cancellation of the send future at its await (the guard's drop on the cancellation edge is not in the MIR dump).",
    },
    "outside": "recv races, longer histories, REP socket, reply routing, cancellation",
}

PROPERTIES["C18"] = {
    "mirsym": [
        M("c18_record_length_prefix", "d_c18", "record_length_prefix",
          "LengthPrefixedFramer (the record layer of CURVE and NOISE_XX sessions) with an abstract cipher (16-byte tag followed by the plaintext): one message of 0, 1, 255, 256, 65000, 65508..65510, 65520 or 70000 payload bytes through write_msg_multipart, then the peer framer's try_read_msg",
          budget={"quick": 200, "thorough": 300}, required_covers=["c18.record.roundtrip", "c18.record.roundtrip-long", "c18.record.refused-at-sender"]),
        M("c18_record_batch_paths", "d_c18", "record_batch_paths",
          "LengthPrefixedFramer::write_msg_batch and ISecureFramer::frame_vectored (the session's batch egress paths) with the abstract cipher: two messages in one record, plaintext totals 22, 600, 65000, 65519..65521, 65527, 65535, 65536, 70000 bytes (the record limit minus the 16-byte tag is 65519), then the peer framer's try_read_msg twice",
          budget={"quick": 300, "thorough": 400}, required_covers=["c18.batch.roundtrip", "c18.batch.roundtrip-long", "c18.batch.refused-at-sender"]),
        M("c18_heartbeat_through_record_layer", "d_c18", "heartbeat_through_record_layer",
          "engine in the Data phase with the encrypted record layer installed as active framer (abstract cipher): the PING emitted by on_tick and the PONG emitted for an inbound (encrypted) PING are fed to a peer record layer",
          budget={"quick": 200, "thorough": 300}, required_covers=["c18.heartbeat.roundtrip"]),
    ],
    "assumptions": MIRSYM_TRUST + ["the cipher is abstract: encrypt(p) = 16 opaque tag bytes followed by p, decrypt strips them; nothing about secrecy, tamper detection or nonce uniqueness is decided"],
    "manifest": {
        "engine": "mirsym",
        "technique": "symbolic execution of the record layer and of the engine's Data-phase emitters (MIR, z3) with an abstract cipher; round trip through the peer's record layer",
        "text": "Structural clause only: everything an endpoint emits in the Data phase of an encrypted session - a message of any of the boundary sizes (alone, or two in one record through the batch egress paths), its PINGs and its PONGs - is either refused with an error at the sender or decoded by the peer's record layer to exactly what was sent (the 16-bit record length is never silently truncated; heartbeats travel inside the record layer).",
        "design_ref": "DESIGN.md §5 C18",
        "note": "NOT claimed: payloads never appearing in clear, detection of bit flips / truncation / replay / reordering, distinct ciphertexts across sessions - properties of the AEAD and of key derivation (the CURVE data keys derive from the static key pairs only and the nonce counter restarts at 1; recorded as an observation in DESIGN.md, not decided by a check).",
    },
    "outside": "secrecy, tamper detection, nonce/key freshness (cryptography); record sizes other than the listed boundary values",
}

PROPERTIES["C09"] = {
    "mirsym": [
        M("c09_rpq_send_cancelled", "d_c09", "rpq_send_cancel",
          "ReadyPipeSender::send (coroutine MIR) on a full pipe of capacity 1 or 2: polled until Pending at the pipe-full await, then the coroutine's drop shim is executed - immediately, or after the consumer took one item; control run: the future resumes instead",
          budget={"quick": 200, "thorough": 300}, required_covers=["c09.rpq-send.cancelled-while-full", "c09.rpq-send.cancelled-after-room", "c09.rpq-send.control-completed"]),
        M("c09_rpq_pop_cancelled", "d_c09", "rpq_pop_cancel",
          "ReadyPipeQueue::pop (coroutine MIR) on an empty queue: polled until Pending on the ready list, then its drop shim is executed before / after a producer enqueued an item; control run resumes",
          budget={"quick": 200, "thorough": 300}, required_covers=["c09.rpq-pop.cancelled-before-enqueue", "c09.rpq-pop.cancelled-after-enqueue", "c09.rpq-pop.control-completed"]),
        M("c09_rpq_pop_dropped_at_every_await", "d_c09", "rpq_pop_cancel_every_point",
          "ReadyPipeQueue::pop with 0, 1 or `capacity` items queued (capacity 1 or 2): up to three polls, the future may be dropped after ANY poll that returned Pending (tokio's yield_now and the channel futures are modelled), an item may be enqueued while it is parked; afterwards the queue is drained",
          budget={"quick": 200, "thorough": 300}, required_covers=["c09.rpq-pop-points.dropped-while-parked", "c09.rpq-pop-points.completed"]),
        M("c09_ingress_recv_cancelled", "d_c09", "ingress_recv_cancel",
          "AnonymousIngressEngine::{recv, recv_multipart} without timeout (PULL/SUB receive path): parked inside the nested ReadyPipeQueue::pop coroutine, outer drop shim executed (it runs the inner coroutine's shim) before / after a 2-frame message was enqueued; then everything is read back frame by frame",
          budget={"quick": 200, "thorough": 300}, required_covers=["c09.ingress.cancelled-before-enqueue", "c09.ingress.cancelled-after-enqueue", "c09.ingress.control-completed"]),
        M("c09_req_send_cancelled", "d_c09", "req_send_cancel",
          "ReqSocket::send (async_trait coroutine) on a hand-assembled socket: dropped while waiting for a first peer, inside the pending peer send, and with two sends in flight (the queued one / the one in front dropped); afterwards state, async mutexes and the next two sends are checked",
          budget={"quick": 200, "thorough": 300},
          required_covers=["c09.req-send.cancelled-while-waiting-for-peer", "c09.req-send.cancelled-inside-peer-send", "c09.req-send.cancelled-queued-send",
                           "c09.req-send.cancelled-send-in-front-of-a-queued-one", "c09.req-send.async-mutex-held-at-the-cancel-point"]),
    ],
    "cfabmc": [
        dict(name="c09_ready_list_awaits_never_suspend", module="verifkit.cfabmc.rpq_check",
             scenarios={"quick": [dict(npipes=1, cap=2, ready_cap=1, items_per_producer=2, consumer_calls=2)],
                        "thorough": [dict(npipes=1, cap=2, ready_cap=1, items_per_producer=2, consumer_calls=2),
                                     dict(npipes=1, cap=1, ready_cap=1, items_per_producer=2, consumer_calls=2),
                                     dict(npipes=1, cap=2, ready_cap=1, items_per_producer=2, consumer_calls=3)]},
             queries=["cover.consumer-completes", "ready-list-send-suspends"],
             timeout_ms={"quick": 600000, "thorough": 1800000}),
    ],
    "assumptions": MIRSYM_TRUST + CFA_TRUST + [
        "cancellation = the compiler-generated drop shim of the suspended coroutine (rustc -Zdump-mir=coroutine_drop, appended to the MIR dump and executed by mirsym); drops of nested crate futures run their own shims; drops of values of external types are no-ops except the modelled ones (async mutex guard releases, a pending fibre send future keeps its item unsent)",
        "sequential semantics between polls: an awaited fibre channel operation / Notified / async-mutex lock is Ready exactly when it can take effect at the moment it is polled",
        "no native replay for these drivers (a violation would be reported as a solver/interpreter witness)"],
    "manifest": {
        "engine": "mirsym+cfabmc",
        "technique": "symbolic execution (mirsym, z3) of the real coroutine bodies up to a Pending poll followed by the real coroutine drop shims from rustc's MIR; interleaving BMC (z3) showing which awaits can never suspend",
        "text": "Kernels of the property. Dropping the future of ReadyPipeSender::send at its pipe-full await, of ReadyPipeQueue::pop and of AnonymousIngressEngine::recv/recv_multipart at their only suspending await, or of ReqSocket::send at each of its awaits (waiting for a peer, behind another send, inside the peer send): leaves counters consistent and mutexes released, loses no queued item, delivers nothing twice and nothing partially, the cancelled item is not delivered at all, and the next valid call succeeds (REQ: exactly one further send, then alternation is enforced again). For one pipe and all interleavings the ready-list awaits inside send() (after the item is committed) and pop() (after an item was taken) never return Pending, so they are not cancellation points.",
        "design_ref": "DESIGN.md §5 (C09)",
        "note": "NOT claimed: the socket-level futures of the eight socket types (they reach into SocketCore / actors), timeouts that cancel internally (tokio::time::timeout wraps the future in an external type whose drop is not executed), recv on REQ/REP/ROUTER/DEALER (addressed ingress, tokio::select!), ROUTER's fragmented send permit, route_message's pending peer send, more than one pipe.",
    },
    "outside": "socket-level futures, internal timeouts, addressed ingress, ROUTER fragmented send, >1 pipe",
}

PROPERTIES["C14"] = {
    "mirsym": [
        M("c14_sca_send_timeouts", "d_c14", "sca_send_timeouts",
          "ScaConnectionIface::{send_message, send_multipart, send_multipart_owned} (the tokio session's connection interface, coroutine MIR) on a full data pipe of capacity 1; SNDTIMEO in {-1, 0, any positive value up to i32::MAX ms (symbolic)}; tokio::time::timeout replaced by an object recording the duration it was armed with, its expiry at the second poll a free choice; then: room appears / still full / timer elapsed",
          budget={"quick": 300, "thorough": 400},
          required_covers=["c14.sca-send.wouldblock", "c14.sca-send.completed-after-wait", "c14.sca-send.still-waiting", "c14.sca-send.timed-out"]),
        M("c14_inproc_send_timeouts", "d_c14", "inproc_send_timeouts",
          "DirectInprocConnection::{send_multipart, send_multipart_owned} (the inproc transport's connection: the pipe is the peer socket's ingress queue) on a full queue of capacity 1 - the same obligations; clean_endpoint_uri() (text of a monitor event) stubbed, no monitor attached",
          budget={"quick": 300, "thorough": 400},
          required_covers=["c14.sca-send.wouldblock", "c14.sca-send.completed-after-wait", "c14.sca-send.still-waiting", "c14.sca-send.timed-out"]),
        M("c14_session_buffering_bound_carryover", "d_c01", "carryover_branch",
          {"quick": "buffering clause, session side (region mode inside SessionConnectionActorX::run_loop, the carry-over branch up to the hand-over of the batch): both write modes; in buffered-write mode the number of framed messages still pending in the EgressBuffer is symbolic (< SNDHWM, the branch's gate); SNDHWM 1..8, SNDBATCH_COUNT 1..8, byte limits and all message sizes symbolic; 1..3 messages in the carry-over (assumed fewer than SNDBATCH_COUNT: induction hypothesis), 0..3 in the pipe",
           "thorough": "1..4 in the carry-over, 0..4 in the pipe"},
          params={"quick": {"max_carry": 3, "max_pipe": 3, "hwm_bound": True}, "thorough": {"max_carry": 4, "max_pipe": 4, "hwm_bound": True}}, budget={"quick": 600, "thorough": 3000},
          required_covers=["c14.buffer.budget-limited-by-hwm", "c14.buffer.carry-over-from-pipe-overflow"]),
        M("c14_session_buffering_bound_first_batch", "d_c01", "first_batch_path",
          {"quick": "the same for the other place that pulls from the socket's pipe (the select! arm that received a message from the socket core; carry-over empty by its guard): 0..3 further messages in the pipe",
           "thorough": "0..4 further messages in the pipe"},
          params={"quick": {"max_pipe": 3, "hwm_bound": True}, "thorough": {"max_pipe": 4, "hwm_bound": True}}, budget={"quick": 600, "thorough": 3000},
          required_covers=["c14.buffer.budget-limited-by-hwm", "c14.buffer.carry-over-from-pipe-overflow"]),
        M("c14_ingress_recv_timeouts", "d_c14", "ingress_recv_timeouts",
          "AnonymousIngressEngine::{recv, recv_multipart} (PULL/SUB receive path, nested ReadyPipeQueue::pop coroutine) on an empty queue; RCVTIMEO in {-1, 0, any positive value (symbolic)}; same timer object; then: a 2-frame message arrives / still empty / timer elapsed, and a message arriving after a refused or timed-out call is read back",
          budget={"quick": 300, "thorough": 400},
          required_covers=["c14.ingress-recv.wouldblock", "c14.ingress-recv.completed-after-wait", "c14.ingress-recv.still-waiting", "c14.ingress-recv.timed-out"]),
    ],
    "assumptions": MIRSYM_TRUST + [
        "time is abstracted: the check decides WHICH duration the code arms (z3: equal to the configured option for every positive value; no timer at all for -1 and 0) and how the three outcomes are mapped to results; that tokio's timer fires no earlier than its duration and not unboundedly later is tokio's contract, not checked",
        "sequential semantics between polls (see C09)"],
    "manifest": {
        "engine": "mirsym",
        "technique": "symbolic execution (mirsym, z3) of the connection interface's and the ingress engine's coroutine MIR with a symbolic timeout option and a recording timer object",
        "text": "Kernels of the timeout clause. On a full pipe the tokio session's connection interface fails at once with a would-block error for SNDTIMEO=0 (message handed back / not enqueued, no timer), arms a timer of exactly SNDTIMEO for every positive value and fails with Timeout/ResourceLimitReached only when it has elapsed (message not enqueued), arms NO timer for SNDTIMEO=-1 (waits until there is room), and completes with the message enqueued exactly once when room appears. On an empty queue PULL/SUB recv()/recv_multipart() do the same for RCVTIMEO and never lose a message that arrives after a refused or timed-out call. The inproc transport's connection meets the same send obligations. Kernel of the buffering clause: a session never frames more messages than SNDHWM leaves room for (framed-and-pending + new batch <= SNDHWM in buffered-write mode), a batch never exceeds SNDBATCH_COUNT, and the carry-over between cycles stays below SNDBATCH_COUNT (inductive step over both places that pull from the socket's pipe) - so one connection buffers at most SNDHWM messages in the socket-to-session pipe, SNDHWM framed in the session, and fewer than SNDBATCH_COUNT in the carry-over.",
        "design_ref": "DESIGN.md §5 (C14)",
        "note": "NOT claimed: the receive-side bound (RCVHWM, ingress queues), the vectored-write mode's pending_vectored queue (gated to one batch by its own guard; the guard is part of the region only for the carry-over branch), the socket-level wrappers (PUSH's tokio timeout around routing, DEALER pending queue, ROUTER send permits, REQ's select over its reply notifier), wall-clock accuracy of tokio timers. The io_uring connection's send timeouts are C20's kernel.",
    },
    "outside": "receive-side HWM bound, socket-level wrappers, timer accuracy",
}

PROPERTIES["C15"] = {
    "mirsym": [
        M("c15_graceful_stop_flushes_session_output", "d_c01", "graceful_stop_with_pending_output",
          "tokio session actor, operational loop of run_loop in region mode: the actor has just accepted Command::Stop without error (phase ShuttingDownStream) while holding 0..2 framed chunks (symbolic bytes) in its EgressBuffer and 0..2 messages in the carry-over; execution from the loop head to perform_graceful_shutdown; any write to the stream on the way counts as a flush",
          budget={"quick": 200, "thorough": 300}, required_covers=["c15.graceful-stop.reached-shutdown"]),
    ],
    "assumptions": MIRSYM_TRUST + ["region mode as for C01 kernel 2 (coroutine object assembled from the debug-info places)",
                                   "only the session's own buffers are considered; the socket core's linger wait (pipes from the socket to the session) is not executed"],
    "manifest": {
        "engine": "mirsym",
        "technique": "region-mode symbolic execution (mirsym, z3) of the session actor's exit from its operational loop on a graceful Stop",
        "text": "One kernel of the property: when a session is stopped gracefully (close()/term() with the linger wait already satisfied at the socket level), whatever it still holds of accepted messages - framed bytes not yet written, messages in its carry-over - is written to the stream before the stream is shut down. The check FAILS on the current tree for every non-empty state within the bound; this is recorded as a known finding (the property text names the same defect), so the check reports it as KNOWN-FINDING and any other violation of the kernel as a VIOLATION.",
        "design_ref": "DESIGN.md §5 (C15)",
        "note": "NOT claimed: everything else in the property - the socket core's linger timer and deadline, LINGER=0 returning promptly, bounded duration of close/term, kernel socket buffers, inproc, handle drop. The kernel does not show that messages are delivered when LINGER allows; it shows where accepted messages are dropped.",
    },
    "outside": "socket-level linger timer, LINGER=0, duration bounds, kernel buffers, inproc",
}

PROPERTIES["C20"] = {
    "mirsym": [
        M("c20_uring_connection_send_timeouts", "d_c14", "uring_send_timeouts",
          "io_uring backend (MIR dump built with --features io-uring): ZmtpSmartConnection::{send_multipart, send_multipart_owned} on a full egress queue of capacity 1 - the obligations of C14's c14_sca_send_timeouts (SNDTIMEO in {-1, 0, any positive value}, recording timer, then room / still full / elapsed) applied to the other backend's connection interface; signal_worker() stubbed",
          budget={"quick": 300, "thorough": 400},
          required_covers=["c14.sca-send.wouldblock", "c14.sca-send.completed-after-wait", "c14.sca-send.still-waiting", "c14.sca-send.timed-out"], features="uring"),
    ],
    "assumptions": MIRSYM_TRUST + ["differential by construction: the same driver and the same assertions as for the tokio session's ScaConnectionIface (C14); no native replay (the io_uring backend is not exercised natively in this sandbox)"],
    "manifest": {
        "engine": "mirsym",
        "technique": "symbolic execution (mirsym, z3) of the io_uring backend's connection interface from a MIR dump built with the io-uring feature, against the obligations the default backend meets",
        "text": "One kernel of the equivalence: the io_uring backend's connection interface treats SNDTIMEO exactly as the default backend's does - immediate would-block for 0, a timer of exactly SNDTIMEO for positive values and Timeout/ResourceLimitReached only when it has elapsed, no timer for -1, the message enqueued exactly once on success and never on failure.",
        "design_ref": "DESIGN.md §5 (C20)",
        "note": "NOT claimed: everything else in the property - delivered messages and order, handshake outcomes, buffer ring / send pool accounting, file descriptors, multishot / zero-copy / cork variants (kernel objects and a second I/O driver). Seen by reading and not decided: nothing in io_uring_backend/ ever calls ZmtpEngine::on_tick, so heartbeats are not driven on that backend.",
    },
    "outside": "message delivery equivalence, handshake outcomes, buffer accounting, fds, heartbeat clock on the io_uring backend",
}

HOOK_COMMITS = ["e6aec85", "b7f56e8", "904f401", "7ede9e5", "6da26bc", "f8dc301", "ef592c1"]

NOT_APPLICABLE = {
}


# ---------------------------------------------------------------------------------------------
def run_kani(prop, obls, tier, seed):
    tmo = 900 if tier == "quick" else 2400      # the slowest quick harness needs ~170 s on an idle machine; generous because a timeout makes the check inconclusive
    return kani_engine.run_harnesses(obls, timeout_s=tmo, tag=prop)


def run_mirsym(prop, obls, tier, seed):
    return mirsym_engine.run_obligations(prop, obls, tier, seed)


def run_cfabmc(prop, obls, tier, seed):
    return cfabmc_engine.run_obligations(prop, obls, tier, seed)


ENGINES = {"kani": run_kani, "mirsym": run_mirsym, "cfabmc": run_cfabmc}


def replay(prop, result, failure):
    cex = failure.cex or {}
    if cex.get("engine") == "kani":
        ok, note, path = kani_engine.playback(cex["module"], cex["harness"])
        failure.replayed, failure.replay_note, failure.replay_path = ok, note, path
    elif cex.get("engine") == "mirsym":
        mirsym_engine.replay_failure(failure)
    elif cex.get("engine") == "cfabmc":
        cfabmc_engine.replay_failure(failure)

# the ROUTER's blocking receive loop: one exploration, each property reports its own clause (param `family`)
PROPERTIES["C09"]["mirsym"].append(
    M("c09_router_recv_cancelled", "d_c11", "router_recv_blocking",
      {"quick": "RouterSocket::recv_logical_finalized in blocking / timed mode (coroutine MIR: the loop around a biased tokio::select! over the identity-finalized Notify, AddressedIngressEngine::pop and the RCVTIMEO deadline) over the real ingress engine with two connections; RCVTIMEO -1 or any positive value (symbolic); symbolic monotone clock read by Instant::now() and by every timer arming, sleep_until / sleep recording what they were armed with; all histories of 4 events from {message arrives on connection 0/1, identity of connection 0/1 finalized, poll the pending call (start one if none), drop the pending call, deadline passes + poll}; epilogue: finalize both, read everything without blocking", "thorough": "histories of 5 events"},
      params={"quick": {"ops": 4, "family": "c09"}, "thorough": {"ops": 5, "family": "c09"}}, budget={"quick": 600, "thorough": 3000},
      required_covers=['c09.router-recv.dropped-a-pending-call']))
PROPERTIES["C14"]["mirsym"].append(
    M("c14_router_recv_timeouts", "d_c11", "router_recv_blocking",
      {"quick": "RouterSocket::recv_logical_finalized in blocking / timed mode (coroutine MIR: the loop around a biased tokio::select! over the identity-finalized Notify, AddressedIngressEngine::pop and the RCVTIMEO deadline) over the real ingress engine with two connections; RCVTIMEO -1 or any positive value (symbolic); symbolic monotone clock read by Instant::now() and by every timer arming, sleep_until / sleep recording what they were armed with; all histories of 4 events from {message arrives on connection 0/1, identity of connection 0/1 finalized, poll the pending call (start one if none), drop the pending call, deadline passes + poll}; epilogue: finalize both, read everything without blocking", "thorough": "histories of 5 events"},
      params={"quick": {"ops": 4, "family": "c14"}, "thorough": {"ops": 5, "family": "c14"}}, budget={"quick": 600, "thorough": 3000},
      required_covers=['c14.router-recv.timed-out']))
PROPERTIES["C09"]["manifest"]["text"] += " ROUTER: a recv dropped at any poll of its wait loop (identity gate, held messages of not-yet-identified connections) loses nothing: every message that arrived is still returned exactly once, per connection in order."
PROPERTIES["C14"]["manifest"]["text"] += " ROUTER recv: the wait loop arms its timer so that it expires RCVTIMEO after the call started, however many times the loop goes round (peers attaching, identities finalized, messages of unidentified connections held) - and none for RCVTIMEO -1; once the deadline has passed the call returns Timeout or a message."
PROPERTIES["C11"]["manifest"]["text"] += " The blocking receive loop of the ROUTER keeps the identity gate too: only messages of connections whose identity is final are returned, per connection in arrival order, and the call does not stay parked while such a message waits."
PROPERTIES["C14"]["mirsym"].append(
    M("c14_addressed_recv_timeouts", "d_c14", "addressed_recv_timeouts",
      "AddressedIngressEngine::recv_logical_message (REQ / REP / DEALER receive path, nested ReadyPipeQueue::pop coroutine) on an empty queue; RCVTIMEO in {-1, 0, any positive value (symbolic)}; recording timer; then: a 2-frame message arrives / still empty / timer elapsed, and a message arriving after a refused or timed-out call is read back",
      budget={"quick": 300, "thorough": 400},
      required_covers=["c14.ingress-recv.wouldblock", "c14.ingress-recv.completed-after-wait", "c14.ingress-recv.still-waiting", "c14.ingress-recv.timed-out"]))
PROPERTIES["C14"]["mirsym"].append(
    M("c14_dealer_send_wait_loops", "d_c14", "dealer_send_wait_loops",
      "DealerSocket::send_multipart while another task's frame-by-frame send is in progress, and DealerSocket::queue_message_or_error on a full pending queue (coroutine MIR incl. the biased tokio::select! against the closing signal); SNDTIMEO any positive value (symbolic), symbolic monotone clock read at every timer arming, tokio::time::timeout / timeout_at recording their expiry; up to 2 wake-ups that do not end the wait (the other task finishes its message and starts the next; queue activity with the queue full again), then the wait ends or the timer fires",
      params={"quick": {"rounds": 2}, "thorough": {"rounds": 3}}, budget={"quick": 300, "thorough": 600},
      required_covers=["c14.dealer-wait.woken-without-progress", "c14.dealer-wait.completed-after-wait", "c14.dealer-wait.timed-out"]))
PROPERTIES["C14"]["manifest"]["text"] += " DEALER: the two wait loops of the send path (behind another task's multi-frame send; for room in the pending queue) arm timers that expire SNDTIMEO after the call started, however often the waiter is woken without getting what it waits for."
PROPERTIES["C14"]["mirsym"].append(
    M("c14_req_send_wait_loop", "d_c14", "req_send_wait_loop",
      "ReqSocket::send with no peer connected (coroutine MIR, real LoadBalancer::wait_for_connection), SNDTIMEO any positive value (symbolic), symbolic clock, recording timers; up to 2 peers that connect and are gone again before the sender runs, then a peer stays or the timer fires",
      params={"quick": {"rounds": 2}, "thorough": {"rounds": 3}}, budget={"quick": 300, "thorough": 600},
      required_covers=["c14.req-wait.woken-without-a-peer", "c14.req-wait.completed-after-wait", "c14.req-wait.timed-out"]))
PROPERTIES["C02"]["mirsym"].append(
    M("c02_rep_reply_flags", "d_c10", "rep_reply_flags",
      "RepSocket::{recv_multipart, send, send_multipart} (coroutine MIR) over the real AddressedIngressEngine: a request of every envelope shape (0..1 routing-prefix frames, the empty delimiter, 0..2 body frames - also a request that ends with the delimiter), then a reply through send(msg) (MORE flag arbitrary) or send_multipart(1..3 frames, every MORE flag arbitrary); the frames handed to the connection are compared with prefix + delimiter + reply, MORE on all but the last",
      budget={"quick": 300, "thorough": 300},
      required_covers=["c02.rep-reply.envelope-only-request", "c02.rep-reply.multi-frame-reply"]))
PROPERTIES["C02"]["manifest"]["text"] += " REP: whatever the envelope shape of the request (also one that ends with the delimiter) and whatever MORE flags the application set, the reply reaches the connection as one unit: routing prefix, delimiter, reply frames, MORE on every frame but the last."
PROPERTIES["C02"]["mirsym"].append(
    M("c02_send_multipart_flags", "d_c02", "send_multipart_flags",
      "{PushSocket, PubSocket, DealerSocket}::send_multipart (coroutine MIR; DEALER with its real FramingLatch in auto mode and an idle send transaction) with 1..3 frames, every MORE flag arbitrary; the routing / fan-out / DEALER send path behind them is a hook that records what it is given",
      budget={"quick": 300, "thorough": 300},
      required_covers=["c02.send-multipart.push", "c02.send-multipart.pub", "c02.send-multipart.dealer"]))
PROPERTIES["C02"]["manifest"]["text"] += " PUSH, PUB and DEALER send_multipart hand on exactly the frames given (DEALER behind the empty delimiter), in order, with MORE on every frame but the last, whatever flags the application set; REQ puts [delimiter (MORE), request (no MORE)] on the wire."
PROPERTIES["C15"]["mirsym"].append(
    M("c15_linger_decision", "d_c15", "linger_decision",
      {"quick": "ShutdownCoordinator::{start_linger_if_needed, is_linger_expired_or_queues_empty} (the socket core's LINGER decision) in the Lingering phase; LINGER in {-1, 0, any positive value up to i32::MAX ms (symbolic)}; 0..2 socket-to-session pipes holding 0..1 messages each; symbolic monotone clock behind Instant::now(); 3 steps from {time passes, a pipe drains, the periodic check calls start_linger_if_needed again}, the decision evaluated after each",
       "thorough": "4 steps"},
      params={"quick": {"ticks": 3}, "thorough": {"ticks": 4}}, budget={"quick": 300, "thorough": 900},
      required_covers=["c15.linger.finished-because-empty", "c15.linger.infinite-keeps-waiting", "c15.linger.zero-finishes", "c15.linger.within-interval", "c15.linger.expired"]))
PROPERTIES["C15"]["manifest"]["text"] += " Second kernel, the socket core's LINGER decision: done as soon as every socket-to-session pipe is empty; with LINGER -1 never while a message is queued; with LINGER 0 at once; with a positive LINGER exactly when (start of lingering + LINGER) has passed on the clock - for every LINGER value and every clock, also when the periodic check re-enters start_linger_if_needed."
PROPERTIES["C15"]["manifest"]["note"] = PROPERTIES["C15"]["manifest"]["note"].replace("the socket core's linger timer and deadline, LINGER=0 returning promptly, bounded duration of close/term", "that the core's loop evaluates the decision often enough and then actually stops the sessions (bounded duration of close/term end to end)")
PROPERTIES["C15"]["outside"] = "end-to-end duration of close/term, kernel buffers, inproc, handle drop"
PROPERTIES["C16"]["mirsym"].append(
    M("c16_shutdown_bookkeeping", "d_c16", "shutdown_bookkeeping",
      {"quick": "ShutdownCoordinator::{begin_shutdown_sequence, record_child_actor_stopped, record_connection_closed} over 0..2 endpoints (listener with a task, listener without, session) and all sequences of 3 stop reports (any tracked id or an untracked one, reported as listener or as connection)",
       "thorough": "0..3 endpoints, 4 reports"},
      params={"quick": {"max_endpoints": 2, "reports": 3}, "thorough": {"max_endpoints": 3, "reports": 4}}, budget={"quick": 300, "thorough": 1500},
      required_covers=["c16.bookkeeping.completed", "c16.bookkeeping.nothing-to-wait-for"]))
PROPERTIES["C16"]["manifest"]["text"] += " The socket core's shutdown bookkeeping waits for exactly the running listeners and sessions: the stop report that empties both lists, and only that one, completes the phase; untracked or repeated reports change nothing."
PROPERTIES["C06"]["mirsym"].append(
    M("c06_plain_client_arbitrary_stream", "d_c06", "plain_client_arbitrary_stream",
      {"quick": "PLAIN connector (REQ), ALLOW_ZMTP2 both values, credentials 1+1 symbolic bytes, peer stream = 84 fully symbolic bytes delivered in one read (64-byte greeting + 20 bytes: enough for WELCOME + READY); exploration stops when the Data phase is entered",
       "thorough": "credentials 2+2 symbolic bytes, 92 symbolic peer bytes"},
      params={"quick": {"n": 84, "cred_len": 1}, "thorough": {"n": 92, "cred_len": 2}},
      budget={"quick": 600, "thorough": 3000},
      required_covers=["c06.plain-client.rejected", "c06.plain-client.handshake-complete-after-welcome"]))
PROPERTIES["C06"]["manifest"]["text"] += " Connector role: for EVERY peer stream of that length a PLAIN connector reports a completed handshake / reaches the Data phase only if the peer's greeting named PLAIN and a WELCOME command reached the mechanism; it never emits WELCOME itself."
PROPERTIES["C06"]["manifest"]["note"] = PROPERTIES["C06"]["manifest"]["note"].replace("PLAIN connector, ", "")
PROPERTIES["C06"]["outside"] = "CURVE/NOISE_XX handshakes (cryptography, non-default features), streams longer than the bound"
PROPERTIES["C17"]["mirsym"] = [
    M("c17_cleanup_one_connection", "d_c17", "cleanup_one_connection",
      "socket::core::pipe_manager::cleanup_session_state_by_uri (coroutine MIR, CoreState::remove_pipe_state executed) on a socket core holding 1..3 sessions (each with pipe sender, reader task, read-id mapping, optional session task) and optionally a listener; the target is any of these or an unknown URI; close_connection / pipe_detached / JoinHandle::abort are hooks that record their argument, monitor events dropped",
      budget={"quick": 300, "thorough": 300},
      required_covers=["c17.cleanup.one-of-several", "c17.cleanup.refused"]),
]
PROPERTIES["C17"]["assumptions"] = PROPERTIES["C17"]["assumptions"] + MIRSYM_TRUST
PROPERTIES["C17"]["manifest"]["engine"] = "kani+mirsym"
PROPERTIES["C17"]["manifest"]["technique"] += "; symbolic execution (mirsym) of the socket core's per-connection teardown"
PROPERTIES["C17"]["manifest"]["text"] += " Failure isolation kernel: tearing down one connection in the socket core removes exactly that connection's endpoint entry, pipe sender, reader task and read-id mapping, closes exactly that connection, aborts only its tasks and reports exactly its pipe to the socket pattern; a listener's or an unknown URI changes nothing."
PROPERTIES["C17"]["manifest"]["note"] = "NOT claimed: that every kind of failure (protocol violation, failed authentication, reset) reaches this teardown and nothing else, reconnection actually happening, traffic resumption (socket-core event loop, tokio)."
PROPERTIES["C17"]["outside"] = "which failures lead to the teardown, reconnect scheduling in the socket core (async event loop)"
PROPERTIES["C20"]["mirsym"].append(
    M("c20_uring_ingress_delivery", "d_c20", "uring_ingress_delivery",
      {"quick": "io_uring backend (MIR dump built with --features io-uring): ZmtpUringHandler::{apply_engine_output, try_drain_spillover, attach_ingress, should_throttle_reads} over the real AnonymousIngressEngine / ReadyPipeQueue (capacity 1 or 2); all histories of 5 steps from {the engine decodes a message, the socket attaches its receive queue, the application reads one message, the worker drains the stash}, then everything is drained",
       "thorough": "histories of 6 steps"},
      params={"quick": {"ops": 5}, "thorough": {"ops": 6}}, budget={"quick": 600, "thorough": 1800},
      required_covers=["c20.ingress.stashed", "c20.ingress.all-delivered"], features="uring"))
PROPERTIES["C20"]["manifest"]["text"] += " Second kernel, receive side: every message the io_uring handler's engine decodes reaches the socket's receive queue exactly once and in order - also when the queue is full or not attached yet (the handler stashes instead of dropping) - and the handler asks the worker to stop reading from the peer for as long as anything is stashed; this is the delivery behaviour of the default backend's awaited hand-over."
PROPERTIES["C20"]["manifest"]["note"] = PROPERTIES["C20"]["manifest"]["note"].replace("NOT claimed: everything else in the property - delivered messages and order, handshake outcomes,", "NOT claimed: the bytes-to-engine path (ring buffers, multishot reads), handshake outcomes,")
PROPERTIES["C20"]["outside"] = "ring buffers and reads, handshake outcomes, buffer accounting, fds, heartbeat clock on the io_uring backend"
PROPERTIES["C20"]["mirsym"].append(
    M("c20_uring_egress_order", "d_c20", "uring_egress_order",
      {"quick": "io_uring backend: ZmtpUringHandler::{prepare_sqes, handle_internal_sqe_completion} with a real engine brought to the Data phase through a NULL handshake and the real framer (frame_batch_vectored); all histories of 5 steps from {the socket queues a one-frame message for the connection, the worker asks for SQEs, the outstanding write completes}, then everything is flushed",
       "thorough": "histories of 7 steps"},
      params={"quick": {"ops": 5}, "thorough": {"ops": 7}}, budget={"quick": 600, "thorough": 1800},
      required_covers=["c20.egress.coalesced", "c20.egress.all-written"], features="uring"))
PROPERTIES["C20"]["manifest"]["text"] += " Third kernel, send side: the handler never has more than one write outstanding, the bytes of its write requests together are the frames of the queued messages in order, each once, and each request's batch_count is the number of messages it carries."
