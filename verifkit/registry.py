"""Which obligations decide which property, per engine and tier."""
from __future__ import annotations
import os
from .common import *
from . import kani_engine

FMT = "std::fmt::format -> empty String"
TRC = ["tracing_core::callsite::DefaultCallsite::register -> Interest::never",
       "tracing_core::dispatcher::get_default -> no-op dispatcher"]
NOW = "std::time::Instant::now -> arbitrary instant"


def K(name, module, functions, bounds, stubs=(), tiers=("quick", "thorough"), timeout=None):
    return dict(name=name, module=module, functions=list(functions), bounds=bounds, stubs=list(stubs),
                tiers=tiers, timeout=timeout)


MP = "rzmq::protocol::zmtp::manual_parser::ZmtpManualParser::"
WIN = "12 symbolic bytes (9-byte header + 3 payload bytes), symbolic logical length 0..12, MAXMSGSIZE any i64; header length field ranges over all of u64"
CUT = "8 symbolic bytes, short header, payload <= 3 bytes, every cut position 0..n"
ENC5 = ["<rzmq::protocol::zmtp::ZmtpCodec as Encoder<Msg>>::encode", "ZmtpCodec::encode_header_only",
        "ZmtpFrameEncoder::frame_contiguous", "ZmtpFrameEncoder::frame_vectored", "NullFramer::write_msg_split"]


def _enc(lenclass, tiers):
    names = ["codec", "header_only", "contiguous", "vectored", "split"]
    return [K(f"c03_enc_{n}_len{lenclass}", "c03_framing", [ENC5[i]],
              f"payload length {lenclass} (symbolic bytes), MORE and COMMAND symbolic; encoder output == reference header ++ payload",
              tiers=tiers) for i, n in enumerate(names)]


PROPERTIES = {
    "C03": {
        "kani": [
            K("c03_peek_frame_len_vs_spec", "c03_framing", [MP + "peek_frame_len"], WIN, [FMT]),
            K("c03_decode_slice_vs_spec", "c03_framing", [MP + "decode_frame_from_slice"], WIN, [FMT]),
            K("c03_decode_bytes_vs_spec", "c03_framing", [MP + "decode_frame_from_bytes"], WIN, [FMT]),
            K("c03_decode_buffer_vs_spec", "c03_framing", [MP + "decode_from_buffer"], WIN, [FMT]),
            K("c03_codec_decode_vs_spec", "c03_framing", ["<ZmtpCodec as Decoder>::decode"], WIN + "; lengths above the codec's 64 MiB cap must be refused", [FMT] + TRC),
            K("c03_decode_buffer_cut_independent", "c03_framing", [MP + "decode_from_buffer"], CUT, [FMT]),
            K("c03_codec_decode_cut_independent", "c03_framing", ["<ZmtpCodec as Decoder>::decode"], CUT, [FMT] + TRC),
            K("c03_decode_buffer_cut_long_header", "c03_framing", [MP + "decode_from_buffer"], "11 symbolic bytes, long header announcing <= 2 payload bytes, every cut position", [FMT]),
            K("c03_codec_decode_cut_long_header", "c03_framing", ["<ZmtpCodec as Decoder>::decode"], "11 symbolic bytes, long header announcing <= 2 payload bytes, every cut position", [FMT] + TRC),
            *_enc(0, ("quick", "thorough")), *_enc(3, ("quick", "thorough")),
            *_enc(255, ("thorough",)), *_enc(256, ("thorough",)),
        ],
        "assumptions": [
            "Kani 0.68 / CBMC 6.11 (cadical) model of rustc MIR and of std is sound",
            "payload bytes beyond the bound are copied opaquely (memcpy) by encoders and decoders",
            "stubs: " + "; ".join([FMT] + TRC),
        ],
        "manifest": {
            "engine": "kani",
            "technique": "bounded model checking (Kani/CBMC) of the real encoders/decoders against a reference ZMTP framing spec",
            "text": "Every decoder entry point equals the reference parse and every encoder entry point emits the reference header, for all header bytes (64-bit length field over its full range), all flag combinations, all MAXMSGSIZE values and all cut positions, within a 12-byte symbolic window / payload length classes 0,3,255,256; SAT-decided, unwinding assertions on.",
            "design_ref": "DESIGN.md §5 C03",
            "note": "Bounded: payload bytes beyond the window are assumed to be copied opaquely; Kani's model of std/bytes/tokio-util and the three listed stubs (format!, two tracing entry points) are trusted. Round trip of encoder e and decoder d follows from both meeting the same reference spec.",
        },
        "outside": "payloads longer than the stated bounds; tokio codec refuses > 64 MiB frames that the manual parser accepts (stated difference)",
    },
}


HOOK_COMMITS = ["e6aec85"]

NOT_APPLICABLE = {
    "C01": "not claimed yet (machinery under construction)",
    "C02": "not claimed yet (machinery under construction)",
    "C04": "not claimed yet (machinery under construction)",
    "C05": "not claimed yet (machinery under construction)",
    "C06": "not claimed yet (machinery under construction)",
    "C07": "not claimed yet (machinery under construction)",
    "C08": "not claimed yet (machinery under construction)",
    "C09": "not claimed yet (machinery under construction)",
    "C10": "not claimed yet (machinery under construction)",
    "C11": "not claimed yet (machinery under construction)",
    "C12": "not claimed yet (machinery under construction)",
    "C13": "not claimed yet (machinery under construction)",
    "C14": "SNDTIMEO/RCVTIMEO are wall-clock semantics of tokio timers around channel operations and the buffering bound is an end-to-end quantity across three tasks; there is no function whose symbolic execution states it, and a symbolic timer would verify the stub, not rzmq (DESIGN.md §5 C14)",
    "C15": "LINGER is a multi-actor shutdown protocol over tokio timers, mailboxes and kernel socket buffers; out of reach of solver-based checking of functions (DESIGN.md §5 C15)",
    "C16": "not claimed yet (machinery under construction)",
    "C17": "not claimed yet (machinery under construction)",
    "C18": "not claimed yet (machinery under construction)",
    "C19": "not claimed yet (machinery under construction)",
    "C20": "backend equivalence and kernel-object lifecycles (io_uring rings, fds) cannot be encoded; handlers need a live IoUring (DESIGN.md §5 C20)",
}


# ---------------------------------------------------------------------------------------------
def run_kani(prop, obls, tier, seed):
    tmo = 240 if tier == "quick" else 1500
    return kani_engine.run_harnesses(obls, timeout_s=tmo, tag=prop)


ENGINES = {"kani": run_kani}


def replay(prop, result, failure):
    cex = failure.cex or {}
    if cex.get("engine") == "kani":
        ok, note, path = kani_engine.playback(cex["module"], cex["harness"])
        failure.replayed, failure.replay_note, failure.replay_path = ok, note, path
