"""Runner glue for cfa-bmc obligations (interleaving BMC over CFAs extracted from MIR)."""
from __future__ import annotations
import importlib, multiprocessing as mp, os, re, time
from .common import *
from .mirdump import mir_path

_G = {}


def _init(mir, core):
    from .mirsym.parser import MirProgram
    _G["prog"] = MirProgram(mir, core)


def _task(args):
    module, cfg, query, timeout_ms = args
    mod = importlib.import_module(module)
    t0 = time.time()
    try:
        r = mod.run_scenario(_G["prog"], cfg, timeout_ms=timeout_ms, only=query)
        r["error"] = None
    except Exception as ex:
        import traceback
        r = {"queries": [], "error": f"{ex!r} | {traceback.format_exc()[-800:]}", "functions": [], "K": 0, "nodes": 0, "paths": {}}
    r["task_wall_s"] = time.time() - t0
    return (cfg, query, r)


def run_obligations(prop, obls, tier, seed):
    mir, core = mir_path(), os.path.join(REPO, "core")
    tasks, meta = [], {}
    for o in obls:
        mod = importlib.import_module(o["module"])
        for si, cfg in enumerate(o["scenarios"][tier]):
            for qn in (o.get("queries_by_tier", {}).get(tier) or o.get("queries") or mod.QUERIES):
                tasks.append((o["module"], cfg, qn, o.get("timeout_ms", {}).get(tier, 600000)))
                meta[(o["module"], repr(cfg), qn)] = (o, si)
    workers = max(1, min(len(tasks), (os.cpu_count() or 4) - 2))
    with mp.get_context("fork").Pool(workers, _init, (mir, core)) as pool:
        outs = pool.map(_task, tasks, chunksize=1)
    results = {}
    for (module, cfg, qn, _), (_, _, r) in zip(tasks, outs):
        o, si = meta[(module, repr(cfg), qn)]
        oid = f"cfabmc:{o['name']}[{si}]"
        res = results.get(oid)
        if res is None:
            res = results[oid] = ObligationResult(oid=oid, engine="cfabmc", status="pass", bounds=_bounds(cfg, r), functions=[])
        res.functions = sorted(set(res.functions) | {_short(f) for f in r.get("functions", [])})
        res.wall_s = max(res.wall_s, r.get("task_wall_s", 0))
        res.states += int(r.get("K", 0)) * max(1, int(r.get("nodes", 0)))
        res.transitions += int(r.get("K", 0))
        if r.get("error"):
            res.status = "inconclusive"
            res.note += f" | {qn}: {r['error'][:300]}"
            continue
        for q in r["queries"]:
            res.queries += 1
            res.solver_s += q["solver_s"]
            if q["result"] == "unknown":
                res.status = "inconclusive"
                res.note += f" | {q['name']}: solver timeout"
            elif q["expect"] == "sat":
                if q["result"] != "sat":
                    res.status = "inconclusive"
                    res.note += f" | vacuity: {q['name']} unsatisfiable"
                else:
                    res.nontrivial += 1
                    res.witnesses.append({"cover": q["name"], "schedule": q.get("schedule", [])[:40]})
            elif q["result"] == "sat":
                if q["name"] == "loop-bound-exceeded":
                    res.status = "inconclusive" if res.status != "fail" else res.status
                    res.note += " | a loop of the CFA iterates beyond the extraction bound on some schedule"
                else:
                    res.status = "fail"
                    res.failures.append(Failure(role=f"{o['name']}|{q['name']}", description=f"{q['name']} reachable: schedule of {len(q.get('schedule', []))} steps",
                                                cex={"engine": "cfabmc", "scenario": cfg, "schedule": q.get("schedule"), "variants": q.get("variants")}))
            else:
                res.nontrivial += 1
    return list(results.values())


def _bounds(cfg, r):
    return f"scenario {cfg}; K={r.get('K')} scheduler steps over {r.get('nodes')} CFA nodes; all interleavings at the granularity of individual channel/atomic operations"


def _short(fn):
    return re.sub(r"<impl at [^>]*/([^/>:]+):(\d+):[^>]*>", r"<impl \1:\2>", fn)


def replay_failure(failure):
    """native replay of the two notify races through the schedule-point hook; other schedules are
    solver witnesses over the extracted CFAs (no native scheduler for them)"""
    from .mirsym_engine import run_replay
    role = failure.role
    cmd = None
    scen = (failure.cex or {}).get("scenario") or {}
    if "waiter-sleeps-with-count-zero" in role and scen.get("waiters", 1) > 1:
        cmd, needle = f"waitgroup_waiters {scen['waiters']}\n", "BLOCKED with count=0"
    elif "waiter-sleeps-with-count-zero" in role:
        cmd, needle = "waitgroup_race\n", "waitgroup wait BLOCKED count=0"
    elif "sender-sleeps-although-a-peer-connected" in role:
        cmd, needle = "lb_wait_race\n", "lb wait BLOCKED peers=1"
    elif "two-recvs-succeed-without-send" in role:
        cmd, needle = "rep_recv_race\n", "rep_recv_race ok=2"
    elif "two-sends-succeed-without-recv" in role:
        cmd, needle = "req_send_race\n", "req_send_race ok=2"
    if cmd is None:
        failure.replayed, failure.replay_note = None, "schedule is a solver witness over the CFAs extracted from MIR; no native scheduler hook for this operation"
        return
    notes, hit_any = [], False
    for profile in ("debug", "release"):
        try:
            out, rc = run_replay(cmd, profile)
        except Exception as ex:
            notes.append(f"{profile}: could not run: {ex!r}"[:200])
            continue
        hit = needle in out
        notes.append(f"{profile}: {'reproduced' if hit else 'not reproduced'} ({out.strip()[:80]})")
        hit_any = hit_any or hit
    failure.replayed, failure.replay_note = hit_any, "schedule replayed with real code via the rzmq_verif schedule point; " + "; ".join(notes)
