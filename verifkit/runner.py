"""bin/check <property> [--tier quick|thorough]: run every obligation registered for the property,
replay counterexamples natively, classify against known_findings.json, write the evidence file,
print VIOLATION / KNOWN-FINDING lines, exit 0 / 1 / 2."""
from __future__ import annotations
import argparse, json, os, re, sys, time, traceback
from .common import *
from . import registry


def load_findings():
    p = os.path.join(VERIF, "known_findings.json")
    if not os.path.exists(p):
        return []
    return json.load(open(p)).get("findings", [])


def match_known(prop, failure, findings):
    for f in findings:
        if f.get("property") != prop or f.get("status") != "known":
            continue
        try:
            if re.search(f["role"], failure.role):
                return f
        except re.error:
            if f["role"] in failure.role:
                return f
    return None


def main(argv=None):
    ap = argparse.ArgumentParser()
    ap.add_argument("property")
    ap.add_argument("--tier", default=os.environ.get("VERIF_TIER", "quick"), choices=["quick", "thorough"])
    ap.add_argument("--only", default=None, help="regex on obligation ids (development aid)")
    ap.add_argument("--no-evidence", action="store_true")
    args = ap.parse_args(argv)
    prop, tier = args.property, args.tier
    seed = int(os.environ.get("VERIF_SEED", "0") or 0)
    t0 = time.time()
    spec = registry.PROPERTIES.get(prop)
    if spec is None:
        print(f"unknown or not-applicable property {prop}", file=sys.stderr)
        return 2
    results: list[ObligationResult] = []
    errors = []
    for engine_name, runner_fn in registry.ENGINES.items():
        obls = [o for o in spec.get(engine_name, []) if tier in o.get("tiers", ("quick", "thorough"))]
        if args.only:
            obls = [o for o in obls if re.search(args.only, o["name"])]
        if not obls:
            continue
        try:
            results += runner_fn(prop, obls, tier, seed)
        except Exception as ex:  # engine crash = inconclusive, never a pass
            traceback.print_exc()
            errors.append(f"{engine_name}: {ex!r}")
    findings = load_findings()
    violations, known, inconclusive, nonrepro = [], [], [], []
    replayed_known = set()
    cexdir = os.path.join(BUILD, "cex", prop)
    n_cex = 0
    for r in results:
        if r.status == "inconclusive":
            inconclusive.append(r)
        for fl in r.failures:
            kf = match_known(prop, fl, findings)
            first_of_known = kf is not None and kf["role"] not in replayed_known
            if first_of_known:
                replayed_known.add(kf["role"])          # one native replay per listed finding and run
            if fl.replayed is None and (kf is None or first_of_known):
                # replay before reporting
                try:
                    registry.replay(prop, r, fl)
                except Exception as ex:
                    traceback.print_exc()
                    fl.replay_note = f"replay crashed: {ex!r}"
            n_cex += 1
            path = os.path.join(cexdir, f"{n_cex:03d}.json")
            jdump({"property": prop, "obligation": r.oid, "role": fl.role, "description": fl.description,
                   "location": fl.location, "cex": fl.cex, "replayed": fl.replayed,
                   "replay_note": fl.replay_note, "replay_artifact": fl.replay_path}, path)
            if kf is not None:
                known.append((kf, fl, path))
            elif fl.replayed is False:
                nonrepro.append((r, fl, path))
            else:
                violations.append((r, fl, path))
    # ---- report
    for r in results:
        print(f"[{r.status:12s}] {r.oid}  ({r.wall_s:.1f}s, {r.queries} queries, {r.nontrivial} nontrivial) {r.note[:300]}")
    printed = set()
    for kf, fl, path in known:
        key = kf["role"]
        if key in printed:
            continue
        printed.add(key)
        print(f"KNOWN-FINDING: property={prop} {kf.get('what', fl.description)}" + (f" [{fl.replay_note[:160]}]" if fl.replay_note else ""))
    for r, fl, path in violations:
        print(f"  violation detail: {fl.description} @ {fl.location} [{fl.replay_note}]")
        print(f"VIOLATION property={prop} replay={path}")
    for r, fl, path in nonrepro:
        print(f"NON-REPRODUCING counterexample (encoding/stub suspect, nothing claimed): {fl.role} [{fl.replay_note}] -> {path}")
    for e in errors:
        print("ENGINE-ERROR " + e)
    wall = time.time() - t0
    # ---- evidence
    if not args.no_evidence and not args.only:
        ev = build_evidence(prop, tier, seed, spec, results, violations, known, inconclusive, nonrepro, wall)
        jdump(ev, os.path.join(VERIF, "evidence", f"{prop}.json"))
    if violations:
        return 1
    if inconclusive or nonrepro or errors or not results:
        print(f"INCONCLUSIVE property={prop}: {len(inconclusive)} obligation(s) undecided, {len(nonrepro)} non-reproducing")
        return 2
    return 0


def build_evidence(prop, tier, seed, spec, results, violations, known, inconclusive, nonrepro, wall):
    queries = sum(r.queries for r in results)
    nontriv = sum(r.nontrivial for r in results)
    samples = []
    for r in results:
        for w in r.witnesses[:3]:
            samples.append({"obligation": r.oid, "witness": w})
    if not samples:
        samples = [{"obligation": r.oid, "bounds": r.bounds, "status": r.status} for r in results[:5]]
    functions = sorted({f for r in results for f in r.functions})
    stubs = sorted({s for r in results for s in r.stubs})
    models = sorted({s for r in results for s in r.models})
    cov = {
        "evaluations": max(queries, 0),
        "distinct_nontrivial": nontriv,
        "rule": ("evaluations = solver queries / CBMC verification conditions discharged over the symbolic "
                 "encodings of the listed functions; distinct_nontrivial = those that were reachable "
                 "(non-vacuous): CBMC checks with status SUCCESS/SATISFIED (not UNREACHABLE), mirsym feasible "
                 "path classes that reached an assertion, cfa-bmc unrolled steps with a satisfiable reachability witness"),
        "samples": samples[:12],
        "exhaustive": False,
        "obligations": len(results),
        "discharged": sum(1 for r in results if r.status == "pass"),
        "obligation_details": [
            {"id": r.oid, "engine": r.engine, "status": r.status, "functions": r.functions, "bounds": r.bounds,
             "queries": r.queries, "nontrivial": r.nontrivial, "paths": r.paths, "solver_s": round(r.solver_s, 3),
             "wall_s": round(r.wall_s, 2), "stubs": r.stubs, "models": r.models, "note": r.note[:400],
             "failures": [{"role": f.role, "replayed": f.replayed, "note": f.replay_note} for f in r.failures]}
            for r in results],
        "functions_encoded": functions,
        "stubs": stubs,
        "models_used": models,
        "solver_s": round(sum(r.solver_s for r in results), 3),
        "paths": sum(r.paths for r in results),
        "traces_validated_against_impl": sum(r.validated_traces for r in results),
        "known_findings_rederived": sorted({kf["role"] for kf, _, _ in known}),
        "inconclusive": [r.oid for r in inconclusive],
        "outside_claim": spec.get("outside", ""),
    }
    st = sum(r.states for r in results)
    tr = sum(r.transitions for r in results)
    if st and tr:
        cov["states"], cov["transitions"] = st, tr
    return {
        "property_id": prop, "tier": tier, "seed": seed, "level": "model_checking",
        "coverage": cov,
        "assumptions": spec.get("assumptions", []),
        "wall_s": round(wall, 2),
        "violations": len(violations),
    }


if __name__ == "__main__":
    sys.exit(main())
