"""Regenerates the MIR dump of /repo/core (content-hash cache keyed on the crate sources)."""
from __future__ import annotations
import os, shutil, sys
from .common import *

FEATURE_SETS = {"default": [], "full": ["--features", "curve,noise_xx"], "uring": ["--features", "io-uring"]}


def mir_path(features="default"):
    """returns path of an up-to-date dump for the current working tree of /repo"""
    core = os.path.join(REPO, "core")
    key = tree_hash([os.path.join(core, "src"), os.path.join(core, "Cargo.toml"), os.path.join(REPO, "Cargo.lock")])
    out = os.path.join(BUILD, "mir", f"rzmq-{features}-{key}-v2.mir")      # v2: with coroutine drop shims appended
    if os.path.exists(out) and os.path.getsize(out) > 1000000:
        return out
    with FileLock("mir-" + features):
        if os.path.exists(out) and os.path.getsize(out) > 1000000:
            return out
        os.makedirs(os.path.dirname(out), exist_ok=True)
        # keep the three most recent dumps of this feature set (concurrent runs on other trees), drop older ones
        olds = sorted((f for f in os.listdir(os.path.dirname(out)) if f.startswith(f"rzmq-{features}-") and f.endswith(".mir")),
                      key=lambda f: os.path.getmtime(os.path.join(os.path.dirname(out), f)))
        for f in olds[:-3]:
            os.remove(os.path.join(os.path.dirname(out), f))
        tdir = os.path.join(BUILD, "mir-target-" + features)
        # force re-emission even when cargo thinks the crate is fresh
        marker = os.path.join(tdir, "debug", ".fingerprint")
        if os.path.isdir(marker):
            for d in os.listdir(marker):
                if d.startswith("rzmq-"):
                    shutil.rmtree(os.path.join(marker, d), ignore_errors=True)
        # the same rustc run also writes the drop shims of all coroutines (the code that runs when a suspended
        # future is dropped); CARGO_INCREMENTAL=0 because passes answered from the incremental cache dump nothing
        ddir = out + ".drops"
        shutil.rmtree(ddir, ignore_errors=True)
        os.makedirs(ddir)
        cmd = ["cargo", "+nightly", "rustc", "--offline", "--lib", "-p", "rzmq", *FEATURE_SETS[features], "--",
               "-Zunpretty=mir", "-Zmir-include-spans=on", "-Ztrim-diagnostic-paths=no", "-C", "overflow-checks=on", "-Awarnings",
               "-Zdump-mir=coroutine_drop", f"-Zdump-mir-dir={ddir}"]
        tmp = out + ".tmp"
        rc, o, wall = sh(" ".join(cmd) + f" > {tmp} 2> {tmp}.err", cwd=core, env={"CARGO_TARGET_DIR": tdir, "CARGO_INCREMENTAL": "0"}, timeout=1500)
        if rc != 0 or not os.path.exists(tmp) or os.path.getsize(tmp) < 1000000:
            err = open(tmp + ".err").read()[-2000:] if os.path.exists(tmp + ".err") else o
            raise RuntimeError("MIR dump failed: " + err)
        n_shims = 0
        with open(tmp, "a") as f:
            f.write("\n// ---- coroutine drop shims (-Zdump-mir=coroutine_drop) ----\n")
            for fn in sorted(os.listdir(ddir)):
                if not fn.endswith(".coroutine_drop.0.mir"):
                    continue
                txt = open(os.path.join(ddir, fn), errors="replace").read().split("\n")
                for i, ln in enumerate(txt):
                    if ln.startswith("fn "):
                        k = ln.find("(_1: *mut ")
                        if k > 0:
                            txt[i] = ln[:k] + "::{coroutine_drop}" + ln[k:]
                            n_shims += 1
                        break
                f.write("\n".join(txt) + "\n")
        shutil.rmtree(ddir, ignore_errors=True)
        if n_shims == 0:
            raise RuntimeError("MIR dump contains no coroutine drop shims")
        os.replace(tmp, out)
    return out


if __name__ == "__main__":
    print(mir_path(sys.argv[1] if len(sys.argv) > 1 else "default"))
