"""Glue between the runner and mirsym: runs driver obligations, converts summaries into
ObligationResults, replays counterexamples natively through /verif/replay."""
from __future__ import annotations
import importlib, json, os, re, time
from .common import *
from .mirdump import mir_path
from .mirsym.explore import explore

REPLAY_DIR = os.path.join(VERIF, "replay")
REPLAY_TARGET = os.path.join(BUILD, "replay")


def build_replay(profile="debug"):
    """(re)build the native replay binary against /repo's current tree with the verif cfg"""
    with FileLock("replay"):
        lock = os.path.join(REPLAY_DIR, "Cargo.lock")
        if not os.path.exists(lock):
            import shutil
            shutil.copy(os.path.join(REPO, "Cargo.lock"), lock)
        cmd = ["cargo", "build", "--offline", "-q"] + (["--release"] if profile == "release" else [])
        rc, out, _ = sh(cmd, cwd=REPLAY_DIR, env={"RUSTFLAGS": "--cfg rzmq_verif -Awarnings", "CARGO_TARGET_DIR": REPLAY_TARGET}, timeout=1800)
        if rc != 0:
            raise RuntimeError("replay build failed: " + out[-1500:])
    return os.path.join(REPLAY_TARGET, profile, "rzmq-replay")


def run_replay(script: str, profile="debug"):
    binp = build_replay(profile)
    import subprocess
    p = subprocess.run([binp], input=script, text=True, capture_output=True, timeout=240)
    return p.stdout + ("\n[stderr] " + p.stderr[-800:] if p.returncode != 0 else ""), p.returncode


def run_obligations(prop, obls, tier, seed):
    mir = mir_path()
    core = os.path.join(REPO, "core")
    results = []
    for o in obls:
        t0 = time.time()
        budget = o.get("budget", {}).get(tier, 240 if tier == "quick" else 1500)
        opts = {"seed": seed, "solver_timeout_ms": 30000, "params": o.get("params", {}).get(tier, {})}
        mir_o = mir_path(o["features"]) if o.get("features") else mir      # e.g. "full": curve + noise_xx compiled in
        s = explore(mir_o, core, (o["module"], o["func"]), opts=opts, time_budget_s=budget,
                    max_paths=o.get("max_paths", 3000000))
        r = ObligationResult(oid="mirsym:" + o["name"], engine="mirsym", status="pass",
                             functions=[_short(f) for f in s["called"]], bounds=o.get("bounds", {}).get(tier, "") if isinstance(o.get("bounds"), dict) else o.get("bounds", ""),
                             models=s["models"], queries=s["queries"] + s["checks"], nontrivial=s["ok"],
                             paths=s["paths"], solver_s=s["solver_s"], wall_s=time.time() - t0)
        notes = []
        bad = s.get("unsupported", 0) + s.get("crash", 0) + s.get("panic", 0)
        if bad:
            r.status = "inconclusive"
            notes.append(f"{bad} path(s) outside the encoder: " + "; ".join(sorted({n[:160] for n in s['notes']})[:3]))
        if not s["complete"]:
            r.status = "inconclusive"
            notes.append("path budget exhausted: " + "; ".join(n for n in s["notes"] if "budget" in n))
        for c in o.get("required_covers", []):
            if not s["covers"].get(c):
                r.status = "inconclusive"
                notes.append(f"vacuity: cover '{c}' not reached")
        for k, v in s["covers"].items():
            if v:
                r.witnesses.append({"cover": k, "witness": _compact(v)})
        seen = set()
        for role, desc, model in s["failures"]:
            if role in seen:
                continue
            seen.add(role)
            r.failures.append(Failure(role=f"{o['name']}|{role}", description=desc,
                                      cex={"engine": "mirsym", "module": o["module"], "func": o["func"], "role": role,
                                           "model": model, "params": opts["params"]}))
        if r.failures:
            r.status = "fail"
        r.note = " | ".join(notes)
        results.append(r)
    return results


def _short(fn):
    return re.sub(r"<impl at [^>]*/([^/>:]+):(\d+):[^>]*>", r"<impl \1:\2>", fn)


def _compact(model):
    """group byte arrays name[i] into hex strings"""
    groups, out = {}, {}
    for k, v in model.items():
        m = re.match(r"^(.*)\[(\d+)\]$", k)
        if m and isinstance(v, int):
            groups.setdefault(m.group(1), {})[int(m.group(2))] = v
        else:
            out[k] = v
    for g, d in groups.items():
        out[g] = "".join(f"{d.get(i, 0):02x}" for i in range(max(d) + 1))
    return out


def replay_failure(failure):
    """native replay through the driver module's `replay_<func>(model, params)` -> (script, predicate)"""
    cex = failure.cex
    mod = importlib.import_module(cex["module"])
    fn = getattr(mod, "replay_" + cex["func"], None)
    if fn is None:
        failure.replayed, failure.replay_note = None, "no native replay for this driver"
        return
    res = fn(_compact(cex["model"]), cex.get("params", {}), cex["role"])
    if res is None:
        failure.replayed, failure.replay_note = None, "no native replay for this role of the driver"
        return
    script, pred, what = res
    notes, ok_any = [], False
    for profile in ("debug", "release"):
        try:
            out, rc = run_replay(script, profile)
        except Exception as ex:
            notes.append(f"{profile}: replay failed to run: {ex!r}"[:300])
            continue
        hit = pred(out)
        notes.append(f"{profile}: {'reproduced' if hit else 'not reproduced'}")
        ok_any = ok_any or hit
    failure.replayed = ok_any
    if not ok_any and getattr(mod, "REPLAY_INCONCLUSIVE_WHEN_NOT_REPRODUCED", {}).get(cex["func"]):
        # the native harness cannot control everything the model varies (e.g. Instant::now()): a run that does
        # not deviate says nothing about the counterexample
        failure.replayed = None
        notes.append("native harness cannot realise the model's clock values: not replayable")
    failure.replay_note = f"{what}; " + "; ".join(notes)
    path = os.path.join(BUILD, "cex", "scripts", re.sub(r"\W+", "_", failure.role)[:80] + ".replay")
    os.makedirs(os.path.dirname(path), exist_ok=True)
    with open(path, "w") as f:
        f.write(script)
    failure.replay_path = path
