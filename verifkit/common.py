"""Shared data types and helpers for the /verif runner."""
from __future__ import annotations
import dataclasses, fcntl, hashlib, json, os, subprocess, time
from typing import Any

VERIF = os.path.dirname(os.path.dirname(os.path.abspath(__file__)))
REPO = os.environ.get("VERIF_REPO", "/repo")
BUILD = os.path.join(VERIF, ".build")
NPROC = os.cpu_count() or 8


@dataclasses.dataclass
class Failure:
    """One counterexample / failed check produced by an engine."""
    role: str                 # stable identifier of *what* fails (used for known-findings matching)
    description: str
    location: str = ""
    cex: Any = None           # engine specific counterexample payload
    replayed: bool | None = None   # True = reproduced natively, False = did not reproduce, None = not replayable
    replay_path: str = ""
    replay_note: str = ""


@dataclasses.dataclass
class ObligationResult:
    oid: str
    engine: str
    status: str               # pass | fail | inconclusive
    functions: list[str] = dataclasses.field(default_factory=list)
    bounds: str = ""
    stubs: list[str] = dataclasses.field(default_factory=list)
    models: list[str] = dataclasses.field(default_factory=list)
    queries: int = 0          # solver queries / CBMC checks discharged
    nontrivial: int = 0       # reachable (non-vacuous) checks / feasible path classes
    paths: int = 0
    states: int = 0
    transitions: int = 0
    solver_s: float = 0.0
    wall_s: float = 0.0
    failures: list[Failure] = dataclasses.field(default_factory=list)
    witnesses: list[Any] = dataclasses.field(default_factory=list)   # cover witnesses / sample cases
    note: str = ""
    validated_traces: int = 0


def sh(cmd, cwd=None, env=None, timeout=None, capture=True):
    e = dict(os.environ)
    e.setdefault("CARGO_NET_OFFLINE", "true")
    if env:
        e.update(env)
    t0 = time.time()
    try:
        p = subprocess.run(cmd, cwd=cwd, env=e, timeout=timeout, shell=isinstance(cmd, str),
                           stdout=subprocess.PIPE if capture else None,
                           stderr=subprocess.STDOUT if capture else None, text=True, errors="replace")
        return p.returncode, p.stdout or "", time.time() - t0
    except subprocess.TimeoutExpired as ex:
        out = ex.stdout or ""
        if isinstance(out, bytes):
            out = out.decode(errors="replace")
        return 124, out + "\n[timeout]", time.time() - t0


class FileLock:
    def __init__(self, name):
        os.makedirs(BUILD, exist_ok=True)
        self.path = os.path.join(BUILD, name + ".lock")

    def __enter__(self):
        self.f = open(self.path, "w")
        fcntl.flock(self.f, fcntl.LOCK_EX)
        return self

    def __exit__(self, *a):
        fcntl.flock(self.f, fcntl.LOCK_UN)
        self.f.close()


def tree_hash(paths):
    """Content hash of files under the given paths (sorted walk)."""
    h = hashlib.sha256()
    for root in paths:
        if os.path.isfile(root):
            files = [root]
        else:
            files = []
            for d, dn, fn in os.walk(root):
                dn[:] = sorted(x for x in dn if x not in ("target", ".git"))
                for f in sorted(fn):
                    files.append(os.path.join(d, f))
        for f in files:
            h.update(f.encode())
            try:
                with open(f, "rb") as fh:
                    h.update(fh.read())
            except OSError:
                pass
    return h.hexdigest()[:20]


def jdump(obj, path):
    os.makedirs(os.path.dirname(path), exist_ok=True)
    tmp = path + ".tmp"
    with open(tmp, "w") as f:
        json.dump(obj, f, indent=1, default=str)
    os.replace(tmp, path)
