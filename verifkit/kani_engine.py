"""Kani engine: runs a set of #[kani::proof] harnesses of /verif/kani (path dependency on
/repo/core, rebuilt from the current working tree by cargo) and turns CBMC's verdicts into
ObligationResults. Counterexamples are replayed natively with Kani's concrete playback."""
from __future__ import annotations
import json, os, re, shutil, time
from .common import *

KANI_DIR = os.path.join(VERIF, "kani")
TARGET = os.path.join(BUILD, "kani")
UNSTABLE = ["-Z", "stubbing", "-Z", "unstable-options"]


def _sync_lock():
    # the harness crate uses /repo's lock file so that dependency versions are the repo's own
    src = os.path.join(REPO, "Cargo.lock")
    dst = os.path.join(KANI_DIR, "Cargo.lock")
    try:
        if not os.path.exists(dst):
            shutil.copy(src, dst)
    except OSError:
        pass


def run_harnesses(harnesses, timeout_s, jobs=None, tag="run"):
    """harnesses: list of dict(name, functions, bounds, stubs). Returns list[ObligationResult]."""
    if not harnesses:
        return []
    _sync_lock()
    jobs = jobs or min(len(harnesses), max(2, NPROC - 2))
    out_json = os.path.join(BUILD, f"kani_{tag}_{os.getpid()}.json")
    log = os.path.join(BUILD, f"kani_{tag}_{os.getpid()}.log")
    cmd = ["cargo", "kani", "--target-dir", TARGET, *UNSTABLE,
           "--harness-timeout", f"{int(timeout_s)}s", "-j", str(jobs),
           "--output-format", "terse", "--exact", "--export-json", out_json]
    by_mod = {}
    for h in harnesses:
        cmd += ["--harness", h["module"] + "::" + h["name"]]
        by_mod[h["module"] + "::" + h["name"]] = h
    t0 = time.time()
    with FileLock("kani"):
        if os.path.exists(out_json):
            os.remove(out_json)
        # a generous global cap: all harnesses sequentially would need len*timeout/jobs
        cap = 240 + timeout_s * (1 + len(harnesses) // jobs) * 1.5
        rc, out, wall = sh(cmd, cwd=KANI_DIR, timeout=cap,
                           env={"RUSTFLAGS": os.environ.get("VERIF_KANI_RUSTFLAGS", "")} if os.environ.get("VERIF_KANI_RUSTFLAGS") else None)
    with open(log, "w") as f:
        f.write(out)
    results = []
    data = None
    if os.path.exists(out_json):
        try:
            data = json.load(open(out_json))
        except Exception:
            data = None
    if data is None:
        # compile error / ICE / global timeout: everything inconclusive, keep the reason
        m = re.search(r"^(error(\[E\d+\])?: .*)$", out, re.M)
        why = m.group(1) if m else ("exit %d" % rc)
        tail = "\n".join(out.strip().splitlines()[-5:])
        for h in harnesses:
            results.append(ObligationResult(oid="kani:" + h["name"], engine="kani", status="inconclusive",
                                            functions=h.get("functions", []), bounds=h.get("bounds", ""),
                                            stubs=h.get("stubs", []), wall_s=wall,
                                            note=f"kani did not produce results: {why} | {tail[-400:]}"))
        return results
    res = {r["harness_id"]: r for r in data.get("verification_results", {}).get("results", [])}
    pdet = {r["harness_id"]: (r.get("property_details") or {}) for r in data.get("property_details", [])}
    cstat = {r["harness_id"]: (r.get("cbmc_stats") or {}) for r in data.get("cbmc", [])}
    errs = {r["harness_id"]: r for r in data.get("error_details", [])}
    for hid, h in by_mod.items():
        r = res.get(hid)
        o = ObligationResult(oid="kani:" + h["name"], engine="kani", status="inconclusive",
                             functions=h.get("functions", []), bounds=h.get("bounds", ""),
                             stubs=h.get("stubs", []))
        if r is None:
            o.note = "harness missing from kani output (name filter did not match?)"
            results.append(o)
            continue
        pd = pdet.get(hid, {})
        cs = cstat.get(hid, {})
        o.wall_s = (r.get("duration_ms") or 0) / 1000.0
        o.solver_s = float(cs.get("runtime_solver_s", 0) or 0) + float(cs.get("runtime_symex_s", 0) or 0)
        o.queries = int(pd.get("total_properties") or 0)
        o.nontrivial = int(pd.get("passed") or 0) + int(pd.get("satisfied") or 0)
        o.paths = int(cs.get("vccs_generated") or 0)
        status = r.get("status", "")
        checks = r.get("checks", [])
        failed = [c for c in checks if c.get("status") in ("Failure", "FAILURE", "Failed")]
        undet = [c for c in checks if c.get("status") in ("Undetermined", "UNDETERMINED")]
        covers = [c for c in checks if c.get("category") == "cover" or "cover" in (c.get("category") or "")]
        unsat_cover = [c for c in covers if c.get("status") not in ("Satisfied", "SATISFIED")]
        e = errs.get(hid, {})
        if status == "Success" and not failed and not undet:
            if unsat_cover:
                o.status = "inconclusive"
                o.note = "vacuity: cover not satisfied: " + "; ".join(c.get("description", "") for c in unsat_cover)
            else:
                o.status = "pass"
                o.witnesses = [{"cover": c.get("description", ""), "status": c.get("status")} for c in covers]
        elif failed:
            o.status = "fail"
            seen = set()
            for c in failed:
                fn = c.get("function", "")
                desc = c.get("description", "")
                loc = c.get("location", {})
                role = f"{h['name']}|{desc}|{fn}"
                if role in seen:
                    continue
                seen.add(role)
                o.failures.append(Failure(role=role, description=desc,
                                          location=f"{loc.get('file','')}:{loc.get('line','')} in {fn}",
                                          cex={"engine": "kani", "harness": h["name"], "module": h["module"]}))
        else:
            o.status = "inconclusive"
            o.note = f"kani status={status} exit={e.get('exit_status')} type={e.get('error_type')}"
        results.append(o)
    return results


def playback(harness_module, harness_name, timeout_s=900):
    """Replay a failing harness natively: ask Kani for the concrete values of its counterexample
    (--concrete-playback=print), put the generated #[test] into a scratch copy of the harness crate
    and run it with `cargo kani playback` in the dev and the release profile.
    Returns (reproduced: bool|None, note, path_of_test)."""
    scratch = os.path.join(BUILD, "playback", harness_name)
    shutil.rmtree(scratch, ignore_errors=True)
    os.makedirs(os.path.dirname(scratch), exist_ok=True)
    shutil.copytree(KANI_DIR, scratch, ignore=shutil.ignore_patterns("target"))
    with FileLock("kani_pb"):
        cmd = ["cargo", "kani", "--target-dir", os.path.join(BUILD, "kani_pb"), *UNSTABLE, "-Z", "concrete-playback",
               "--concrete-playback=print", "--harness-timeout", f"{int(timeout_s)}s", "--exact",
               "--harness", harness_module + "::" + harness_name]
        rc, out, _ = sh(cmd, cwd=scratch, timeout=timeout_s + 300)
        tests = re.findall(r"```\n(.*?)```", out, re.S)
        tests = [t for t in tests if "concrete_playback_run" in t]
        if not tests:
            return None, "kani produced no concrete playback test", ""
        body = "\n".join(tests)
        body = re.sub(r"concrete_playback_run\(concrete_vals, (\w+)\)",
                      lambda m: f"concrete_playback_run(concrete_vals, crate::{harness_module}::{m.group(1)})", body)
        tpath = os.path.join(scratch, "src", "playback_tests.rs")
        with open(tpath, "w") as f:
            f.write("// generated by Kani concrete playback\n" + body)
        with open(os.path.join(scratch, "src", "lib.rs"), "a") as f:
            f.write("\n#[cfg(test)]\nmod playback_tests;\n")
        notes = []
        ok_any = False
        for profile in ([],):  # `cargo kani playback` has no release mode
            cmd = ["cargo", "kani", "playback", "-Z", "concrete-playback", *profile, "--", "kani_concrete_playback"]
            env = {"CARGO_TARGET_DIR": os.path.join(BUILD, "kani_pb_native")}
            rc, out, _ = sh(cmd, cwd=scratch, timeout=timeout_s + 900, env=env)
            failed = bool(re.search(r"test result: FAILED|panicked at", out))
            ran = bool(re.search(r"running \d+ test", out))
            notes.append(("release" if profile else "dev") + (": reproduced" if failed else (": passed (not reproduced)" if ran else ": could not run")))
            if not ran:
                with open(os.path.join(scratch, "playback_err.log"), "a") as f:
                    f.write(out)
            ok_any = ok_any or failed
        if not ok_any and all("could not run" in n for n in notes):
            return None, "; ".join(notes), tpath
        return ok_any, "; ".join(notes), tpath
