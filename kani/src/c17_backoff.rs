//! C17 — reconnect back-off arithmetic: ReconnectState::on_connection_failure for every
//! (RECONNECT_IVL, RECONNECT_IVL_MAX, attempt) triple the option parsers can produce.
use rzmq::verif_facade::VReconnectState;
use std::time::Duration;

fn any_ivl(nonzero: bool) -> Duration {
  // option values are i32 milliseconds (parse_reconnect_ivl_option / _max_option)
  let ms: u32 = kani::any();
  kani::assume(ms <= i32::MAX as u32);
  if nonzero {
    kani::assume(ms >= 1);
  }
  Duration::from_millis(ms as u64)
}

#[kani::proof]
#[kani::unwind(34)]
#[kani::stub(std::time::Instant::now, crate::stubs::instant_now)]
pub fn c17_backoff_step() {
  let attempts: u32 = kani::any();
  let base = any_ivl(true);
  let max = any_ivl(false);
  let mut st = VReconnectState::new(attempts);
  let d1 = st.on_connection_failure(base, max);
  // never above RECONNECT_IVL_MAX when that is set
  if max > Duration::ZERO {
    assert!(d1 <= max);
  }
  // first attempt waits RECONNECT_IVL (capped)
  if attempts == 0 {
    assert!(d1 == if max > Duration::ZERO && max < base { max } else { base });
  }
  // never below the base interval unless capped
  assert!(d1 >= base || (max > Duration::ZERO && d1 == max));
  assert!(st.current_attempts() == attempts.saturating_add(1));
  assert!(st.next_attempt_at().is_some());
  // the next failure: monotone and at most geometric (factor 2)
  let d2 = st.on_connection_failure(base, max);
  assert!(d2 >= d1);
  assert!(d2 <= d1.saturating_mul(2));
  if max > Duration::ZERO {
    assert!(d2 <= max);
  }
  kani::cover!(attempts == 31 && max == Duration::ZERO, "attempt 31 without cap");
  kani::cover!(max > Duration::ZERO && max < base, "cap below base");
  // success resets
  st.on_connection_success();
  assert!(st.current_attempts() == 0 && st.next_attempt_at().is_none());
}

/// One call only (cheap enough for the quick tier): cap, first delay, lower bound, attempt counter.
#[kani::proof]
#[kani::unwind(34)]
#[kani::stub(std::time::Instant::now, crate::stubs::instant_now)]
pub fn c17_backoff_single() {
  let attempts: u32 = kani::any();
  let base = any_ivl(true);
  let max = any_ivl(false);
  let mut st = VReconnectState::new(attempts);
  let d1 = st.on_connection_failure(base, max);
  if max > Duration::ZERO {
    assert!(d1 <= max);
  }
  if attempts == 0 {
    assert!(d1 == if max > Duration::ZERO && max < base { max } else { base });
  }
  assert!(d1 >= base || (max > Duration::ZERO && d1 == max));
  assert!(st.current_attempts() == attempts.saturating_add(1));
  kani::cover!(max > Duration::ZERO && max == base && attempts == 1, "cap equal to base, second attempt");
}

/// A success after any number of failures - with the retry deadline still stored, as when the connection comes
/// up before the maintenance tick clears it - resets the back-off completely: the next outage starts at
/// RECONNECT_IVL again.
#[kani::proof]
#[kani::unwind(34)]
#[kani::stub(std::time::Instant::now, crate::stubs::instant_now)]
pub fn c17_success_resets() {
  let attempts: u32 = kani::any();
  let base = any_ivl(true);
  let max = any_ivl(false);
  let mut st = VReconnectState::new(attempts);
  let _ = st.on_connection_failure(base, max);
  assert!(st.next_attempt_at().is_some());
  st.on_connection_success();
  assert!(st.current_attempts() == 0);
  assert!(st.next_attempt_at().is_none());
  let d = st.on_connection_failure(base, max);
  assert!(d == if max > Duration::ZERO && max < base { max } else { base });
  kani::cover!(attempts >= 3, "success after several failures");
}

#[kani::proof]
#[kani::stub(std::time::Instant::now, crate::stubs::instant_now)]
pub fn c17_is_due() {
  let attempts: u32 = kani::any();
  kani::assume(attempts < 4);
  let base = any_ivl(true);
  let mut st = VReconnectState::new(attempts);
  assert!(!st.is_due(crate::stubs::instant_now()));
  let _ = st.on_connection_failure(base, Duration::ZERO);
  let at = st.next_attempt_at().unwrap();
  let t = crate::stubs::instant_now();
  assert!(st.is_due(t) == (t >= at));
}
