//! Stubs required to get Kani 0.68 through this code base (see DESIGN.md §1.2).
//! Each stub is listed in the evidence of every harness that applies it.

/// `format!` only builds error/log strings; no property depends on their text.
pub fn fmt_format(_args: std::fmt::Arguments<'_>) -> String {
  String::new()
}

/// `Instant::now()` -> arbitrary instant (an `Instant` is `{secs: i64, nanos: u32 < 1e9}` on Linux).
pub fn instant_now() -> std::time::Instant {
  let secs: i64 = kani::any();
  let nanos: u32 = kani::any();
  kani::assume(secs >= 0 && secs < (1i64 << 40));
  kani::assume(nanos < 1_000_000_000);
  unsafe { std::mem::transmute::<(i64, u32), std::time::Instant>((secs, nanos)) }
}

/// tracing: no subscriber is ever installed in a harness, so every callsite is "never
/// interested" and the dispatcher is the no-op one. (The real functions reach a
/// thread-local with a destructor, which Kani 0.68 cannot compile.)
pub fn tracing_register(_cs: &'static tracing_core::callsite::DefaultCallsite) -> tracing_core::subscriber::Interest {
  tracing_core::subscriber::Interest::never()
}

pub fn tracing_get_default<T, F>(mut f: F) -> T
where
  F: FnMut(&tracing_core::Dispatch) -> T,
{
  f(&tracing_core::Dispatch::none())
}
