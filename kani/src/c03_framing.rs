//! C03 — ZMTP framing: decoders vs. the reference parse, encoders vs. the reference header,
//! round trips and cut independence.
use crate::spec::*;
use bytes::{Bytes, BytesMut};
use rzmq::protocol::zmtp::manual_parser::ZmtpManualParser;
use rzmq::protocol::zmtp::ZmtpCodec;
use rzmq::{FrameBatch, Msg, MsgFlags};
use tokio_util::codec::{Decoder, Encoder};

const N: usize = 12; // symbolic window: 9 header bytes + up to 3 payload bytes

fn any_window() -> ([u8; N], usize) {
  let buf: [u8; N] = kani::any();
  let n: usize = kani::any();
  kani::assume(n <= N);
  (buf, n)
}

fn check_msg(msg: &Msg, src: &[u8], header_len: usize, len: u64, more: bool, command: bool) {
  assert!(msg.size() as u64 == len);
  assert!(msg.is_more() == more);
  assert!(msg.is_command() == command);
  let d = msg.data().unwrap_or(&[]);
  let mut i = 0;
  while i < d.len() {
    assert!(d[i] == src[header_len + i]);
    i += 1;
  }
}

/// peek_frame_len ≡ reference, for every header (all 2^64 lengths), every MAXMSGSIZE.
#[kani::proof]
#[kani::unwind(14)]
#[kani::stub(std::fmt::format, crate::stubs::fmt_format)]
pub fn c03_peek_frame_len_vs_spec() {
  let (buf, n) = any_window();
  let max: i64 = kani::any();
  let src = &buf[..n];
  let p = ZmtpManualParser::new(max);
  let r = p.peek_frame_len(src);
  // peek only needs the header: compare against the parse of header + announced length
  match spec_parse(src, max) {
    Parse::TooBig => assert!(r.is_err()),
    Parse::Frame { header_len, len, .. } => {
      assert!(matches!(r, Ok(Some(t)) if t as u64 == header_len as u64 + len));
    }
    Parse::Incomplete => {
      // header incomplete => None; header complete but body missing => Some(total)
      match r {
        Ok(None) => {
          assert!(n == 0 || n < if buf[0] & F_LONG != 0 { 9 } else { 2 });
        }
        Ok(Some(t)) => {
          let hl = if buf[0] & F_LONG != 0 { 9usize } else { 2 };
          assert!(n >= hl && t > n);
          assert!(t as u128 == hl as u128 + spec_len(src) as u128);
        }
        // refusing is only acceptable when header+payload does not fit a usize
        Err(_) => {
          let hl = if buf[0] & F_LONG != 0 { 9u128 } else { 2 };
          assert!(hl + spec_len(src) as u128 > usize::MAX as u128);
        }
      }
    }
  }
  std::mem::forget(r);
}

/// decode_frame_from_slice ≡ reference.
#[kani::proof]
#[kani::unwind(14)]
#[kani::stub(std::fmt::format, crate::stubs::fmt_format)]
pub fn c03_decode_slice_vs_spec() {
  let (buf, n) = any_window();
  let max: i64 = kani::any();
  let src = &buf[..n];
  let p = ZmtpManualParser::new(max);
  let r = p.decode_frame_from_slice(src);
  match spec_parse(src, max) {
    Parse::TooBig => assert!(r.is_err()),
    Parse::Incomplete => assert!(matches!(r, Ok(None))),
    Parse::Frame { header_len, len, more, command } => match &r {
      Ok(Some((msg, used))) => {
        assert!(*used as u64 == header_len as u64 + len);
        check_msg(msg, src, header_len, len, more, command);
        kani::cover!(len == 3 && more && command, "3-byte MORE|COMMAND frame decoded");
      }
      _ => assert!(false),
    },
  }
  std::mem::forget(r);
}

/// decode_frame_from_bytes ≡ reference.
#[kani::proof]
#[kani::unwind(14)]
#[kani::stub(std::fmt::format, crate::stubs::fmt_format)]
pub fn c03_decode_bytes_vs_spec() {
  decode_bytes_vs_spec::<N>();
}

/// Same with a 10-byte window (9 header bytes + 1 payload byte) for the quick tier.
#[kani::proof]
#[kani::unwind(12)]
#[kani::stub(std::fmt::format, crate::stubs::fmt_format)]
pub fn c03_decode_bytes_vs_spec_w10() {
  decode_bytes_vs_spec::<10>();
}

fn decode_bytes_vs_spec<const W: usize>() {
  let buf: [u8; W] = kani::any();
  let n: usize = kani::any();
  kani::assume(n <= W);
  let max: i64 = kani::any();
  let src = &buf[..n];
  // concrete-size allocation, symbolic logical length
  let b = Bytes::copy_from_slice(&buf).slice(0..n);
  let p = ZmtpManualParser::new(max);
  let r = p.decode_frame_from_bytes(&b);
  match spec_parse(src, max) {
    Parse::TooBig => assert!(r.is_err()),
    Parse::Incomplete => assert!(matches!(r, Ok(None))),
    Parse::Frame { header_len, len, more, command } => match &r {
      Ok(Some((msg, used))) => {
        assert!(*used as u64 == header_len as u64 + len);
        check_msg(msg, src, header_len, len, more, command);
      }
      _ => assert!(false),
    },
  }
  std::mem::forget(r);
  std::mem::forget(b);
}

/// decode_from_buffer ≡ reference; Ok(None) leaves the accumulator untouched; a decoded
/// frame consumes exactly header+payload.
#[kani::proof]
#[kani::unwind(14)]
#[kani::stub(std::fmt::format, crate::stubs::fmt_format)]
pub fn c03_decode_buffer_vs_spec() {
  let (buf, n) = any_window();
  let max: i64 = kani::any();
  let src = &buf[..n];
  let mut acc = BytesMut::from(&buf[..]);
  acc.truncate(n);
  let mut p = ZmtpManualParser::new(max);
  let r = p.decode_from_buffer(&mut acc);
  match spec_parse(src, max) {
    Parse::TooBig => assert!(r.is_err()),
    Parse::Incomplete => {
      assert!(matches!(r, Ok(None)));
      assert!(acc.len() == n);
      let mut i = 0;
      while i < n {
        assert!(acc[i] == src[i]);
        i += 1;
      }
    }
    Parse::Frame { header_len, len, more, command } => match &r {
      Ok(Some(msg)) => {
        check_msg(msg, src, header_len, len, more, command);
        assert!(acc.len() as u64 == n as u64 - header_len as u64 - len);
      }
      _ => assert!(false),
    },
  }
  std::mem::forget(r);
  std::mem::forget(acc);
}

// ---------------------------------------------------------------------------------------------
// tokio codec decoder (stateful, consumes the header eagerly, 64 MiB hard cap)

/// ZmtpCodec::decode fed the window in one piece ≡ reference for lengths ≤ the codec's cap.
#[kani::proof]
#[kani::unwind(14)]
#[kani::stub(std::fmt::format, crate::stubs::fmt_format)]
#[kani::stub(tracing_core::callsite::DefaultCallsite::register, crate::stubs::tracing_register)]
#[kani::stub(tracing_core::dispatcher::get_default, crate::stubs::tracing_get_default)]
pub fn c03_codec_decode_vs_spec() {
  let (buf, n) = any_window();
  let src = &buf[..n];
  let mut acc = BytesMut::from(&buf[..]);
  acc.truncate(n);
  let mut c = ZmtpCodec::new();
  let r = c.decode(&mut acc);
  match spec_parse(src, 64 * 1024 * 1024) {
    Parse::TooBig => assert!(r.is_err()),
    Parse::Incomplete => assert!(matches!(r, Ok(None))),
    Parse::Frame { header_len, len, more, command } => match &r {
      Ok(Some(msg)) => {
        check_msg(msg, src, header_len, len, more, command);
        assert!(acc.len() as u64 == n as u64 - header_len as u64 - len);
      }
      _ => assert!(false),
    },
  }
  std::mem::forget(r);
  std::mem::forget(acc);
  std::mem::forget(c);
}

// ---------------------------------------------------------------------------------------------
// cut independence for the two stateful decoders: feed [..cut] first, then the rest.
// Allocation sizes stay concrete: the accumulator "prefix ++ rest" of phase 2 is rebuilt from the
// full window after asserting that what phase 1 left behind is exactly the unconsumed prefix.

fn small_frame_stream() -> ([u8; 8], usize) {
  // one short-header frame with ≤ 3 payload bytes followed by the first bytes of the next frame
  let buf: [u8; 8] = kani::any();
  let n: usize = kani::any();
  kani::assume(n <= 8);
  kani::assume(buf[0] & F_LONG == 0); // long headers: see c03_*_cut_long_header
  kani::assume(buf[1] <= 3);
  (buf, n)
}

fn long_header_stream() -> ([u8; 11], usize) {
  // a long-header frame announcing ≤ 2 payload bytes (non-canonical but legal), cut anywhere
  let mut buf: [u8; 11] = kani::any();
  let n: usize = kani::any();
  kani::assume(n <= 11);
  kani::assume(buf[0] & F_LONG != 0);
  let mut i = 1;
  while i < 8 {
    buf[i] = 0;
    i += 1;
  }
  kani::assume(buf[8] <= 2);
  (buf, n)
}

fn decode_buffer_in_two_steps<const W: usize>(buf: [u8; W], n: usize) {
  let cut: usize = kani::any();
  kani::assume(cut <= n);
  let max: i64 = kani::any();
  let mut p = ZmtpManualParser::new(max);
  let mut acc1 = BytesMut::from(&buf[..]);
  acc1.truncate(cut);
  let first = p.decode_from_buffer(&mut acc1);
  let expected = spec_parse(&buf[..n], max);
  match first {
    Ok(None) => {
      // nothing consumed from an incomplete frame
      assert!(acc1.len() == cut);
      let mut i = 0;
      while i < cut {
        assert!(acc1[i] == buf[i]);
        i += 1;
      }
      // phase 2: same parser object, accumulator = untouched prefix ++ rest
      let mut acc2 = BytesMut::from(&buf[..]);
      acc2.truncate(n);
      let second = p.decode_from_buffer(&mut acc2);
      match expected {
        Parse::TooBig => assert!(second.is_err()),
        Parse::Incomplete => assert!(matches!(second, Ok(None)) && acc2.len() == n),
        Parse::Frame { header_len, len, more, command } => match &second {
          Ok(Some(m)) => {
            check_msg(m, &buf[..n], header_len, len, more, command);
            assert!(acc2.len() as u64 == n as u64 - header_len as u64 - len);
            kani::cover!(cut == 1, "frame completed after a cut inside the header");
          }
          _ => assert!(false),
        },
      }
      std::mem::forget((second, acc2));
    }
    Ok(Some(ref m)) => {
      // the prefix alone already held the frame: must be the same frame as in the whole stream
      match expected {
        Parse::Frame { header_len, len, more, command } => {
          assert!(header_len as u64 + len <= cut as u64);
          check_msg(m, &buf[..n], header_len, len, more, command);
        }
        _ => assert!(false),
      }
    }
    Err(_) => assert!(matches!(expected, Parse::TooBig)),
  }
  std::mem::forget((first, acc1, p));
}

#[kani::proof]
#[kani::unwind(10)]
#[kani::stub(std::fmt::format, crate::stubs::fmt_format)]
pub fn c03_decode_buffer_cut_independent() {
  let (buf, n) = small_frame_stream();
  decode_buffer_in_two_steps(buf, n);
}

#[kani::proof]
#[kani::unwind(13)]
#[kani::stub(std::fmt::format, crate::stubs::fmt_format)]
pub fn c03_decode_buffer_cut_long_header() {
  let (buf, n) = long_header_stream();
  decode_buffer_in_two_steps(buf, n);
}

fn codec_decode_in_two_steps<const W: usize>(buf: [u8; W], n: usize) {
  let cut: usize = kani::any();
  kani::assume(cut <= n);
  let mut c = ZmtpCodec::new();
  let mut acc1 = BytesMut::from(&buf[..]);
  acc1.truncate(cut);
  let first = c.decode(&mut acc1);
  let expected = spec_parse(&buf[..n], 64 * 1024 * 1024);
  match first {
    Ok(None) => {
      // the codec may have consumed the header (it keeps it in its state), never payload bytes
      let k = cut - acc1.len();
      assert!(k == 0 || k == if buf[0] & F_LONG != 0 { 9 } else { 2 });
      let mut i = 0;
      while i < acc1.len() {
        assert!(acc1[i] == buf[k + i]);
        i += 1;
      }
      let mut acc2 = BytesMut::from(&buf[..]);
      acc2.truncate(n);
      let _ = acc2.split_to(k);
      let second = c.decode(&mut acc2);
      match expected {
        Parse::TooBig => assert!(false), // would have been refused in phase 1 or is refused now
        Parse::Incomplete => assert!(matches!(second, Ok(None))),
        Parse::Frame { header_len, len, more, command } => match &second {
          Ok(Some(m)) => {
            check_msg(m, &buf[..n], header_len, len, more, command);
            assert!(acc2.len() as u64 == n as u64 - header_len as u64 - len);
            kani::cover!(k > 0, "header consumed in the first read, body in the second");
          }
          _ => assert!(false),
        },
      }
      std::mem::forget((second, acc2));
    }
    Ok(Some(ref m)) => match expected {
      Parse::Frame { header_len, len, more, command } => {
        assert!(header_len as u64 + len <= cut as u64);
        check_msg(m, &buf[..n], header_len, len, more, command);
      }
      _ => assert!(false),
    },
    Err(_) => assert!(matches!(expected, Parse::TooBig)),
  }
  std::mem::forget((first, acc1, c));
}

#[kani::proof]
#[kani::unwind(10)]
#[kani::stub(std::fmt::format, crate::stubs::fmt_format)]
#[kani::stub(tracing_core::callsite::DefaultCallsite::register, crate::stubs::tracing_register)]
#[kani::stub(tracing_core::dispatcher::get_default, crate::stubs::tracing_get_default)]
pub fn c03_codec_decode_cut_independent() {
  let (buf, n) = small_frame_stream();
  codec_decode_in_two_steps(buf, n);
}

#[kani::proof]
#[kani::unwind(13)]
#[kani::stub(std::fmt::format, crate::stubs::fmt_format)]
#[kani::stub(tracing_core::callsite::DefaultCallsite::register, crate::stubs::tracing_register)]
#[kani::stub(tracing_core::dispatcher::get_default, crate::stubs::tracing_get_default)]
pub fn c03_codec_decode_cut_long_header() {
  let (buf, n) = long_header_stream();
  codec_decode_in_two_steps(buf, n);
}

/// Primed-prefix entry of the tokio codec: bytes handed over as prefix ++ fresh bytes decode like
/// the concatenation.
#[kani::proof]
#[kani::unwind(10)]
#[kani::stub(std::fmt::format, crate::stubs::fmt_format)]
#[kani::stub(tracing_core::callsite::DefaultCallsite::register, crate::stubs::tracing_register)]
#[kani::stub(tracing_core::dispatcher::get_default, crate::stubs::tracing_get_default)]
pub fn c03_codec_primed_prefix() {
  let (buf, n) = small_frame_stream();
  let cut: usize = kani::any();
  kani::assume(cut <= n);
  let mut c = ZmtpCodec::new();
  let mut pre = BytesMut::from(&buf[..]);
  pre.truncate(cut);
  c.prime_with_prefix(pre);
  let mut rest = BytesMut::from(&buf[..]);
  rest.truncate(n);
  let _ = rest.split_to(cut);
  let r = c.decode(&mut rest);
  match spec_parse(&buf[..n], 64 * 1024 * 1024) {
    Parse::TooBig => assert!(r.is_err()),
    Parse::Incomplete => assert!(matches!(r, Ok(None))),
    Parse::Frame { header_len, len, more, command } => match &r {
      Ok(Some(m)) => {
        check_msg(m, &buf[..n], header_len, len, more, command);
        kani::cover!(cut == 1 && len == 3, "prefix ends inside the header");
      }
      _ => assert!(false),
    },
  }
  std::mem::forget((r, rest, c));
}

// ---------------------------------------------------------------------------------------------
// encoders vs. the reference header

fn any_flags() -> (MsgFlags, bool, bool) {
  let more: bool = kani::any();
  let command: bool = kani::any();
  let mut f = MsgFlags::empty();
  if more {
    f |= MsgFlags::MORE;
  }
  if command {
    f |= MsgFlags::COMMAND;
  }
  (f, more, command)
}

/// A message whose payload length is one of the boundary classes; the first/last payload
/// bytes are symbolic, the encoders copy payloads opaquely.
fn msg_of_len<const L: usize>() -> (Msg, [u8; L], bool, bool) {
  let payload: [u8; L] = kani::any();
  let (f, more, command) = any_flags();
  let mut m = Msg::from_vec(payload.to_vec());
  m.set_flags(f);
  (m, payload, more, command)
}

fn check_wire(wire: &[u8], payload: &[u8], more: bool, command: bool) {
  let (h, hl) = spec_header(payload.len(), more, command);
  assert!(wire.len() == hl + payload.len());
  let mut i = 0;
  while i < hl {
    assert!(wire[i] == h[i]);
    i += 1;
  }
  // spot-check payload placement at both ends (memcpy is opaque)
  if !payload.is_empty() {
    assert!(wire.get(hl) == payload.first());
    assert!(wire.last() == payload.last());
  }
}

macro_rules! encoder_harnesses {
  ($len:expr, $codec:ident, $hdr:ident, $contig:ident, $vect:ident, $split:ident) => {
    #[kani::proof]
    #[kani::unwind(11)]
    pub fn $codec() {
      let (m, payload, more, command) = msg_of_len::<$len>();
      let mut c = ZmtpCodec::new();
      let mut dst = BytesMut::with_capacity(300);
      assert!(c.encode(m, &mut dst).is_ok());
      check_wire(&dst, &payload, more, command);
      std::mem::forget((dst, c));
    }

    #[kani::proof]
    #[kani::unwind(11)]
    pub fn $hdr() {
      let (m, payload, more, command) = msg_of_len::<$len>();
      let c = ZmtpCodec::new();
      let mut dst = BytesMut::with_capacity(16);
      assert!(c.encode_header_only(&m, &mut dst).is_ok());
      let (h, hl) = spec_header(payload.len(), more, command);
      assert!(dst.len() == hl);
      let mut i = 0;
      while i < hl {
        assert!(dst[i] == h[i]);
        i += 1;
      }
      std::mem::forget((dst, c, m));
    }

    #[kani::proof]
    #[kani::unwind(11)]
    pub fn $contig() {
      let (m, payload, more, command) = msg_of_len::<$len>();
      let mut fb = FrameBatch::new();
      fb.push(m);
      let mut e = rzmq::verif_facade::VFrameEncoder::new(64, 600);
      let batch = [fb];
      let out = e.frame_contiguous(&batch).unwrap();
      check_wire(&out, &payload, more, command);
      std::mem::forget((out, e, batch));
    }

    #[kani::proof]
    #[kani::unwind(11)]
    pub fn $vect() {
      let (m, payload, more, command) = msg_of_len::<$len>();
      let mut fb = FrameBatch::new();
      fb.push(m);
      let mut e = rzmq::verif_facade::VFrameEncoder::new(64, 600);
      let batch = [fb];
      let out = e.frame_vectored(&batch).unwrap();
      // slice 0 is the header, slice 1 (present iff the payload is non-empty) the payload itself
      let (h, hl) = spec_header(payload.len(), more, command);
      assert!(out.len() == if payload.is_empty() { 1 } else { 2 });
      assert!(out[0].len() == hl);
      let mut i = 0;
      while i < hl {
        assert!(out[0][i] == h[i]);
        i += 1;
      }
      if !payload.is_empty() {
        assert!(out[1].len() == payload.len());
        assert!(out[1].first() == payload.first() && out[1].last() == payload.last());
      }
      std::mem::forget((out, e, batch));
    }

    #[kani::proof]
    #[kani::unwind(11)]
    pub fn $split() {
      let (m, payload, more, command) = msg_of_len::<$len>();
      let mut f = rzmq::verif_facade::VNullFramer::new(-1, 4, 1024);
      let (hdr, body) = f.write_msg_split(m).unwrap();
      let (h, hl) = spec_header(payload.len(), more, command);
      assert!(hdr.len() == hl);
      let mut i = 0;
      while i < hl {
        assert!(hdr[i] == h[i]);
        i += 1;
      }
      match &body {
        Some(b) => {
          assert!(b.len() == payload.len());
          if !payload.is_empty() {
            assert!(b.first() == payload.first() && b.last() == payload.last());
          }
        }
        None => assert!(payload.is_empty()),
      }
      std::mem::forget((hdr, body, f));
    }
  };
}

encoder_harnesses!(0, c03_enc_codec_len0, c03_enc_header_only_len0, c03_enc_contiguous_len0, c03_enc_vectored_len0, c03_enc_split_len0);
encoder_harnesses!(3, c03_enc_codec_len3, c03_enc_header_only_len3, c03_enc_contiguous_len3, c03_enc_vectored_len3, c03_enc_split_len3);
encoder_harnesses!(255, c03_enc_codec_len255, c03_enc_header_only_len255, c03_enc_contiguous_len255, c03_enc_vectored_len255, c03_enc_split_len255);
encoder_harnesses!(256, c03_enc_codec_len256, c03_enc_header_only_len256, c03_enc_contiguous_len256, c03_enc_vectored_len256, c03_enc_split_len256);
