//! Kani proof harnesses over the real rzmq crate (path dependency on /repo/core).
//! Every harness is bounded; the bounds are in the harness names/comments and in
//! /verif/engines/kani_harnesses.json which the runner reads.
#![cfg(kani)]
#![allow(dead_code, unused_imports)]

mod stubs;
mod spec;
mod c03_framing;
mod c17_backoff;
