//! Reference semantics of ZMTP 3.x framing (RFC 23/37), written independently of the
//! implementation. The harnesses compare the real encoders/decoders with these.

pub const F_MORE: u8 = 0x01;
pub const F_LONG: u8 = 0x02;
pub const F_CMD: u8 = 0x04;

/// What a conforming decoder must say about the bytes `src` (a stream prefix
/// starting at a frame boundary) under MAXMSGSIZE `max` (-1 = unlimited).
#[derive(Clone, Copy, PartialEq, Eq, Debug)]
pub enum Parse {
  /// more bytes are needed
  Incomplete,
  /// the announced length exceeds MAXMSGSIZE
  TooBig,
  /// a complete frame: header length, payload length, MORE, COMMAND
  Frame { header_len: usize, len: u64, more: bool, command: bool },
}

pub fn spec_parse(src: &[u8], max: i64) -> Parse {
  if src.is_empty() {
    return Parse::Incomplete;
  }
  let flags = src[0];
  let long = flags & F_LONG != 0;
  let header_len = if long { 9 } else { 2 };
  if src.len() < header_len {
    return Parse::Incomplete;
  }
  let len: u64 = if long {
    ((src[1] as u64) << 56)
      | ((src[2] as u64) << 48)
      | ((src[3] as u64) << 40)
      | ((src[4] as u64) << 32)
      | ((src[5] as u64) << 24)
      | ((src[6] as u64) << 16)
      | ((src[7] as u64) << 8)
      | (src[8] as u64)
  } else {
    src[1] as u64
  };
  if max >= 0 && len > max as u64 {
    return Parse::TooBig;
  }
  // mathematical comparison: src.len() - header_len < len, no overflow possible
  if ((src.len() - header_len) as u64) < len {
    return Parse::Incomplete;
  }
  Parse::Frame { header_len, len, more: flags & F_MORE != 0, command: flags & F_CMD != 0 }
}

/// The header a conforming encoder must emit for a frame of `len` payload bytes.
pub fn spec_header(len: usize, more: bool, command: bool) -> ([u8; 9], usize) {
  let mut f = 0u8;
  if more {
    f |= F_MORE;
  }
  if command {
    f |= F_CMD;
  }
  let mut h = [0u8; 9];
  if len <= 255 {
    h[0] = f;
    h[1] = len as u8;
    (h, 2)
  } else {
    h[0] = f | F_LONG;
    let l = len as u64;
    h[1] = (l >> 56) as u8;
    h[2] = (l >> 48) as u8;
    h[3] = (l >> 40) as u8;
    h[4] = (l >> 32) as u8;
    h[5] = (l >> 24) as u8;
    h[6] = (l >> 16) as u8;
    h[7] = (l >> 8) as u8;
    h[8] = l as u8;
    (h, 9)
  }
}

/// Announced payload length of a complete header (caller guarantees the header is complete).
pub fn spec_len(src: &[u8]) -> u64 {
  if src[0] & F_LONG != 0 {
    let mut l = 0u64;
    let mut i = 1;
    while i < 9 {
      l = (l << 8) | src[i] as u64;
      i += 1;
    }
    l
  } else {
    src[1] as u64
  }
}
